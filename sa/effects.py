"""Intraprocedural origin (ownership) analysis and write-effect census.

Abstract locations: FRESH (created in this function by a copying construct), FROZEN (reached through
.props/._props/._registry or a prop getter), CALLER:<param> (a parameter or something reached from it),
SELF:<attr>, GLOBAL, UNKNOWN.  An expression's origin is a *set* of such locations.
"""
from __future__ import annotations

import ast
from typing import Any, Dict, FrozenSet, List, Optional, Set, Tuple

from .flow import dotted, function_local_imports, parents, resolve_call
from .loader import ClassInfo, FuncInfo, Program

FRESH, FROZEN, UNKNOWN, GLOBAL = "FRESH", "FROZEN", "UNKNOWN", "GLOBAL"

COPYING_CALLS = {"list", "dict", "tuple", "set", "frozenset", "sorted", "str", "repr", "int", "float", "bool",
                 "bytes", "len", "max", "min", "sum", "range", "enumerate", "zip", "map", "filter", "reversed",
                 "isinstance", "type", "id", "hash", "any", "all", "abs", "round", "chr", "ord", "format"}
COPYING_DOTTED = {"copy.copy", "copy.deepcopy", "dict.fromkeys"}
MUTATING_METHODS = {"append", "extend", "insert", "pop", "remove", "clear", "sort", "reverse", "update",
                    "setdefault", "popitem", "add", "discard", "difference_update", "intersection_update",
                    "symmetric_difference_update"}
FROZEN_ATTRS = {"props", "_props", "_registry"}
ALIAS_METHODS = {"get", "values", "items", "keys", "__getitem__", "setdefault"}   # return parts of the receiver


class Origins:
    def __init__(self, prog: Program, fi: FuncInfo, prop_names: Set[str], summaries: Dict[str, FrozenSet[str]],
                 props_classes: Set[str]) -> None:
        self.prog = prog
        self.fi = fi
        self.fn = fi.node
        self.prop_names = prop_names
        self.summaries = summaries
        self.props_classes = props_classes
        self.li = function_local_imports(fi.node)
        a = self.fn.args
        self.params = [p.arg for p in list(a.posonlyargs) + list(a.args) + list(a.kwonlyargs)]
        if a.vararg:
            self.params.append(a.vararg.arg)
        if a.kwarg:
            self.params.append(a.kwarg.arg)
        self.is_method = fi.cls is not None and not any(
            isinstance(d, ast.Name) and d.id == "staticmethod" for d in self.fn.decorator_list)
        self.self_name = self.params[0] if (self.is_method and self.params) else None
        self.env: Dict[str, Set[str]] = {}
        self.in_props_class = fi.cls is not None and any(c.name == "Props" or c.name in props_classes for c in fi.cls.mro())
        self._solve()

    # ---------------------------------------------------------------- forward dataflow (reaching origins)
    def _solve(self) -> None:
        env: Dict[str, Set[str]] = {}
        fresh_params = {a.arg for a in (self.fn.args.vararg, self.fn.args.kwarg) if a is not None}
        for p in self.params:
            if p in fresh_params:
                env[p] = {FRESH}      # the call protocol builds a new tuple / dict for *args / **kwargs
            else:
                env[p] = {"SELF"} if p == self.self_name else {f"CALLER:{p}"}
        self.env_at: Dict[int, Dict[str, Set[str]]] = {}
        self._loops: List[List[Dict[str, Set[str]]]] = []
        self.cur: Dict[str, Set[str]] = env
        out = self._flow(self.fn.body, env)
        # flow-insensitive union, used for expressions outside any recorded statement
        union: Dict[str, Set[str]] = {}
        for e in list(self.env_at.values()) + ([out] if out else []):
            for k, v in e.items():
                union.setdefault(k, set()).update(v)
        self.env = union

    @staticmethod
    def _merge(a: Optional[Dict[str, Set[str]]], b: Optional[Dict[str, Set[str]]]) -> Optional[Dict[str, Set[str]]]:
        if a is None:
            return b
        if b is None:
            return a
        out = {k: set(v) for k, v in a.items()}
        for k, v in b.items():
            out.setdefault(k, set()).update(v)
        return out

    @staticmethod
    def _copy(e: Dict[str, Set[str]]) -> Dict[str, Set[str]]:
        return {k: set(v) for k, v in e.items()}

    def _bind(self, t: ast.expr, o: Set[str], env: Dict[str, Set[str]], weak: bool = False) -> None:
        for name in self._target_names(t):
            if weak:
                env.setdefault(name, set()).update(o)
            else:
                env[name] = set(o)

    def _walrus(self, node: ast.AST, env: Dict[str, Set[str]]) -> None:
        for n in ast.walk(node):
            if isinstance(n, ast.NamedExpr):
                self._bind(n.target, self.origin(n.value, env), env)
            elif isinstance(n, ast.comprehension):
                self._bind(n.target, self.elem_origin(n.iter, env), env, weak=True)

    def _flow(self, stmts: List[ast.stmt], env: Dict[str, Set[str]]) -> Optional[Dict[str, Set[str]]]:
        for st in stmts:
            self.env_at[id(st)] = self._copy(env)
            if isinstance(st, ast.Assign):
                self._walrus(st.value, env)
                o = self.origin(st.value, env)
                for t in st.targets:
                    self._bind(t, o, env)
            elif isinstance(st, ast.AnnAssign):
                if st.value is not None:
                    self._walrus(st.value, env)
                    self._bind(st.target, self.origin(st.value, env), env)
            elif isinstance(st, ast.AugAssign):
                self._walrus(st.value, env)
                if isinstance(st.target, ast.Name):
                    env.setdefault(st.target.id, set()).update(self.origin(st.value, env))
            elif isinstance(st, ast.If):
                self._walrus(st.test, env)
                self.env_at[id(st)] = self._copy(env)
                a = self._flow(st.body, self._copy(env))
                b = self._flow(st.orelse, self._copy(env))
                m = self._merge(a, b)
                if m is None:
                    return None
                env = m
            elif isinstance(st, (ast.For, ast.While)):
                if isinstance(st, ast.For):
                    self._walrus(st.iter, env)
                else:
                    self._walrus(st.test, env)
                self._loops.append([])
                e: Dict[str, Set[str]] = self._copy(env)
                for _ in range(3):
                    if isinstance(st, ast.For):
                        self._bind(st.target, self.elem_origin(st.iter, e), e)
                    eb = self._flow(st.body, self._copy(e))
                    for ce in self._loops[-1]:
                        eb = self._merge(eb, ce)
                    e2 = self._merge(e, eb)
                    assert e2 is not None
                    if e2 == e:
                        break
                    e = e2
                self._loops.pop()
                eo = self._flow(st.orelse, self._copy(e)) if st.orelse else e
                env = self._merge(e, eo) or e
            elif isinstance(st, ast.Try):
                a = self._flow(st.body, self._copy(env))
                pre = self._merge(self._copy(env), a) or env
                outs = [self._flow(st.orelse, self._copy(a)) if (a is not None and st.orelse) else a]
                for h in st.handlers:
                    he = self._copy(pre)
                    if h.name:
                        he[h.name] = {FRESH}
                    outs.append(self._flow(h.body, he))
                m = None
                for x in outs:
                    m = self._merge(m, x)
                if st.finalbody:
                    m = self._flow(st.finalbody, m if m is not None else self._copy(pre))
                if m is None:
                    return None
                env = m
            elif isinstance(st, ast.With):
                for item in st.items:
                    self._walrus(item.context_expr, env)
                    if item.optional_vars is not None:
                        self._bind(item.optional_vars, {UNKNOWN}, env)
                r = self._flow(st.body, env)
                if r is None:
                    return None
                env = r
            elif isinstance(st, (ast.Return, ast.Raise)):
                if getattr(st, "value", None) is not None:
                    self._walrus(st.value, env)  # type: ignore
                return None
            elif isinstance(st, (ast.Break, ast.Continue)):
                if self._loops:
                    self._loops[-1].append(self._copy(env))
                return None
            elif isinstance(st, (ast.FunctionDef, ast.ClassDef, ast.AsyncFunctionDef)):
                env[st.name] = {FRESH}
            elif isinstance(st, ast.Expr):
                self._walrus(st.value, env)
            elif isinstance(st, ast.Assert):
                self._walrus(st.test, env)
        return env

    def env_for(self, node: ast.AST, par: Dict[ast.AST, ast.AST]) -> Dict[str, Set[str]]:
        n: Optional[ast.AST] = node
        while n is not None and not (isinstance(n, ast.stmt) and id(n) in self.env_at):
            n = par.get(n)
        if n is None:
            return self.env
        e = self.env_at[id(n)]
        # bindings made inside the statement itself (walrus / comprehension variables)
        e2 = self._copy(e)
        self._walrus(n if not isinstance(n, (ast.If, ast.For, ast.While, ast.Try, ast.With)) else
                     (n.test if isinstance(n, (ast.If, ast.While)) else n.iter if isinstance(n, ast.For) else ast.Pass()), e2)
        return e2

    def _target_names(self, t: ast.expr) -> List[str]:
        if isinstance(t, ast.Name):
            return [t.id]
        if isinstance(t, (ast.Tuple, ast.List)):
            out: List[str] = []
            for e in t.elts:
                out += self._target_names(e)
            return out
        if isinstance(t, ast.Starred):
            return self._target_names(t.value)
        return []

    # ---------------------------------------------------------------- origin of expressions
    def elem_origin(self, it: ast.expr, env: Optional[Dict[str, Set[str]]] = None) -> Set[str]:
        """Origin of the elements obtained by iterating `it`."""
        if isinstance(it, ast.Call) and isinstance(it.func, ast.Name) and it.func.id in ("enumerate", "zip", "reversed", "sorted", "list", "tuple", "iter") and it.args:
            out: Set[str] = set()
            for a in it.args:
                out |= self.elem_origin(a, env)
            return out | {FRESH}
        if isinstance(it, ast.Call) and isinstance(it.func, ast.Name) and it.func.id == "range":
            return {FRESH}
        if isinstance(it, ast.Call) and isinstance(it.func, ast.Attribute) and it.func.attr in ("items", "values", "keys"):
            return self.origin(it.func.value, env)
        o = self.origin(it, env)
        # elements of a FRESH container: what was put in is not tracked -> elements keep non-FRESH parts
        return o

    def origin(self, e: Optional[ast.expr], env: Optional[Dict[str, Set[str]]] = None) -> Set[str]:
        if env is None:
            env = self.env if hasattr(self, "env") else {}
        if e is None:
            return {FRESH}
        if isinstance(e, ast.Constant):
            return {FRESH}
        if isinstance(e, (ast.List, ast.Tuple, ast.Set, ast.Dict, ast.ListComp, ast.SetComp, ast.DictComp,
                          ast.GeneratorExp, ast.JoinedStr, ast.BinOp, ast.Compare, ast.BoolOp, ast.UnaryOp,
                          ast.Lambda)):
            if isinstance(e, ast.BoolOp):
                out: Set[str] = set()
                for v in e.values:
                    out |= self.origin(v, env)
                return out
            return {FRESH}
        if isinstance(e, ast.IfExp):
            return self.origin(e.body, env) | self.origin(e.orelse, env)
        if isinstance(e, ast.NamedExpr):
            return self.origin(e.value, env)
        if isinstance(e, ast.Starred):
            return self.origin(e.value, env)
        if isinstance(e, ast.Name):
            if e.id in env:
                return set(env[e.id])
            if e.id in self.fi.module.bindings:
                b = self.fi.module.bindings[e.id]
                if b.kind == "assign":
                    return {GLOBAL}
                return {FRESH}      # classes / functions / modules: not data
            return {FRESH}          # builtins
        if isinstance(e, ast.Attribute):
            base = self.origin(e.value, env)
            if e.attr in FROZEN_ATTRS:
                if "SELF" in base and self.in_props_class and e.attr == "_registry":
                    return {FROZEN}
                return {FROZEN}
            if FROZEN in base:
                return {FROZEN}
            if "SELF" in base:
                out = {f"SELF:{e.attr}"}
                return out | {x for x in base if x != "SELF"}
            if any(b.startswith("SELF:") for b in base):
                return base
            return base
        if isinstance(e, ast.Subscript):
            if isinstance(e.slice, ast.Slice):
                return {FRESH}
            return self.origin(e.value, env)
        if isinstance(e, ast.Await):
            return self.origin(e.value, env)
        if isinstance(e, ast.Call):
            return self._call_origin(e, env)
        return {UNKNOWN}

    def _call_origin(self, c: ast.Call, env: Dict[str, Set[str]]) -> Set[str]:
        f = c.func
        if isinstance(f, ast.Name):
            if f.id in COPYING_CALLS:
                return {FRESH}
            if f.id == "cast" and len(c.args) == 2:
                return self.origin(c.args[1], env)
            if f.id == "getattr" and c.args:
                return self.origin(c.args[0], env) | ({FRESH} if len(c.args) > 2 else set())
            if f.id == "vars" and c.args:
                return self.origin(c.args[0], env)          # the object's own __dict__
        d = dotted(self.prog, self.fi.module, f, self.li)
        if d in COPYING_DOTTED:
            return {FRESH}
        if d in ("typing.cast",) and len(c.args) == 2:
            return self.origin(c.args[1], env)
        if isinstance(f, ast.Attribute):
            recv = self.origin(f.value, env)
            if f.attr in ("copy",):
                return {FRESH}
            if f.attr in ALIAS_METHODS and (FROZEN in recv or any(x.startswith("CALLER") for x in recv)):
                return {x for x in recv if x != FRESH} or {FRESH}
            if f.attr in ("update", "set") and FROZEN in recv:
                return {FRESH}      # Props.update / Props.set: copy-on-write (checked by COPY-ON-WRITE)
            if f.attr in ("join", "format", "split", "encode", "strip"):
                return {FRESH}
        r = resolve_call(self.prog, self.fi, c)
        if isinstance(r, ClassInfo):
            return {FRESH}
        if isinstance(r, FuncInfo):
            summ = self.summaries.get(r.qualname)
            if summ is None:
                return {FRESH}
            out: Set[str] = set()
            for s in summ:
                if s.startswith("ARG:"):
                    idx = int(s[4:])
                    args = list(c.args)
                    if r.cls is not None and isinstance(f, ast.Attribute):
                        idx -= 1    # bound method: self is the receiver
                        if idx == -1:
                            out |= self.origin(f.value, env)
                            continue
                    if 0 <= idx < len(args):
                        out |= self.origin(args[idx], env)
                    else:
                        out.add(UNKNOWN)
                else:
                    out.add(s)
            return out or {FRESH}
        if isinstance(f, ast.Attribute) and f.attr == "__class__":
            return {FRESH}
        if isinstance(f, ast.Attribute) and isinstance(f.value, ast.Attribute) and f.value.attr == "__class__":
            return {FRESH}
        return {FRESH} if d else {UNKNOWN}

    def return_summary(self) -> FrozenSet[str]:
        out: Set[str] = set()
        for n in ast.walk(self.fn):
            if isinstance(n, ast.Return) and n.value is not None:
                for o in self.origin(n.value, self.env_at.get(id(n), self.env)):
                    if o.startswith("CALLER:"):
                        p = o.split(":", 1)[1]
                        if p in self.params:
                            out.add(f"ARG:{self.params.index(p)}")
                    elif o == "SELF":
                        out.add("ARG:0")
                    elif o in (FROZEN,):
                        out.add(FROZEN)
                    elif o.startswith("SELF:"):
                        out.add(o)
                    else:
                        out.add(o)
        return frozenset(out or {FRESH})


def compute_summaries(prog: Program, funcs: List[FuncInfo], prop_names: Set[str], props_classes: Set[str]) -> Dict[str, FrozenSet[str]]:
    summ: Dict[str, FrozenSet[str]] = {}
    for _ in range(4):
        changed = False
        for fi in funcs:
            o = Origins(prog, fi, prop_names, summ, props_classes)
            s = o.return_summary()
            if summ.get(fi.qualname) != s:
                summ[fi.qualname] = s
                changed = True
        if not changed:
            break
    return summ


class Write:
    def __init__(self, fi: FuncInfo, node: ast.AST, how: str, target: ast.expr, origin: Set[str]) -> None:
        self.fi = fi
        self.node = node
        self.how = how
        self.target = target
        self.origin = origin

    @property
    def site(self) -> str:
        return f"{self.fi.module.path}:{getattr(self.node, 'lineno', 0)}"


def writes_of(prog: Program, fi: FuncInfo, o: Origins) -> List[Write]:
    out: List[Write] = []
    par = parents(fi.node)
    for n in ast.walk(fi.node):
        env = o.env_for(n, par) if isinstance(n, (ast.Assign, ast.AugAssign, ast.AnnAssign, ast.Delete, ast.Call)) else None
        if isinstance(n, (ast.Assign, ast.AugAssign, ast.AnnAssign, ast.Delete)):
            targets = n.targets if isinstance(n, (ast.Assign, ast.Delete)) else [n.target]
            flat: List[ast.expr] = []
            for t in targets:
                flat += list(t.elts) if isinstance(t, (ast.Tuple, ast.List)) else [t]
            for t in flat:
                if isinstance(t, ast.Attribute):
                    out.append(Write(fi, n, "attr-store" if not isinstance(n, ast.Delete) else "del-attr", t, o.origin(t.value, env)))
                elif isinstance(t, ast.Subscript):
                    out.append(Write(fi, n, "item-store" if not isinstance(n, ast.Delete) else "del-item", t, o.origin(t.value, env)))
                elif isinstance(n, ast.AugAssign) and isinstance(t, ast.Name):
                    # x += [..] mutates in place when x is a list
                    org = o.origin(t, env)
                    if org - {FRESH}:
                        out.append(Write(fi, n, "aug-name", t, org))
        elif isinstance(n, ast.Call):
            f = n.func
            if isinstance(f, ast.Attribute) and f.attr in MUTATING_METHODS:
                recv_o = o.origin(f.value, env)
                # Props.update / Props.set are pure (receiver typed as Props: reached through .props or self in Props)
                if f.attr in ("update", "set") and _is_props_expr(f.value, o):
                    continue
                out.append(Write(fi, n, "method:" + f.attr, f.value, recv_o))
            elif isinstance(f, ast.Name) and f.id in ("setattr", "delattr") and n.args:
                out.append(Write(fi, n, f.id, n.args[0], o.origin(n.args[0], env)))
            else:
                d = dotted(prog, fi.module, f, o.li)
                if d in ("random.shuffle", "heapq.heappush", "heapq.heappop", "heapq.heapify") and n.args:
                    out.append(Write(fi, n, d, n.args[0], o.origin(n.args[0], env)))
    return out


def _is_props_expr(e: ast.expr, o: Origins) -> bool:
    if isinstance(e, ast.Attribute) and e.attr in ("props", "_props"):
        return True
    if isinstance(e, ast.Name):
        # local alias of a props object / parameter annotated as a Props class
        for p in list(o.fn.args.args) + list(o.fn.args.kwonlyargs):
            if p.arg == e.id and p.annotation is not None:
                t = ast.unparse(p.annotation)
                if t.endswith("Props") or t in ("PropsType",):
                    return True
        if e.id == o.self_name and o.in_props_class:
            return True
        for n in ast.walk(o.fn):
            if isinstance(n, ast.NamedExpr) and isinstance(n.target, ast.Name) and n.target.id == e.id \
                    and isinstance(n.value, ast.Attribute) and n.value.attr in ("props", "_props"):
                return True             # (props := self.props)
            if isinstance(n, ast.Assign) and any(isinstance(t, ast.Name) and t.id == e.id for t in n.targets):
                v = n.value
                if isinstance(v, ast.Attribute) and v.attr in ("props", "_props"):
                    return True
                if isinstance(v, ast.Call):
                    r = resolve_call(o.prog, o.fi, v)
                    if isinstance(r, ClassInfo) and (r.name.endswith("Props")):
                        return True
                    if isinstance(r, FuncInfo) and r.node.returns is not None and ast.unparse(r.node.returns).endswith("Props"):
                        return True
                    if isinstance(v.func, ast.Attribute) and v.func.attr in ("update", "set") and _is_props_expr(v.func.value, o):
                        return True
    return False
