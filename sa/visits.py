"""Run visitor methods / refinement methods abstractly under enumerated prop-sets and shapes."""
from __future__ import annotations

import ast

import itertools
from typing import Any, Callable, Dict, Iterable, Iterator, List, Optional, Tuple

from .engine import Interp, kwargs_spread
from .interp import Path
from .loader import ClassInfo, FuncInfo, Program
from .model import Model, SchemaType
from .values import (ELL, NIL, Const, DictV, Inst, ListV, PropsV, SchemaV, Sym, Term, TupleV, V)


def member(name: str) -> Sym:
    return Sym(name, "Schema", ("member", name))


def list_shapes(max_concrete: int = 3) -> List[Tuple[str, Callable[[], ListV]]]:
    """Token lists for every element-list form with up to `max_concrete` concrete members."""
    out: List[Tuple[str, Callable[[], ListV]]] = []

    def mk(pattern: str) -> Callable[[], ListV]:
        def f() -> ListV:
            items: List[V] = []
            i = 0
            for ch in pattern:
                if ch == ".":
                    items.append(ELL)
                else:
                    i += 1
                    items.append(member(f"S{i}"))
            return ListV(items)
        return f
    pats = ["", "."]
    for n in range(1, max_concrete + 1):
        body = "S" * n
        pats += [body, body + ".", "." + body, "." + body + "."]
    for p in pats:
        name = "[" + ", ".join("..." if c == "." else "S" for c in p) + "]"
        out.append((name, mk(p)))
    return out


def key_tables() -> List[Tuple[str, Callable[[], DictV]]]:
    def k(name: str) -> Sym:
        return Sym(name, "key", ("dictkey", name))

    def mk(req: int, opt: int, relaxed: Any) -> Callable[[], DictV]:
        def f() -> DictV:
            items: List[Tuple[V, V]] = []
            if relaxed == "first":
                items.append((ELL, TupleV([ELL, Const(False)])))
            for i in range(req):
                items.append((k(f"r{i+1}"), TupleV([member(f"R{i+1}"), Const(False)])))
            if relaxed == "middle":
                items.append((ELL, TupleV([ELL, Const(False)])))
            for i in range(opt):
                items.append((k(f"o{i+1}"), TupleV([member(f"O{i+1}"), Const(True)])))
            if relaxed is True:
                items.append((ELL, TupleV([ELL, Const(False)])))
            return DictV(items)
        return f
    out = []
    for req, opt, rel in [(0, 0, False), (0, 0, True), (1, 0, False), (0, 1, False), (1, 1, False), (1, 1, True),
                          (2, 0, False), (1, 0, True), (0, 1, True), (1, 1, "first"), (1, 1, "middle")]:
        parts = [f"r{i+1}" for i in range(req)]
        if rel == "middle":
            parts.append("...: ...")
        parts += [f"optional(o{i+1})" for i in range(opt)]
        if rel is True:
            parts.append("...: ...")
        if rel == "first":
            parts.insert(0, "...: ...")
        name = "{" + ", ".join(parts) + "}"
        out.append((name, mk(req, opt, rel)))     # d1 + d2 keeps the marker where the left operand had it
    return out


def subsets(props: List[str], max_size: Optional[int] = None) -> Iterator[Tuple[str, ...]]:
    n = len(props) if max_size is None else min(max_size, len(props))
    for r in range(n + 1):
        for c in itertools.combinations(props, r):
            yield c


class Config:
    """One abstract input configuration of a visit: which props are set and which shapes they have."""

    def __init__(self, setprops: Iterable[str], overrides: Optional[Dict[str, Callable[[], V]]] = None, label: str = "") -> None:
        self.setprops = tuple(setprops)
        self.overrides = overrides or {}
        self.label = label or ("{" + ",".join(self.setprops) + "}")

    def build(self) -> Dict[str, V]:
        return {k: f() for k, f in self.overrides.items()}


def configs_for(st: SchemaType, tier: str) -> List[Config]:
    """Enumerate prop-set x shape configurations for a schema type."""
    n = st.cls.name
    if n == "ListSchema":
        out: List[Config] = []
        lens = [(), ("len",), ("min_len",), ("max_len",), ("min_len", "max_len")]
        for ln in lens:
            out.append(Config(ln))
            out.append(Config(("type",) + ln, {"type": lambda: member("T")}, label="{type" + "".join("," + x for x in ln) + "}"))
        for name, mk in list_shapes(3 if tier == "quick" else 4):
            for ln in (lens if tier != "quick" else [(), ("len",), ("min_len", "max_len")]):
                out.append(Config(("elements",) + ln, {"elements": mk}, label=f"elements={name}" + "".join("," + x for x in ln)))
        return out
    if n == "DictSchema":
        out = [Config(())]
        for name, mk in key_tables():
            out.append(Config(("keys",), {"keys": mk}, label=f"keys={name}"))
        return out
    if n == "AnySchema":
        return [Config(()), Config(("types",), {"types": lambda: TupleV([member("A1"), member("A2")])}, label="types=(A1,A2)"),
                Config(("types",), {"types": lambda: TupleV([member("A1")])}, label="types=(A1,)")]
    if n in ("TypeAliasSchema", "GenericTypeAliasSchema"):
        return [Config(("type", "name"), {"type": lambda: member("T")}, label="{type,name}"),
                Config(("type",), {"type": lambda: member("T")}, label="{type}")]
    if tier == "quick" and len(st.props) > 4:
        cs = list(subsets(st.props, 2))
        cs.append(tuple(st.props))
        return [Config(c) for c in cs]
    return [Config(c) for c in subsets(st.props)]


def run_visit(prog: Program, model: Model, visitor: str, hook: str, cfg: Config,
              ctx: Optional[Callable[[Interp], Dict[str, V]]] = None, *, unroll: int = 2,
              max_depth: int = 6, pass_kwargs: bool = True, max_paths: int = 3000,
              schema_type: Optional[SchemaType] = None) -> List[Path]:
    st = schema_type or model.by_hook[hook]
    it = Interp(prog, model, unroll=unroll, max_depth=max_depth)
    if visitor == "Substitutor":
        # the validator run by the substitutor is summarised by its contract (total, returns a result: C08)
        vbase = model.visitors["Validator"]
        it.accept_summary = lambda recv, v: isinstance(v, Inst) and v.cls.is_subclass_of(vbase)  # type: ignore
        it.contracts["d42.utils._from_native.from_native"] = _c_from_native

    def run(i: Interp) -> V:
        v = make_visitor(i, visitor)
        s = i.make_schema(st, cfg.setprops, cfg.build())
        f = v.cls.lookup(hook)
        kw: Dict[str, V] = dict(ctx(i) if ctx else {})
        if pass_kwargs:
            kw.update(kwargs_spread())
        return i.call_function(f, [s], kw, self_val=v)
    return it.run_paths(run, max_paths=max_paths)


def _c_from_native(interp: Any, fv: Any, args: List[Any], kwargs: Dict[str, V], node: Any) -> Optional[V]:
    """from_native summarised by its contract (C14): returns a schema or raises ValueError."""
    from .interp import _Raise
    from .values import ExcV
    ev = interp.emit("call", node, callee=fv.func.qualname, args=args, kwargs=kwargs, resolved=True, inlined=False,
                     summarised=True)
    if interp.may_be_caught(ValueError):
        c = interp.ch.choose(2, f"from_native-raises:{getattr(node, 'lineno', 0)}:{args[0].key() if args else ''}")
        if c == 1:
            ev.data["raised"] = ValueError
            raise _Raise(ExcV(ValueError, [], node), node, implicit=True)
    else:
        interp.emit("partial", node, op="from_native", excs=(ValueError,), definite=False, operands=tuple(args))
    a = args[0] if args else NIL
    return Sym(f"native({a.key()})", "Schema", ("from_native", a))


_MUTABLE_FIELDS: Dict[Any, Dict[str, int]] = {}


def mutable_fields(ci: Any) -> Dict[str, int]:
    """Attributes of `self` that some method other than __init__ assigns (name -> line): their value at the start of
    a visit is whatever earlier visits - or an enclosing visit that is still running - left there."""
    ck = (id(ci), ci.qualname)
    if ck in _MUTABLE_FIELDS:
        return _MUTABLE_FIELDS[ck]
    out: Dict[str, int] = {}
    _MUTABLE_FIELDS[ck] = out
    for c in ci.mro():
        for name, m in c.methods.items():
            if name == "__init__":
                continue
            for n in ast.walk(m.node):
                tgts: List[Any] = []
                if isinstance(n, ast.Assign):
                    tgts = list(n.targets)
                elif isinstance(n, (ast.AugAssign, ast.AnnAssign)):
                    tgts = [n.target]
                for t in tgts:
                    for x in ast.walk(t):
                        if isinstance(x, ast.Attribute) and isinstance(x.ctx, ast.Store) and isinstance(x.value, ast.Name) \
                                and x.value.id == "self":
                            out.setdefault(x.attr, n.lineno)
    return out


def havoc_fields(inst: Inst) -> None:
    """Sound heap abstraction for visitor state: a field that is re-assigned outside __init__ holds an unknown value
    (of the kind its initial value had) when a visit starts."""
    if inst.cls is None:
        return
    for name in mutable_fields(inst.cls):
        cur = inst.attrs.get(name)
        if isinstance(cur, Const) and not isinstance(cur.value, str):
            kind = type(cur.value).__name__ if cur.value is not None else None
            inst.attrs[name] = Sym(f"self.{name}", kind, ("field", name))
    for v in list(inst.attrs.values()):
        if isinstance(v, Inst) and v is not inst and getattr(v, "_havoc_done", False) is False:
            v._havoc_done = True        # type: ignore[attr-defined]
            havoc_fields(v)


def make_visitor(i: Interp, visitor: str) -> Inst:
    """Instantiate a visitor the way the package does for its module-level singleton."""
    model = i.model
    if visitor == "Generator":
        v = i.module_name(i.prog.module("d42.generation"), "_generator")
        if not isinstance(v, Inst):
            raise RuntimeError("generation._generator singleton could not be evaluated")
        havoc_fields(v)
        return v
    ci = model.visitors[visitor]
    inst = i._construct(ci, [], {}, None)
    assert isinstance(inst, Inst)
    inst.origin = "visitor"
    havoc_fields(inst)
    return inst


def validator_ctx(i: Interp) -> Dict[str, V]:
    return {"value": Sym("value", None, ("param", "value")),
            "path": Sym("path", "PathHolder", ("param", "path"))}


def substitutor_ctx(i: Interp) -> Dict[str, V]:
    return {"value": Sym("value", None, ("param", "value"))}


def representor_ctx(i: Interp) -> Dict[str, V]:
    return {"indent": Sym("indent", "int", ("param", "indent"))}
