"""Calibration: each rule module lists break mutants (must be flagged) and neutral variants
(must stay silent).  They are text edits computed against the CURRENT tree, applied to a scratch copy
under a fresh mkdtemp outside /repo and /verif, analysed (never executed) and removed.
"""
from __future__ import annotations

import importlib
import multiprocessing as mp
import os
import shutil
import tempfile
from typing import Any, Dict, List, Optional, Tuple

from .loader import AnalysisError, Program
from .model import Model
from .report import VIOLATED, Run, load_known


def make_variant(repo: str, edits: List[Tuple[str, str, str]]) -> Optional[str]:
    """Copy <repo>/d42 into a temp dir and apply edits; None if an anchor is missing."""
    d = tempfile.mkdtemp(prefix="sa_mut_")
    shutil.copytree(os.path.join(repo, "d42"), os.path.join(d, "d42"),
                    ignore=shutil.ignore_patterns("__pycache__"))
    for rel, old, new in edits:
        p = os.path.join(d, rel)
        with open(p, encoding="utf-8") as f:
            s = f.read()
        if s.count(old) < 1:
            shutil.rmtree(d, ignore_errors=True)
            return None
        s = s.replace(old, new, 1)
        with open(p, "w", encoding="utf-8") as f:
            f.write(s)
    return d


def analyse_variant(modname: str, repo: str, mutant: Dict[str, Any]) -> Dict[str, Any]:
    d = make_variant(repo, mutant["edits"])
    if d is None:
        return {"name": mutant["name"], "status": "skipped", "why": "anchor text not found in current tree"}
    try:
        mod = importlib.import_module(modname)
        prog = Program(d)
        model = Model(prog)
        run = Run(mod.__name__.split(".")[-1].upper(), "calibration")
        try:
            mod.check(run, prog, model, "quick")
        except AnalysisError as e:
            return {"name": mutant["name"], "status": "analysis-error", "why": str(e)}
        known = {k["key"] for k in load_known().get("known", [])}
        viol = sorted({o.key for o in run.obs if o.status == VIOLATED and o.key not in known})
        return {"name": mutant["name"], "status": "ran", "violations": viol}
    except Exception as e:  # checker crash on a variant
        return {"name": mutant["name"], "status": "crash", "why": repr(e)}
    finally:
        shutil.rmtree(d, ignore_errors=True)


def _job(args: Tuple[str, str, Dict[str, Any]]) -> Dict[str, Any]:
    return analyse_variant(*args)


def run_corpus(modname: str, repo: str, mutants: List[Dict[str, Any]], jobs: int = 16) -> List[Dict[str, Any]]:
    if not mutants:
        return []
    with mp.get_context("fork").Pool(min(jobs, len(mutants))) as pool:
        return pool.map(_job, [(modname, repo, m) for m in mutants])


def calibrate(run: Run, mod: Any, repo: str) -> None:
    mutants = getattr(mod, "MUTANTS", None)
    if not isinstance(mutants, list):
        return
    results = run_corpus(mod.__name__, repo, mutants)
    bad: List[str] = []
    summary = {"break_flagged": 0, "neutral_silent": 0, "skipped": 0}
    for m, r in zip(mutants, results):
        expect = m.get("expect", "VIOLATED")
        if r["status"] == "skipped":
            summary["skipped"] += 1
            continue
        if r["status"] in ("crash",):
            bad.append(f"{m['name']}: checker crashed ({r.get('why')})")
            continue
        if expect == "VIOLATED":
            rule = m.get("rule")
            hits = r.get("violations", [])
            if r["status"] == "analysis-error" and m.get("analysis_error_ok"):
                summary["break_flagged"] += 1
            elif not hits or (rule and not any(rule in h for h in hits)):
                bad.append(f"break mutant not flagged: {m['name']} (got {hits or r})")
            else:
                summary["break_flagged"] += 1
        else:
            if r["status"] != "ran" or r.get("violations"):
                bad.append(f"neutral variant flagged: {m['name']} ({r})")
            else:
                summary["neutral_silent"] += 1
    run.extra["calibration"] = {**summary, "corpus": len(mutants),
                                "results": [{"name": r["name"], "status": r["status"],
                                             "violations": r.get("violations", [])[:3]} for r in results]}
    if bad:
        raise AnalysisError("calibration failed: " + "; ".join(bad))
