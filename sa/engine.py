"""Assembled interpreter + helpers to build standard abstract inputs."""
from __future__ import annotations

import ast
from typing import Any, Dict, Iterable, List, Optional

from .interp import Event, Frame, InterpCore, Path
from .interp_call import CallMixin
from .interp_expr import ExprMixin, annotation_kind
from .loader import ClassInfo, FuncInfo, Program
from .model import Model, SchemaType
from .values import (ELL, NIL, ClassV, Const, DictV, ExcV, Ext, FuncV, Inst, ListV, PropsV, SchemaV,
                     Spread, Sym, Term, TupleV, V)


class Interp(InterpCore, ExprMixin, CallMixin):
    def __init__(self, prog: Program, model: Model, **kw: Any) -> None:
        super().__init__(prog, **kw)
        self.model = model
        # accumulator methods of ValidationResult are summarised (their source shape is checked by C02.RESULT-ACC)
        self.contracts.setdefault("d42.validation._validation_result.ValidationResult.add_errors", _c_add_errors)

    # ---- builders (must be called inside a path run: objects are per-path) ----
    def make_instance(self, cls_name: str, **attrs: V) -> Inst:
        ci = self.model.visitors.get(cls_name) or self.prog.cls(cls_name)
        inst = self._construct(ci, [], {}, None)
        assert isinstance(inst, Inst)
        inst.origin = "visitor"
        for k, v in attrs.items():
            inst.attrs[k] = v
        return inst

    def prop_symbol(self, st: SchemaType, prop: str) -> V:
        kind = annotation_kind(st.prop_annot.get(prop, ""))
        return Sym(f"props.{prop}", kind, ("prop", prop))

    def make_props(self, st: SchemaType, setprops: Iterable[str], overrides: Optional[Dict[str, V]] = None,
                   base: str = "schema") -> PropsV:
        vals: Dict[str, V] = {}
        for p in setprops:
            vals[p] = (overrides or {}).get(p) or self.prop_symbol(st, p)
        return PropsV(st.props_cls, vals, base)

    def make_schema(self, st: SchemaType, setprops: Iterable[str], overrides: Optional[Dict[str, V]] = None,
                    origin: str = "param") -> SchemaV:
        return SchemaV(st.cls, self.make_props(st, setprops, overrides), origin)


def _c_add_errors(interp: Any, fv: FuncV, args: List[Any], kwargs: Dict[str, V], node: Any) -> Optional[V]:
    recv = fv.self_val
    if isinstance(recv, Inst) and isinstance(recv.attrs.get("_errors"), ListV) and args:
        interp.emit("call", node, callee=fv.func.qualname, args=args, kwargs=kwargs, resolved=True, inlined=False,
                    self_val=recv, summarised=True)
        interp._list_extend(recv.attrs["_errors"], args[0], node)
        return recv
    return None


def kwargs_spread(name: str = "kwargs") -> Dict[str, V]:
    return {"**" + name: Sym(name, "dict", ("param", name))}
