"""C07 - schemas are immutable values and operations are pure.

Effect + escape (ownership) analysis over the call-graph closure of the public operations.
"""
from __future__ import annotations

import ast
import os
import shutil
import tempfile
from typing import Any, Dict, List, Optional, Set, Tuple

from ..effects import FRESH, FROZEN, GLOBAL, UNKNOWN, Origins, Write, compute_summaries, writes_of, _is_props_expr
from ..flow import call_closure, parents, resolve_call
from ..loader import AnalysisError, ClassInfo, FuncInfo, Program
from ..model import Model
from ..report import Run
from .c17 import hidden_state

# import-time wiring / documented extension API: not in the property's operation list
EXEMPT_WRITERS = {
    "d42.declaration.types._schema.Schema.__override__": "import-time rebinding of operator dunders (extension API)",
    "d42.declaration._schema_visitor.SchemaVisitor.__init_subclass__": "class-creation hook for extend=True visitors",
    "d42.validation._abstract_formatter.AbstractFormatter.__init_subclass__": "class-creation hook for extend=True formatters",
    "d42.declaration.register_type": "documented extension API adding a facade property",
}


def public_scope(prog: Program, model: Model) -> List[FuncInfo]:
    roots: List[FuncInfo] = []
    for name in ("d42.validation.validate", "d42.validation.validate_or_fail", "d42.validation.eq",
                 "d42.validation.format_result", "d42.representation.represent",
                 "d42.substitution.substitute", "d42.generation.generate", "d42.declaration.union",
                 "d42.utils._make_required.make_required", "d42.utils._from_native.from_native",
                 "d42.substitution.errors.make_substitution_error"):
        roots.append(prog.func(name))
    classes: List[ClassInfo] = [model.props_base, model.schema_base]
    classes += [s.cls for s in model.schemas.values()]
    classes += [s.props_cls for s in model.schemas.values() if s.props_cls is not None]
    classes += list(model.visitors.values())
    # helper classes (Random, RegexGenerator, Formatter, ValidationResult...) enter by reachability only:
    # e.g. Random.shuffle_list is a caller-facing in-place utility no public operation calls.
    for q in ("validation._formatter.Formatter", "declaration._schema_facade.SchemaFacade",
              "declaration.types._optional.optional"):
        classes.append(prog.cls(q))
    return call_closure(prog, roots, classes)


def analyse(prog: Program, model: Model, funcs: List[FuncInfo]) -> Tuple[Dict[str, Origins], Dict[str, Any]]:
    prop_names: Set[str] = set()
    for s in model.schemas.values():
        prop_names |= set(s.props)
    props_classes = {s.props_cls.name for s in model.schemas.values() if s.props_cls is not None}
    summ = compute_summaries(prog, funcs, prop_names, props_classes)
    origins = {fi.qualname: Origins(prog, fi, prop_names, summ, props_classes) for fi in funcs}
    return origins, summ


def mutable_evidence(fi: FuncInfo, param: str) -> Optional[str]:
    """Does the function itself treat `param` as a mutable container?"""
    for n in ast.walk(fi.node):
        if isinstance(n, ast.Call) and isinstance(n.func, ast.Name) and n.func.id == "isinstance" and len(n.args) == 2:
            if isinstance(n.args[0], ast.Name) and n.args[0].id == param:
                names = {x.id for x in ast.walk(n.args[1]) if isinstance(x, ast.Name)}
                hit = names & {"list", "dict", "set", "bytearray", "List", "Dict"}
                if hit:
                    return f"isinstance({param}, {sorted(hit)[0]})"
    if param == "value" and fi.cls is not None and fi.name in ("visit_list", "visit_dict") and any(
            isinstance(n, ast.Attribute) and n.attr == "__accept__" for n in ast.walk(fi.node)):
        # a visitor method for a container type: once the validator it runs first has passed, `value` is a list / dict
        return "validated as a " + fi.name[6:]
    for p in list(fi.node.args.posonlyargs) + list(fi.node.args.args) + list(fi.node.args.kwonlyargs):
        if p.arg == param and p.annotation is not None:
            t = ast.unparse(p.annotation)
            for k in ("List[", "Dict[", "Set[", "list[", "dict[", "MutableMapping", "MutableSequence"):
                if k in t and not t.startswith(("Tuple", "Optional[Tuple")):
                    return f"annotation {t}"
    return None


def is_internal(fi: FuncInfo) -> bool:
    n = fi.name
    return n.startswith("_") and not (n.startswith("__") and n.endswith("__"))


def actual_origin(prog: Program, funcs: List[FuncInfo], origins: Dict[str, Origins], fi: FuncInfo, param: str,
                  depth: int, seen: Set[Tuple[str, str]]) -> Tuple[str, str]:
    """Who owns the object bound to `param` of `fi`?  Public entry points receive the user's object; an internal
    helper (leading underscore) receives whatever its call sites pass."""
    if not is_internal(fi):
        return "VIOLATED", f"`{param}` of the public {fi.name} is the caller's object"
    if (fi.qualname, param) in seen or depth > 3:
        return "HOLDS", "recursive pass-through"
    seen = seen | {(fi.qualname, param)}
    a = fi.node.args
    pos = [p.arg for p in list(a.posonlyargs) + list(a.args)]
    is_method = fi.cls is not None
    sites = 0
    worst = ("HOLDS", f"every call site of {fi.name} passes a fresh object for `{param}`")
    for g in funcs:
        og = origins.get(g.qualname)
        if og is None:
            continue
        par = None
        for n in ast.walk(g.node):
            if not isinstance(n, ast.Call):
                continue
            r = resolve_call(prog, g, n)
            if not (isinstance(r, FuncInfo) and r.qualname == fi.qualname):
                continue
            sites += 1
            if par is None:
                par = parents(g.node)
            actual = None
            for k in n.keywords:
                if k.arg == param:
                    actual = k.value
            if actual is None and param in pos:
                idx = pos.index(param) - (1 if is_method and isinstance(n.func, ast.Attribute) else 0)
                if 0 <= idx < len(n.args):
                    actual = n.args[idx]
            if actual is None:
                continue            # default value: fresh per definition site / constant
            org = og.origin(actual, og.env_for(n, par))
            if FROZEN in org or GLOBAL in org:
                return "VIOLATED", f"{g.name} passes schema state / a module object as `{param}` of {fi.name}"
            for c in (x for x in org if x.startswith("CALLER:")):
                v, why = actual_origin(prog, funcs, origins, g, c.split(":", 1)[1], depth + 1, seen)
                if v != "HOLDS":
                    worst = (v, why)
            if UNKNOWN in org and not (org - {UNKNOWN}):
                worst = ("UNDECIDED", f"origin of the object {g.name} passes as `{param}` is unknown") if worst[0] == "HOLDS" else worst
    if sites == 0:
        return "VIOLATED", f"no internal call site of {fi.name} found: `{param}` is the caller's object"
    return worst


def narrowed_immutable(node: ast.AST, param: str, par: Dict[ast.AST, ast.AST]) -> bool:
    """Is `node` inside the true-branch of `if isinstance(param, K)` with K free of mutable containers?"""
    child: ast.AST = node
    n = par.get(node)
    while n is not None:
        if isinstance(n, ast.If) and any(child is b for b in n.body):
            t = n.test
            if isinstance(t, ast.Call) and isinstance(t.func, ast.Name) and t.func.id == "isinstance" and len(t.args) == 2 \
                    and isinstance(t.args[0], ast.Name) and t.args[0].id == param:
                names = {x.id for x in ast.walk(t.args[1]) if isinstance(x, ast.Name)}
                if not (names & {"list", "dict", "set", "bytearray", "List", "Dict", "object"}):
                    return True
        child = n
        n = par.get(n)
    return False


def check(run: Run, prog: Program, model: Model, tier: str) -> None:
    run.explanation = (
        "Effect and escape analysis over the call-graph closure of the public operations (refinements, + | % ~, "
        "validate, represent, make_required, indexing, iteration, from_native, substitute, fake): every write "
        "site (attribute/subscript store, del, augmented assignment, mutating method, setattr) is classified by "
        "the abstract location of its target (FRESH / FROZEN props state / CALLER parameter / SELF attribute); "
        "every value stored into Props is checked for un-copied caller-owned mutable containers; Props is "
        "checked to be copy-on-write and the module-level visitor singletons to be stateless. Under the stated "
        "heap model this decides the property for every history of operations."
        " Also: member reads on the validated mapping are dominated by a membership test (no __missing__), and no equality-keyed memoisation sits on the conversion path.")
    run.explanation += ' MEMO-PURE refuses any equality-keyed memo on the conversion path, typed=True included (0.0 / -0.0 and one instant in two time zones are equal, hash alike and are distinguishable in the result).'
    run.rule_text = ("one obligation per write site, per Props-construction argument, per Props method, per singleton class; "
                     "non-trivial = the target's origin needed alias tracking through locals, loop variables or callee summaries")
    run.trusted += ["writes happen only through: attribute/subscript store, del, augmented assignment, the listed mutating "
                    "methods, setattr/delattr, random.shuffle/heapq", "copying constructs of DESIGN appendix A yield fresh objects"]
    funcs = public_scope(prog, model)
    run.analysed["scope_functions"] = len(funcs)
    if len(funcs) < 150:
        raise AnalysisError(f"public-operation closure has only {len(funcs)} functions")
    origins, summ = analyse(prog, model, funcs)

    singleton_classes: Set[str] = set()
    for key, (mod, ci, expr) in model.singletons.items():
        for c in ci.mro():
            singleton_classes.add(c.qualname)
    # Substitutor holds a SubstitutorValidator and a Formatter; Generator a Random and a RegexGenerator
    for extra in ("SubstitutorValidator",):
        for c in model.visitors[extra].mro():
            singleton_classes.add(c.qualname)
    singleton_classes.add(prog.cls("generation._regex_generator.RegexGenerator").qualname)

    # ---------------------------------------------------------------- NO-WRITE
    n_sites = 0
    for fi in funcs:
        o = origins[fi.qualname]
        for w in writes_of(prog, fi, o):
            n_sites += 1
            tgt = ast.unparse(w.target)[:70]
            construct = f"{fi.qualname}: {w.how} {tgt}"
            org = w.origin
            if fi.qualname in EXEMPT_WRITERS:
                run.note("NO-WRITE", construct, w.site, "exempt: " + EXEMPT_WRITERS[fi.qualname])
                continue
            if FROZEN in org:
                run.violated("NO-WRITE", construct, w.site,
                             f"in-place write to schema state (target reached through props/_registry; origins {sorted(org)})",
                             witness="an existing schema changes behaviour after this operation runs")
                continue
            callers = sorted(x for x in org if x.startswith("CALLER:"))
            if callers:
                verdicts = [actual_origin(prog, funcs, origins, fi, c.split(":", 1)[1], 0, set()) for c in callers]
                worst = "VIOLATED" if "VIOLATED" in [v for v, _ in verdicts] else ("UNDECIDED" if "UNDECIDED" in [v for v, _ in verdicts] else "HOLDS")
                why = "; ".join(w_ for _, w_ in verdicts)
                if worst == "VIOLATED":
                    run.violated("NO-WRITE", construct, w.site,
                                 f"in-place write to a value passed in by the caller ({', '.join(callers)}): {why}",
                                 witness="the argument object is mutated by a public operation")
                elif worst == "UNDECIDED":
                    run.undecided("NO-WRITE", construct, w.site, why)
                else:
                    run.holds("NO-WRITE", construct, w.site, f"parameter of an internal helper: {why}", nontrivial=True)
                continue
            selfs = sorted(x for x in org if x.startswith("SELF"))
            if selfs:
                if fi.name == "__init__":
                    run.holds("NO-WRITE", construct, w.site, "attribute initialisation in __init__", nontrivial=False)
                elif fi.cls is not None and fi.cls.qualname in singleton_classes:
                    # judged by STATELESS below
                    run.holds("NO-WRITE", construct, w.site, "write to visitor state: judged by STATELESS", nontrivial=True)
                else:
                    run.holds("NO-WRITE", construct, w.site,
                              f"write to the object's own state ({fi.cls.name if fi.cls else '?'} is created fresh per operation)",
                              nontrivial=True)
                continue
            if GLOBAL in org:
                run.violated("NO-WRITE", construct, w.site, "in-place write to a module-level object",
                             witness="state shared by every later call")
                continue
            if UNKNOWN in org and not (org & {FRESH}):
                run.undecided("NO-WRITE", construct, w.site, f"origin of the written object unknown ({sorted(org)})")
                continue
            run.holds("NO-WRITE", construct, w.site, f"target is a local created in this function ({sorted(org)})",
                      nontrivial=len(org) > 1 or not isinstance(w.target, ast.Name))
    run.floor("NO-WRITE", 30)
    run.analysed["write_sites"] = n_sites

    # ---------------------------------------------------------------- NO-ALIAS-IN
    n_store = 0
    for fi in funcs:
        o = origins[fi.qualname]
        par = parents(fi.node)
        for n in ast.walk(fi.node):
            if not isinstance(n, ast.Call):
                continue
            f = n.func
            env = o.env_for(n, par)
            stored: List[Tuple[str, ast.expr]] = []
            if isinstance(f, ast.Attribute) and f.attr == "update" and n.keywords and _is_props_expr(f.value, o):
                stored = [(k.arg or "**", k.value) for k in n.keywords]
            elif isinstance(f, ast.Attribute) and f.attr == "set" and len(n.args) == 2 and _is_props_expr(f.value, o):
                stored = [("set", n.args[1])]
            else:
                r = resolve_call(prog, fi, n)
                if isinstance(r, ClassInfo) and r.is_subclass_of(model.props_base) and n.args:
                    stored = [("registry", n.args[0])]
            for kw, val in stored:
                n_store += 1
                org = o.origin(val, env)
                construct = f"{fi.qualname}: props[{kw}] = {ast.unparse(val)[:50]}"
                site = f"{fi.module.path}:{n.lineno}"
                callers = sorted(x.split(":", 1)[1] for x in org if x.startswith("CALLER:"))
                bad = None
                for p in callers:
                    ev = mutable_evidence(fi, p)
                    if ev and not narrowed_immutable(n, p, par):
                        bad = (p, ev)
                if bad:
                    run.violated("NO-ALIAS-IN", construct, site,
                                 f"caller-owned mutable container `{bad[0]}` ({bad[1]}) is stored in the schema without a copy",
                                 witness=f"mutate `{bad[0]}` after the call: the schema built from it changes")
                elif callers:
                    run.holds("NO-ALIAS-IN", construct, site,
                              f"stores parameter(s) {callers}: no mutable-container evidence (immutable kind or a schema)",
                              nontrivial=True)
                else:
                    run.holds("NO-ALIAS-IN", construct, site, f"stored value origin {sorted(org)}", nontrivial=False)
    run.floor("NO-ALIAS-IN", 25)

    # ---------------------------------------------------------------- COPY-ON-WRITE
    pb = model.props_base
    for mname in ("set", "update"):
        m = pb.methods.get(mname)
        if m is None:
            raise AnalysisError(f"Props.{mname} not found")
        o = Origins(prog, m, set(), summ, set())
        rets = [n for n in ast.walk(m.node) if isinstance(n, ast.Return) and n.value is not None]
        ok = bool(rets)
        why = ""
        for r in rets:
            v = r.value
            if not (isinstance(v, ast.Call) and (
                    (isinstance(v.func, ast.Attribute) and v.func.attr == "__class__") or
                    (isinstance(v.func, ast.Call) and isinstance(v.func.func, ast.Name) and v.func.func.id == "type"))):
                ok = False
                why = f"returns {ast.unparse(v)[:40]} instead of a new Props"
                continue
            arg = v.args[0] if v.args else None
            ao = o.origin(arg) if arg is not None else {UNKNOWN}
            if ao != {FRESH}:
                ok = False
                why = f"new Props shares its registry with the receiver (origin {sorted(ao)})"
        if ok:
            run.holds("COPY-ON-WRITE", f"Props.{mname}", m.loc, "returns self.__class__(<fresh dict>)", nontrivial=True)
        else:
            run.violated("COPY-ON-WRITE", f"Props.{mname}", m.loc, why or "no return of a new Props",
                         witness="s2 = s.min(1) also changes s")
    reg_writes = []
    for ci in [pb] + prog.subclasses(pb):
        for m in ci.methods.values():
            for n in ast.walk(m.node):
                if isinstance(n, ast.Attribute) and n.attr == "_registry" and isinstance(n.ctx, (ast.Store, ast.Del)) \
                        and m.name != "__init__":
                    reg_writes.append((m, n))
    for fi in funcs:
        for n in ast.walk(fi.node):
            if isinstance(n, ast.Attribute) and n.attr in ("_registry", "_props") and isinstance(n.ctx, (ast.Store, ast.Del)):
                if fi.name != "__init__" and (fi, n) not in reg_writes:
                    reg_writes.append((fi, n))
    if reg_writes:
        for m, n in reg_writes:
            run.violated("COPY-ON-WRITE", f"{m.qualname}: rebinding {n.attr}", f"{m.module.path}:{n.lineno}",
                         f"{n.attr} is re-assigned outside __init__", witness="an existing schema/props object changes state")
    else:
        run.holds("COPY-ON-WRITE", "_registry/_props assigned only in __init__", pb.loc, "", nontrivial=False)
    run.floor("COPY-ON-WRITE", 3)

    # ---------------------------------------------------------------- STATELESS SINGLETONS
    seen: Set[str] = set()
    for q in sorted(singleton_classes):
        ci = prog.classes.get(q)
        if ci is None or q in seen or not q.startswith("d42.") or ci.qualname == model.visitor_base.qualname:
            continue
        seen.add(q)
        hidden_state(run, prog, ci, "STATELESS")
    run.floor("STATELESS", 6)
    # reading `value[key]` of the caller's mapping without a dominating `key in value` runs `__missing__` of dict
    # subclasses (collections.defaultdict INSERTS the key): validating a value would then change it
    from ..partial import _guarded_key
    from ..visits import Config, configs_for, run_visit, validator_ctx
    for vis in ("Validator", "SubstitutorValidator"):
        fvd = model.visitors[vis].lookup("visit_dict")
        bad_sites: Set[str] = set()
        n_reads = 0
        for cfg in configs_for(model.by_hook["visit_dict"], "quick"):
            for p in run_visit(prog, model, vis, "visit_dict", cfg, validator_ctx, unroll=1):
                for e in p.events:
                    if e.kind == "partial" and e.data.get("op") == "getitem" and e.data.get("operands") \
                            and e.data["operands"][0].key() == "value":
                        n_reads += 1
                        if not _guarded_key(e.data["operands"][0], e.data["operands"][1], p, e):
                            bad_sites.add(e.loc(prog))
        c_ = f"{vis}.visit_dict: member lookup on the validated mapping"
        if bad_sites:
            run.violated("NO-WRITE", c_, sorted(bad_sites)[0],
                         "`value[key]` is evaluated without a dominating `key in value`: for a dict subclass with __missing__ "
                         "(defaultdict, Counter) the lookup fabricates - and defaultdict stores - the missing key",
                         witness="validate(schema.dict({'tags': schema.list}), defaultdict(list)) leaves {'tags': []} in the caller's value")
        elif n_reads:
            run.holds("NO-WRITE", c_, fvd.loc, f"{n_reads} member reads, each under a membership test", nontrivial=True)
    # a memoising decorator is hidden state too: on the kind-sensitive conversion path an equality-keyed cache makes the
    # result of an operation depend on which EQUAL value of another kind was converted earlier in the process
    from .c14 import _memo
    conv = model.visitors["Substitutor"].lookup("_from_native")
    _memo(run, prog, model, prog.func("d42.utils._from_native.from_native"), rule="MEMO-PURE",
          roots=[conv] if conv is not None else None, prefixes=("d42.utils", "d42.substitution"), typed_ok=False)
    run.analysed["singletons"] = sorted(model.singletons)

    fixture_selftest(run)


FIXTURE = '''
from typing import Any, List
class Props:
    def __init__(self, registry=None): self._registry = registry or {}
    def update(self, **keys: Any) -> "Props":
        self._registry.update(keys)
        return self
class S:
    def __init__(self, props=None): self._props = props or Props()
    @property
    def props(self): return self._props
    def __call__(self, elements: List[Any]) -> "S":
        if not isinstance(elements, list): raise TypeError()
        return self.__class__(self.props.update(elements=elements))
    def tweak(self, value):
        self.props._registry["x"] = value
        value.append(1)
        return self
'''


def fixture_selftest(run: Run) -> None:
    d = tempfile.mkdtemp(prefix="sa_fixture_")
    try:
        os.makedirs(os.path.join(d, "d42"))
        with open(os.path.join(d, "d42", "__init__.py"), "w") as f:
            f.write(FIXTURE)
        p = Program(d)
        funcs = [p.func("d42.S.tweak"), p.func("d42.S.__call__"), p.func("d42.Props.update")]
        summ = compute_summaries(p, funcs, set(), {"Props"})
        hits = 0
        for fi in funcs:
            o = Origins(p, fi, set(), summ, {"Props"})
            for w in writes_of(p, fi, o):
                if FROZEN in w.origin or any(x.startswith("CALLER:") for x in w.origin):
                    hits += 1
        alias = mutable_evidence(funcs[1], "elements")
        if hits < 3 or not alias:
            raise AnalysisError(f"positive fixture not flagged: writes={hits} alias={alias}")
        run.analysed["positive_fixture"] = {"frozen_or_caller_writes": hits, "alias_evidence": alias}
    finally:
        shutil.rmtree(d, ignore_errors=True)


V = "d42/validation/_validator.py"
MUTANTS = [
    {"name": "empty list substituted into an undeclared list is stored as is (seeded C07-L)", "rule": "NO-ALIAS-IN",
     "edits": [("d42/substitution/_substitutor.py", "        if len(value) > 0 and all(is_ellipsis(x) for x in value):\n            raise SubstitutionError(\"Can't substitute all ...\")\n",
                "        if len(value) > 0 and all(is_ellipsis(x) for x in value):\n            raise SubstitutionError(\"Can't substitute all ...\")\n\n        if len(value) == 0 and (schema.props.elements is Nil) and (schema.props.type is Nil):\n            return schema.__class__(schema.props.update(elements=value))\n")]},
    {"name": "validator looks dict members up by exception instead of a membership test", "rule": "NO-WRITE",
     "edits": [("d42/validation/_validator.py", "            if key in value:\n                nested_path = deepcopy(path)[key]\n                res = val.__accept__(self, value=value[key], path=nested_path, **kwargs)\n                result.add_errors(res.get_errors())\n            else:\n                if not is_optional:\n                    result.add_error(MissingKeyValidationError(path, value, key))",
                "            try:\n                member = value[key]\n            except KeyError:\n                if not is_optional:\n                    result.add_error(MissingKeyValidationError(path, value, key))\n            else:\n                nested_path = deepcopy(path)[key]\n                res = val.__accept__(self, value=member, path=nested_path, **kwargs)\n                result.add_errors(res.get_errors())")]},
    {"name": "list copy removed (F2 reverted)", "rule": "NO-ALIAS-IN",
     "edits": [("d42/declaration/types/_list_schema.py", "elements=list(elements_or_type)", "elements=elements_or_type")]},
    {"name": "Props.update in place", "rule": "COPY-ON-WRITE",
     "edits": [("d42/declaration/_props.py", "        registry = {**self._registry, **keys}\n        return self.__class__(registry)",
                "        self._registry.update(keys)\n        return self")]},
    {"name": "Props.set shares registry", "rule": "COPY-ON-WRITE",
     "edits": [("d42/declaration/_props.py", "        registry = {**self._registry, name: value}\n",
                "        registry = self._registry\n        registry[name] = value\n")]},
    {"name": "__add__ updates self's key table", "rule": "NO-WRITE",
     "edits": [("d42/declaration/types/_dict_schema.py", "        merged_keys = {**self_keys, **other_keys}\n",
                "        merged_keys = self_keys\n        merged_keys.update(other_keys)\n")]},
    {"name": "value.pop() in Substitutor.visit_dict", "rule": "NO-WRITE",
     "edits": [("d42/substitution/_substitutor.py", "                    if is_ellipsis(value[key]):\n                        keys[key] = (val, False)",
                "                    if is_ellipsis(value[key]):\n                        value.pop(key)\n                        keys[key] = (val, False)")]},
    {"name": "Validator keeps the current path on self across member visits", "rule": "STATELESS",
     "edits": [(V, "        for key, (val, is_optional) in schema.props.keys.items():\n            if is_ellipsis(key):\n                continue\n            if key in value:\n                nested_path = deepcopy(path)[key]",
                "        self._cur = path\n        for key, (val, is_optional) in schema.props.keys.items():\n            if is_ellipsis(key):\n                continue\n            if key in value:\n                nested_path = deepcopy(self._cur)[key]"),
               (V, "                    result.add_error(MissingKeyValidationError(path, value, key))",
                "                    result.add_error(MissingKeyValidationError(self._cur, value, key))")]},
    {"name": "neutral: path parked on self, always rewritten first, no re-entrancy", "expect": "SILENT",
     "edits": [(V, "        if error := self._validate_type(path, value, int):", "        self._last_path = path\n        if error := self._validate_type(self._last_path, value, int):")]},
    {"name": "make_required flips flags in the original table", "rule": "NO-WRITE",
     "edits": [("d42/utils/_make_required.py", "        updated_keys = {}\n", "        updated_keys = props_keys\n")]},
    {"name": "from_native keeps the caller's list (elements appended in place)", "rule": "NO-WRITE",
     "edits": [("d42/utils/_from_native.py", "        return ListSchema()([from_native(x) for x in value])",
                "        for i, x in enumerate(value):\n            value[i] = from_native(x)\n        return ListSchema()(value)")]},
    {"name": "Representor caches per-schema text on self", "rule": "STATELESS",
     "edits": [("d42/representation/_representor.py", "    def visit_none(self, schema: NoneSchema, *, indent: int = 0, **kwargs: Any) -> str:\n        return f\"{self._name}.none\"",
                "    def visit_none(self, schema: NoneSchema, *, indent: int = 0, **kwargs: Any) -> str:\n        self._name = self._name.strip()\n        return f\"{self._name}.none\"")]},
    # neutral variants
    {"name": "neutral: list(x) -> x[:]", "expect": "SILENT",
     "edits": [("d42/declaration/types/_list_schema.py", "elements=list(elements_or_type)", "elements=elements_or_type[:]")]},
    {"name": "neutral: list(x) -> [*x]", "expect": "SILENT",
     "edits": [("d42/declaration/types/_list_schema.py", "elements=list(elements_or_type)", "elements=[*elements_or_type]")]},
    {"name": "neutral: copy bound to a local first", "expect": "SILENT",
     "edits": [("d42/declaration/types/_list_schema.py", "        return self.__class__(self.props.update(elements=list(elements_or_type)))",
                "        copied = list(elements_or_type)\n        return self.__class__(self.props.update(elements=copied))")]},
    {"name": "neutral: write-only counter on Validator", "expect": "SILENT",
     "edits": [(V, "    def make_path(self) -> PathHolder:\n", "    def make_path(self) -> PathHolder:\n        self._made = True\n")]},
    {"name": "neutral: merged dict built with dict()/update on a fresh local", "expect": "SILENT",
     "edits": [("d42/declaration/types/_dict_schema.py", "        merged_keys = {**self_keys, **other_keys}\n",
                "        merged_keys = dict(self_keys)\n        merged_keys.update(other_keys)\n")]},
]

# round 8: the seeded changes that were missed on first contact, replayed against the current tree
MUTANTS += [
    {"name": 'seeded C07-P', "rule": 'MEMO-PURE',
     "edits": [('d42/utils/_from_native.py', 'from datetime import date, datetime\nfrom typing import Any\nfrom uuid import UUID\n\nfrom d42.declaration.types import (\n', 'from datetime import date, datetime\nfrom functools import lru_cache\nfrom typing import Any, Hashable\nfrom uuid import UUID\n\nfrom d42.declaration.types import (\n'),
               ('d42/utils/_from_native.py', '__all__ = ("from_native",)\n\n\ndef from_native(value: Any) -> GenericSchema:\n    if value is None:\n        return NoneSchema()\n    elif isinstance(value, bool):\n', '__all__ = ("from_native",)\n\n\n@lru_cache(maxsize=1024, typed=True)\ndef _from_scalar(value: Hashable) -> GenericSchema:\n    # schemas are immutable values, so the conversion of a scalar can be shared between callers;\n    # typed=True keeps 1, True and 1.0 (equal, same hash) in separate cache slots\n    if value is None:\n        return NoneSchema()\n    elif isinstance(value, bool):\n'),
               ('d42/utils/_from_native.py', '        return FloatSchema()(value)\n    elif isinstance(value, str):\n        return StrSchema()(value)\n    elif isinstance(value, list):\n        return ListSchema()([from_native(x) for x in value])\n    elif isinstance(value, dict):\n        if any(isinstance(key, (optional, type(...))) for key in value):\n            raise ValueError(value)\n        return DictSchema()({key: from_native(val) for key, val in value.items()})\n    elif isinstance(value, bytes):\n        return BytesSchema()(value)\n    elif isinstance(value, UUID) and (value.version == 4):\n', '        return FloatSchema()(value)\n    elif isinstance(value, str):\n        return StrSchema()(value)\n    elif isinstance(value, bytes):\n        return BytesSchema()(value)\n    elif isinstance(value, UUID) and (value.version == 4):\n'),
               ('d42/utils/_from_native.py', '        return DateSchema()(value)\n    else:\n        raise ValueError(value)\n', '        return DateSchema()(value)\n    else:\n        raise ValueError(value)\n\n\ndef from_native(value: Any) -> GenericSchema:\n    if isinstance(value, list):\n        return ListSchema()([from_native(x) for x in value])\n    elif isinstance(value, dict):\n        if any(isinstance(key, (optional, type(...))) for key in value):\n            raise ValueError(value)\n        return DictSchema()({key: from_native(val) for key, val in value.items()})\n    try:\n        return _from_scalar(value)\n    except TypeError:  # unhashable, hence not one of the supported scalars\n        raise ValueError(value) from None\n')]},
]
