"""C01 - generated data validates against its own schema (necessary conditions; all-RNG-outcomes behaviour
on concrete values is not decided).

MIRROR (every constraint the validator checks is consulted by the generator or provably exempt), DRAW-ORDER
(lo <= hi for every bounded draw, by structural entailment), ROUND-DIR (grid bounds round inwards),
KIND-AGREE, REQUIRED-KEYS.
"""
from __future__ import annotations

from typing import Any, Dict, FrozenSet, List, Optional, Set, Tuple

from ..automaton import admitted_kinds, build
from ..interp import Event, Path
from ..loader import AnalysisError, Program
from ..partial import draw_nonempty
from ..model import Model
from ..report import Run
from ..values import (ELL, Const, DictV, ExcV, ListV, PropsV, SchemaV, Spread, StrV, Sym, Term, TupleV, V, is_ell, kind_is)
from ..visits import Config, configs_for, run_visit
from ..vtable import extract
from .c02 import REL, TYPE
from ..vtable import relation

# satisfiable-schema axioms (ax1): declared lower bounds do not exceed declared upper bounds
AX1 = {("props.min", "props.max"), ("props.min_len", "props.max_len"), ("len(props.substr)", "props.max_len"),
       ("len(props.substr)", "props.len"), ("0", "props.max_len"), ("0", "props.len"), ("0", "props.min_len")}
ROUND = {"math.ceil": "up", "math.floor": "down", "builtins.int": "toward-zero", "math.trunc": "toward-zero",
         "builtins.round": "nearest"}


def le(a: V, b: V, facts: List[Tuple[str, V, bool]], depth: int = 0) -> Optional[bool]:
    """Structural entailment of a <= b.  True / False (definitely not entailed by structure: None = unknown)."""
    if depth > 8:
        return None
    ak, bk = a.key(), b.key()
    if ak == bk:
        return True
    if isinstance(a, Const) and isinstance(b, Const):
        try:
            return bool(a.value <= b.value)
        except Exception:
            return None
    if (ak, bk) in AX1:
        return True
    # path facts: lt(b, a) is False  <=>  a <= b ;  lt(a, b) True
    for k, t, v in facts:
        if isinstance(t, Term) and t.op == "lt":
            x, y = t.args[0].key(), t.args[1].key()
            if (x, y) == (bk, ak) and v is False:
                return True
            if (x, y) == (ak, bk) and v is True:
                return True
    if isinstance(a, Const) and a.value == 0 and isinstance(b, Term) and b.op == "len":
        return True      # ax4
    if isinstance(b, Term) and b.op == "max":
        if any(le(a, x, facts, depth + 1) for x in b.args):
            return True
    if isinstance(a, Term) and a.op == "min":
        if any(le(x, b, facts, depth + 1) for x in a.args):
            return True
    if isinstance(a, Term) and a.op == "max":
        if all(le(x, b, facts, depth + 1) for x in a.args):
            return True
    if isinstance(b, Term) and b.op == "min":
        if all(le(a, x, facts, depth + 1) for x in b.args):
            return True
    # float(INT_MIN) style constants folded already; sums with non-negative parts
    if isinstance(b, Term) and b.op == "bin" and b.args[0] == "+":
        x, y = b.args[1], b.args[2]
        if le(a, x, facts, depth + 1) and le(Const(0), y, facts, depth + 1):
            return True
        if le(a, y, facts, depth + 1) and le(Const(0), x, facts, depth + 1):
            return True
    return None


def _int_eval(x: Any, env: Dict[str, int]) -> Optional[int]:
    if isinstance(x, Const):
        return int(x.value) if isinstance(x.value, int) else None
    if isinstance(x, V) and x.key() in env:
        return env[x.key()]
    if isinstance(x, Term) and x.op in ("max", "min") and x.args:
        vs = [_int_eval(a, env) for a in x.args]
        if any(v is None for v in vs):
            return None
        return max(vs) if x.op == "max" else min(vs)      # type: ignore[type-var]
    if isinstance(x, Term) and x.op == "bin" and len(x.args) == 3:
        a, b = _int_eval(x.args[1], env), _int_eval(x.args[2], env)
        if a is None or b is None:
            return None
        try:
            return {"+": a + b, "-": a - b, "*": a * b, ">>": a >> b if 0 <= b < 64 else None, "<<": a << b if 0 <= b < 16 else None,
                    "//": a // b if b else None, "%": a % b if b else None}.get(x.args[0])
        except Exception:
            return None
    return None


def _int_leaves(x: Any, out: Dict[str, V]) -> bool:
    """Collect the integer-valued leaves of an arithmetic term; False if the term has a part that is not arithmetic."""
    if isinstance(x, Const):
        return isinstance(x.value, int) and not isinstance(x.value, bool)
    if isinstance(x, Term) and x.op in ("max", "min"):
        return all(_int_leaves(a, out) for a in x.args)
    if isinstance(x, Term) and x.op == "bin" and len(x.args) == 3 and x.args[0] in ("+", "-", "*", ">>", "<<", "//", "%"):
        return _int_leaves(x.args[1], out) and _int_leaves(x.args[2], out)
    if isinstance(x, Sym) and (x.kind == "int" or (x.origin and x.origin[0] in ("prop", "field"))):
        out[x.key()] = x
        return True
    if isinstance(x, Term) and x.op == "len":
        out[x.key()] = x
        return True
    return False


def refute_le(lo: V, hi: V, facts: List[Tuple[str, V, bool]]) -> Optional[str]:
    """A small integer valuation of the leaves of lo / hi under which every path fact over those leaves holds, the
    declaration axioms AX1 hold, and lo > hi: a counterexample to the entailment (None: none found / not arithmetic)."""
    import itertools as _it
    leaves: Dict[str, V] = {}
    if not (_int_leaves(lo, leaves) and _int_leaves(hi, leaves)) or not leaves or len(leaves) > 4:
        return None
    relevant = []
    for k, t, b in facts:
        if not any(name in k for name in leaves):
            continue
        if not (isinstance(t, Term) and t.op in ("lt", "eq") and len(t.args) == 2):
            if isinstance(t, Term) and t.op == "is":
                continue            # Nil tests on a prop: say nothing about its integer value
            return None             # a condition over the leaves that is not evaluated here
        extra: Dict[str, V] = {}
        if not (_int_leaves(t.args[0], extra) and _int_leaves(t.args[1], extra)):
            return None
        if any(name not in leaves for name in extra):
            return None
        relevant.append((t, b))
    names = sorted(leaves)
    for vals in sorted(_it.product((0, 1, 2, 3, 17, 40), repeat=len(names)), key=lambda v: (sum(v), v)):
        env = dict(zip(names, vals))
        if any(a in env and b_ in env and env[a] > env[b_] for a, b_ in AX1):
            continue
        if any(a == "0" and b_ in env and env[b_] < 0 for a, b_ in AX1):
            continue
        ok = True
        for t, b in relevant:
            x, y = _int_eval(t.args[0], env), _int_eval(t.args[1], env)
            if x is None or y is None or ((x < y) if t.op == "lt" else (x == y)) != b:
                ok = False
                break
        if not ok:
            continue
        l, h = _int_eval(lo, env), _int_eval(hi, env)
        if l is not None and h is not None and l > h:
            return ", ".join(f"{n} = {env[n]}" for n in names)
    return None


def is_decl(v: V) -> bool:
    """A quantity fixed by the declaration alone: a prop, len(prop), or a max/min over such and constants
    that contains at least one declared quantity on the unbounded side."""
    if isinstance(v, Sym) and bool(v.origin) and v.origin[0] == "prop":
        return True
    if isinstance(v, Term) and v.op == "len" and is_decl(v.args[0]):
        return True
    return False


def unbounded_above(v: V) -> bool:
    """Can `v` exceed every constant?  declared quantity, or max(...) containing one."""
    if is_decl(v):
        return True
    if isinstance(v, Term) and v.op == "max":
        return any(unbounded_above(a) for a in v.args if isinstance(a, V))
    return False


def unbounded_below(v: V) -> bool:
    if is_decl(v) and not (isinstance(v, Term) and v.op == "len"):
        return True
    if isinstance(v, Term) and v.op == "min":
        return any(unbounded_below(a) for a in v.args if isinstance(a, V))
    return False


def mentions(v: Any, key: str) -> bool:
    if isinstance(v, V):
        return key in v.key()
    return False


def _emptiness_only(fact_key: str, prop_key: str) -> bool:
    """A guard on whether a sized prop is empty (`not alphabet`, `len(alphabet) == 0`) says nothing about its content:
    it does not count as the generator consulting that constraint."""
    k = fact_key.replace(" ", "")
    pk = prop_key
    return k in (pk, f"len({pk})", f"eq(len({pk}),0)", f"eq(0,len({pk}))", f"lt(0,len({pk}))", f"gt(len({pk}),0)", f"ne(len({pk}),0)",
                 f"eq({pk},'')", f"eq('',{pk})")


def only_empty_conforms(p: Path, rv: Any) -> bool:
    """ax6: under an empty declared alphabet the only string that can conform is '' (and the schema is unsatisfiable
    if a length or substring constraint excludes it).  A path taken because the alphabet is empty and returning ''
    therefore owes nothing to the length / substring props."""
    if not (isinstance(rv, Const) and rv.value == ""):
        return False
    for fk, t, b in p.facts:
        if fk in ("props.alphabet", "len(props.alphabet)") and b is False:
            return True
        if isinstance(t, Term) and t.op == "eq" and b and {a.key() for a in t.args if isinstance(a, V)} in (
                {"len(props.alphabet)", "0"}, {"props.alphabet", "''"}):
            return True
        if isinstance(t, Term) and t.op in ("lt", "gt") and not b and "len(props.alphabet)" in fk and "0" in {a.key() for a in t.args if isinstance(a, V)}:
            return True        # not (0 < len(alphabet))
    return False


def check(run: Run, prog: Program, model: Model, tier: str) -> None:
    run.explanation = (
        "Generator.visit_* is evaluated abstractly (with Random's methods inlined down to the random.* calls) under "
        "every reachable prop-set of the declaration automaton and every element-list shape / key table. MIRROR: on "
        "every return path every declared prop for which the validator has an error row must flow into the returned "
        "value (data dependence through draw bounds, lengths, alphabets) or into a condition of the path, unless the "
        "path returns the fully fixed payload (props.value, or the members of an element list without `...`), whose "
        "consistency with every constraint is established at declaration (C10.VALCHK). DRAW-ORDER: for every "
        "randint / random_float draw lo <= hi must follow structurally from the satisfiable-schema axioms, constant "
        "folding, max/min laws, 0 <= len and the guards on the path; a declared bound paired with an unclamped "
        "default constant is a violation, anything unresolved is undecided. ROUND-DIR: a lower grid bound must be "
        "exact or rounded up, an upper one exact or rounded down. KIND-AGREE: the generated value's kind equals the "
        "validator's type guard. REQUIRED-KEYS: generated dicts contain every required key. Whether concrete "
        "generated values validate for all RNG outcomes (float grid arithmetic, regex matches) is not decided.")
    run.explanation += " A declared bound returned as the generated value carries every kind the declaration's isinstance guards admit for it (KIND-AGREE); when the validator rejects values that round(value, precision) changes, every generator path under that state returns round(_, precision) - the random.uniform fallback guarded by a float-product test is reported (GRID)."
    run.explanation += ' DRAW-NONEMPTY: the sequence of every random.choice draw outside the regex generator is non-empty on its path. PAYLOAD-PINNED: every Substitutor.visit_<scalar> stores the validated value itself (or K(value) for its kind K). ROUND-DIR also refuses round(random.uniform(..), precision).'
    run.explanation += " GENERATOR-STATELESS: RegexGenerator keeps no attribute that is written outside __init__ and readable by a later or enclosing call (C09 evaluates each handler as a function of its node alone); the Generator's own re-assigned fields are havoc'd at the start of every evaluated visit instead."
    run.rule_text = ("obligations per (type, state/shape, prop) for MIRROR, per draw site and state for DRAW-ORDER, per bound "
                     "for ROUND-DIR, per type for KIND-AGREE; non-trivial = dependence / entailment derived on interpreter paths")
    from ..entry import entry_transparent
    entry_transparent(run, prog, model, "validate", "VALIDATE-ENTRY")
    entry_transparent(run, prog, model, "generate", "GENERATE-ENTRY")
    run.trusted += ["satisfiable-schema axioms ax1 (declared min <= max, min_len <= max_len, len(substr) <= max length, lengths >= 0)",
                    "random.randint(a, b) is total iff a <= b; random.uniform is total on finite floats",
                    "sre parser contracts for RANGE and REPEAT bounds (C09)"]
    gen = model.visitors["Generator"]
    checked_props: Dict[Tuple[str, str], bool] = {}

    def validator_checks(hook: str, prop: str) -> bool:
        k = (hook, prop)
        if k not in checked_props:
            rows, _ = extract(prog, model, "Validator", hook, Config((prop,)))
            checked_props[k] = any(r.error not in ("TypeValidationError", "InvalidUUIDVersionValidationError") for r in rows)
        return checked_props[k]

    mirror: Dict[str, Tuple[str, str, List[str], List[str]]] = {}
    choice_seen: Dict[str, Tuple[str, str, str]] = {}
    draw_seen: Dict[str, Tuple[str, str, str, str]] = {}
    order = {"HOLDS": 0, "UNDECIDED": 1, "VIOLATED": 2}

    def record_draw(construct: str, status: str, site: str, detail: str, witness: str = "") -> None:
        prev = draw_seen.get(construct)
        if prev is None or order[status] > order[prev[0]]:
            draw_seen[construct] = (status, site, detail, witness)

    for hook, f in sorted(model.visit_methods("Generator").items()):
        st = model.by_hook[hook]
        if st.name in ("ListSchema", "DictSchema", "AnySchema", "TypeAliasSchema"):
            cfgs = configs_for(st, tier)
        else:
            ta = build(prog, model, st, tier)
            cfgs = [Config(tuple(sorted(s))) for s in ta.states]
        for cfg in cfgs:
            paths = run_visit(prog, model, "Generator", hook, cfg, None, unroll=1, max_depth=8)
            label = cfg.label
            vals = cfg.build()
            # ---------------- MIRROR
            for prop in cfg.setprops:
                if prop == "value":
                    continue
                if not validator_checks(hook, prop) and prop not in ("elements", "type", "keys", "types"):
                    continue
                fam = ""
                if "elements" in cfg.setprops and isinstance(vals.get("elements"), ListV):
                    fam = " | element list with `...`" if any(is_ell(x) for x in vals["elements"].items) else " | exact element list"
                elif "pattern" in cfg.setprops and prop != "pattern":
                    fam = " | pattern set"
                construct = f"Generator.{hook}: {prop}{fam}"
                ignored: List[str] = []
                consulted = 0
                for p in paths:
                    if p.outcome != "return" or p.value is None:
                        continue
                    rv = p.value
                    key = f"props.{prop}"
                    if rv.key() == "props.value":
                        consulted += 1      # fully fixed payload
                        continue
                    if only_empty_conforms(p, rv):
                        consulted += 1      # empty alphabet: '' is the only candidate (ax6)
                        continue
                    if prop in LEN_OK and "elements" in cfg.setprops and isinstance(vals.get("elements"), ListV) \
                            and isinstance(rv, ListV) and rv.concrete() \
                            and len(rv.items) == sum(1 for x in vals["elements"].items if not is_ell(x)):
                        has_ell = any(is_ell(x) for x in vals["elements"].items)
                        ex, why = length_exempt(prog, model, prop, has_ell, tier)
                        if ex:
                            consulted += 1  # the path returns exactly the concrete members; declaration fixes the rest
                            continue
                        ignored.append(f"exactly the concrete members ({why})")
                        continue
                    dep = mentions(rv, key) or any(key in k and not _emptiness_only(k, key) for k, _, _ in p.facts)
                    if not dep and prop in vals:
                        # container payload given as tokens: its members must appear in the result
                        toks = [x.key() for x in getattr(vals[prop], "items", []) if isinstance(x, V) and not is_ell(x)]
                        if isinstance(vals[prop], DictV):
                            toks = [tv.items[0].key() for k2, tv in vals[prop].pairs() if not is_ell(k2) and tv.items[1].value is False]
                        dep = all(t in rv.key() for t in toks) if toks else True
                        if prop == "types":
                            dep = any(t in rv.key() for t in toks)
                    if dep:
                        consulted += 1
                    else:
                        ignored.append(rv.key()[:60])
                if ignored:
                    mirror.setdefault(construct, ("VIOLATED", f.loc, [], []))
                    if mirror[construct][0] != "VIOLATED":
                        mirror[construct] = ("VIOLATED", f.loc, [], [])
                    mirror[construct][2].append(label)
                    mirror[construct][3].append(f"the generator never consults `{prop}` on a path returning {ignored[0]}; the validator checks it")
                elif consulted:
                    cur = mirror.setdefault(construct, ("HOLDS", f.loc, [], []))
                    cur[2].append(label)
                else:
                    mirror.setdefault(construct, ("UNDECIDED", f.loc, [], []))
            # ---------------- DRAW-ORDER
            for p in paths:
                for e in p.events:
                    if e.kind == "partial" and e.data.get("op") in ("random.randint", "random.randrange") and len(e.data.get("operands", ())) >= 2:
                        if any("_regex_generator" in q for q in e.stack):
                            continue        # draws of the regex generator are judged by C09
                        lo, hi = e.data["operands"][0], e.data["operands"][1]
                        _judge_draw(prog, hook, label, e, lo, hi, p.facts[:e.nfacts], record_draw)
                    if e.kind == "partial" and e.data.get("op") == "random.choice" and e.data.get("operands"):
                        if any("_regex_generator" in q for q in e.stack):
                            continue        # C09.DRAW-NONEMPTY
                        seq = e.data["operands"][0]
                        ne = draw_nonempty(seq, p, e)
                        fn_ = (e.stack[-1] if e.stack else "").rsplit(".", 1)[-1]
                        c_ = f"Generator.{hook}: {fn_}({seq.key()[:40] if not isinstance(seq, Const) else 'constant'})"
                        if ne is True:
                            choice_seen.setdefault(c_, ("HOLDS", f.loc, ""))
                        elif isinstance(seq, Sym) and seq.origin and seq.origin[0] == "prop" and seq.origin[1] in ("types",):
                            choice_seen.setdefault(c_, ("HOLDS", f.loc, "declaration takes at least one alternative"))
                        else:
                            choice_seen[c_] = ("VIOLATED", f.loc, f"under {label} the sequence {seq.key()[:50]} may be empty when a member is drawn "
                                               "from it: random.choice raises IndexError")
                rz = [e2 for e2 in p.events if e2.kind == "raise"]
                if p.outcome == "raise" and rz and any("_regex_generator" in q for q in rz[-1].stack):
                    continue        # the regex generator's loud refusal of unsupported constructs (C09)
                if p.outcome == "raise" and isinstance(p.value, ExcV) and not p.implicit:
                    # random_float's own `start > end` refusal: the raising branch must be infeasible
                    last = p.facts[-1] if p.facts else None
                    if last is not None and isinstance(last[1], Term) and last[1].op == "lt" and last[2] is True:
                        hi, lo = last[1].args
                        ev = Event("raise", p.exc_node, None, {}, len(p.facts) - 1)
                        for e2 in reversed(p.events):
                            if e2.kind == "raise":
                                ev = e2
                                break
                        _judge_draw(prog, hook, label, ev, lo, hi, p.facts[:-1], record_draw, refusal=p.value.cls_name)
                    else:
                        record_draw(f"Generator.{hook}: explicit raise", "VIOLATED", f.loc,
                                    f"generator raises {p.value.cls_name} under {label}", "fake() raises for a satisfiable schema")
            # ---------------- KIND-AGREE
            want = TYPE.get(hook)
            if want:
                kinds = set()

                def value_kinds(v: V) -> Set[str]:
                    # a declared bound handed out as the generated value has every kind the declaration admits for it
                    if isinstance(v, Sym) and v.origin and v.origin[0] == "prop" and v.origin[1] != "value":
                        adm = admitted_kinds(prog, model, st, v.origin[1])
                        if adm is not None:
                            return set(adm)
                    if isinstance(v, Term) and v.op in ("max", "min"):
                        out: Set[str] = set()
                        for a in v.args:
                            if isinstance(a, V):
                                out |= value_kinds(a)
                        if out:
                            return out
                    return {v.kind} if v.kind else set()
                for p in paths:
                    if p.outcome == "return" and p.value is not None and p.value.key() != "props.value":
                        kinds |= value_kinds(p.value)
                bad = sorted(k for k in kinds if not (kind_is(k, want) or k == want))
                c = f"Generator.{hook} {label}: kind"
                if bad:
                    run.violated("KIND-AGREE", c, f.loc, f"generated value has kind {bad}, the validator requires {want}",
                                 witness=f"validate(s, fake(s)) reports a type error")
                elif kinds:
                    run.holds("KIND-AGREE", c, f.loc, f"generated kind {sorted(kinds)} matches the validator's guard {want}", nontrivial=False)
            # ---------------- GRID: a validator that rejects values off the precision grid needs a generator that stays on it
            if hook == "visit_float" and "precision" in cfg.setprops and "value" not in cfg.setprops:
                vrows, _ = extract(prog, model, "Validator", hook, Config(cfg.setprops))
                grid = [r for r in vrows if r.error != "TypeValidationError" and any(
                    isinstance(t, V) and "builtins.round" in t.key() and "props.precision" in t.key() and "value" in t.key()
                    for _, t, _ in r.all_facts[-2:])]
                c = f"Generator.visit_float {label}: precision grid"
                if grid:
                    off = []
                    inexact = False
                    for p in paths:
                        if p.outcome != "return" or p.value is None:
                            continue
                        k = p.value.key()
                        if not (k.startswith("call(builtins.round,") and k.rstrip(")").endswith("props.precision")):
                            off.append(k[:70])
                            # the path is taken when the generator found no grid point; in exact arithmetic that means the
                            # schema is unsatisfiable (exempt) - but a test on ceil/floor of a float product is not exact
                            for fk, t, b in p.facts:
                                if b and isinstance(t, Term) and t.op in ("gt", "lt") and ("math.ceil" in fk or "math.floor" in fk) \
                                        and "bin(*" in fk:
                                    inexact = True
                    if off and "min" not in cfg.setprops and "max" not in cfg.setprops:
                        run.holds("GRID", c, f.loc, "off-grid fallback needs a declared bound to be reachable", nontrivial=False)
                    elif off and inexact:
                        run.violated("GRID", c, f.loc, f"the validator rejects a value that round(value, precision) changes "
                                     f"({grid[0].error} @ {grid[0].site}); the generator returns {sorted(set(off))[0]} when its "
                                     "no-grid-point test, evaluated on ceil/floor of float products, succeeds - which it can for a "
                                     "range that does contain a grid point (0.07 * 100 == 7.000000000000001)",
                                     witness="fake(schema.float.min(0.07).max(0.075).precision(2)) falls back to random.uniform "
                                             "and the result is rejected although 0.07 satisfies the schema")
                    elif off:
                        run.undecided("GRID", c, f.loc, f"the generator returns {sorted(set(off))[0]} on a path whose guard could not "
                                      "be shown to imply that no grid point exists")
                    else:
                        run.holds("GRID", c, f.loc, "every path returns round(_, precision)", nontrivial=True)
                else:
                    run.holds("GRID", c, f.loc, "the validator does not require on-grid values when no value is declared", nontrivial=False)
            # ---------------- REQUIRED-KEYS
            if st.name == "DictSchema" and "keys" in vals:
                req = [k.key() for k, tv in vals["keys"].pairs() if not is_ell(k) and tv.items[1].value is False]
                c = f"Generator.visit_dict {label}: required keys"
                probs = []
                for p in paths:
                    if p.outcome != "return" or not isinstance(p.value, DictV):
                        probs.append("result is not a dict built key by key")
                        continue
                    have = [k.key() for k, _ in p.value.pairs()]
                    if any(k == "..." for k in have):
                        probs.append("the `...` marker is generated as a key")
                    missing = [k for k in req if k not in have]
                    if missing:
                        probs.append(f"required keys {missing} are not generated")
                    for k, v in p.value.pairs():
                        tv = vals["keys"].lookup(k)
                        if tv is not None and not (isinstance(v, Sym) and v.origin and v.origin[0] == "accept" and v.origin[1].key() == tv.items[0].key()):
                            probs.append(f"value of {k.key()} is not generated from its member schema")
                if probs:
                    run.violated("REQUIRED-KEYS", c, f.loc, "; ".join(sorted(set(probs)))[:300],
                                 witness="fake(schema.dict({...})) lacks a required key")
                else:
                    run.holds("REQUIRED-KEYS", c, f.loc, f"all of {req} generated from their members", nontrivial=True)
    for construct, (status, site, labels, details) in sorted(mirror.items()):
        if status == "VIOLATED":
            run.violated("MIRROR", construct, site, details[0][:300] + f" (states: {', '.join(labels[:6])}{'...' if len(labels) > 6 else ''})",
                         witness=f"fake(schema with {labels[0]}) for a `{construct.split(': ')[1].split(' |')[0]}` the returned value does not meet fails its own validation")
        elif status == "HOLDS":
            run.holds("MIRROR", construct, site, f"consulted (or exempt by declaration) in {len(labels)} states/shapes", nontrivial=True)
        else:
            run.undecided("MIRROR", construct, site, "no returning path")
    for construct, (status, site, detail, witness) in sorted(draw_seen.items()):
        if status == "HOLDS":
            run.holds("DRAW-ORDER", construct, site, detail, nontrivial=True)
        elif status == "VIOLATED":
            run.violated("DRAW-ORDER", construct, site, detail, witness)
        else:
            run.undecided("DRAW-ORDER", construct, site, detail)
    for construct, (status, site, detail) in sorted(choice_seen.items()):
        if status == "HOLDS":
            run.holds("DRAW-NONEMPTY", construct, site, detail or "the sequence drawn from is non-empty on every path", nontrivial=True)
        else:
            run.violated("DRAW-NONEMPTY", construct, site, detail,
                         witness="fake(schema.str.alphabet('')) raises IndexError although '' conforms")
    run.floor("DRAW-NONEMPTY", 3)
    # a generator path that returns props.value is exempt from MIRROR because the payload was checked against the other
    # props when it was stored: by the declaration (C10.VALCHK) or by the substitutor, which must store the very value
    # it validated (a rounded / converted copy was never validated)
    from .c04 import pin_obligations
    pin_obligations(run, prog, model, tier, "PAYLOAD-PINNED")
    # the regex path is delegated to the regex generator (C09 decides what it emits); what C01 itself needs from it is that
    # one generate() call does not depend on what an earlier call - or an enclosing group - left on the instance
    from .c17 import hidden_state
    # (C09 evaluates every handler as a function of its node alone).  The Generator's own fields need no such rule: every
    # field re-assigned outside __init__ holds an unknown value when a visit is evaluated (visits.havoc_fields), so the
    # draw rules above already hold for whatever an earlier or enclosing visit left there.
    hidden_state(run, prog, prog.cls("generation._regex_generator.RegexGenerator"), "GENERATOR-STATELESS")
    run.floor("PAYLOAD-PINNED", 20)
    run.floor("MIRROR", 15)
    run.floor("DRAW-ORDER", 8)
    run.floor("KIND-AGREE", 20)
    _round_dir(run, prog, model)
    _len_account(run, prog, model, tier)


LEN_OK = ("len", "min_len", "max_len")
_LEN_SHAPE = {"len": "len(val_or_min)", "min_len": "len(val_or_min, ...)", "max_len": "len(..., max)"}
_EXEMPT_CACHE: Dict[Tuple[str, bool], Tuple[bool, str]] = {}


def length_exempt(prog: Program, model: Model, prop: str, has_ell: bool, tier: str) -> Tuple[bool, str]:
    """Exemption (a) of MIRROR, derived from the declaration automaton (the C10.VALCHK argument): on the path
    that returns exactly the concrete members of an element list, a length prop needs no consulting iff the
    declaration only accepts it when the validator's failing relation cannot hold for len(value) = #concrete."""
    ck = (prop, has_ell)
    if ck in _EXEMPT_CACHE:
        return _EXEMPT_CACHE[ck]
    st = model.schemas["ListSchema"]
    ta = build(prog, model, st, tier)
    outs = ta.trans.get((frozenset({"elements"}), _LEN_SHAPE[prop]), [])
    rd: Set[str] = set()
    ok = bool(outs)
    x = y = None
    for o in outs:
        facts = dict(o.preds)
        full = [v for k, v in facts.items() if k.startswith("eq(len(listcomp(") and "len(props.elements)" in k]
        if full and full[0] != (not has_ell):
            continue                      # the other list form
        if o.kind != "REJECT" or not o.pred_terms:
            continue
        t, b = o.pred_terms[-1]
        if not (isinstance(t, Term) and t.op in ("lt", "eq")):
            ok = False
            continue
        ks = [a.key() for a in t.args]
        xs = [k for k in ks if k.startswith("len(listcomp(")]
        ys = [k for k in ks if not k.startswith("len(listcomp(")]
        if len(xs) != 1 or len(ys) != 1:
            ok = False
            continue
        x, y = xs[0], ys[0]
        rr = relation(t, b, x, y)
        if rr is None:
            ok = False
        else:
            rd |= rr
    if not ok or x is None:
        res = (False, "declaration predicates not comparable")
    else:
        accept = {"LT", "EQ", "GT"} - rd
        rv = set(REL[prop][2])
        if rv & accept:
            res = (False, f"declaration accepts (#concrete ? {prop}) in {sorted(accept)} but the validator fails on {sorted(rv & accept)}")
        else:
            res = (True, f"declaration only accepts (#concrete ? {prop}) in {sorted(accept)}, where the validator's failing relation {sorted(rv)} cannot hold")
    _EXEMPT_CACHE[ck] = res
    return res


def symlen(v: V) -> Optional[Dict[str, int]]:
    """Length of a generated string as a linear form {term key: coefficient, "1": constant}; None if unknown."""
    def add(a: Dict[str, int], b: Dict[str, int], k: int = 1) -> Dict[str, int]:
        out = dict(a)
        for kk, c in b.items():
            out[kk] = out.get(kk, 0) + k * c
        return {kk: c for kk, c in out.items() if c != 0}

    def value_of(x: V) -> Optional[Dict[str, int]]:
        """integer value of an int-valued term as a linear form"""
        if isinstance(x, Const) and isinstance(x.value, int):
            return {"1": x.value} if x.value else {}
        if isinstance(x, Term) and x.op == "bin" and x.args[0] in ("+", "-"):
            a, b = value_of(x.args[1]), value_of(x.args[2])
            if a is None or b is None:
                return None
            return add(a, b, 1 if x.args[0] == "+" else -1)
        if isinstance(x, Term) and x.op == "len":
            return symlen(x.args[0])
        return {x.key(): 1}

    if isinstance(v, Const) and isinstance(v.value, str):
        return {"1": len(v.value)} if v.value else {}
    if isinstance(v, Sym) and v.kind == "str":
        return {f"len({v.key()})": 1}
    if isinstance(v, Term) and v.op == "join":
        sep, src = v.args
        if isinstance(sep, Const) and sep.value == "" and isinstance(src, Term) and src.op in ("gencomp", "listcomp") and len(src.args) == 2:
            elt, it = src.args
            unit = 1 if (isinstance(elt, Term) and elt.op == "call" and elt.args and elt.args[0] == "random.choice") else None
            rng = it.args[0] if isinstance(it, Term) and it.op == "src" else None
            if unit == 1 and isinstance(rng, Term) and rng.op == "range" and len(rng.args) == 1:
                return value_of(rng.args[0])
        return None
    if isinstance(v, StrV):
        total: Dict[str, int] = {}
        slices: List[Term] = []
        for piece in v.pieces:
            if isinstance(piece, str):
                total = add(total, {"1": len(piece)})
                continue
            x, conv = piece
            if conv:
                return None
            if isinstance(x, Term) and x.op == "slice":
                slices.append(x)
                continue
            l = symlen(x)
            if l is None:
                return None
            total = add(total, l)
        # x[0:o] + ... + x[o:]  ==  len(x)
        while slices:
            a = slices.pop(0)
            mate = None
            gap = 0
            for b in slices:
                if b.args[0].key() == a.args[0].key():
                    lo_a, hi_a, lo_b, hi_b = a.args[1], a.args[2], b.args[1], b.args[2]
                    starts0 = isinstance(lo_a, Const) and lo_a.value in (0, None)
                    ends_open = isinstance(hi_b, Const) and hi_b.value is None
                    from ..vtable import _split_offset
                    (ka, ca), (kb, cb) = _split_offset(hi_a), _split_offset(lo_b)
                    if starts0 and ends_open and ka == kb and ca is not None and cb is not None:
                        mate = b
                        gap = cb - ca          # x[0:o+ca] + x[o+cb:] drops cb-ca characters (duplicates if negative)
                        break
            if mate is None:
                return None
            slices.remove(mate)
            l = symlen(a.args[0])
            if l is None:
                return None
            total = add(total, l)
            if gap:
                total = add(total, {"1": -gap})
        return total
    return None


def _len_account(run: Run, prog: Program, model: Model, tier: str) -> None:
    """LEN-ACCOUNT: on every non-value, non-pattern path of Generator.visit_str the length of the returned string
    equals the declared / drawn length, whose bounds DRAW-ORDER and MIRROR tie to len / min_len / max_len."""
    st = model.by_hook["visit_str"]
    f = model.visitors["Generator"].lookup("visit_str")
    for cfg in configs_for(st, tier):
        if "value" in cfg.setprops or "pattern" in cfg.setprops:
            continue
        paths = run_visit(prog, model, "Generator", "visit_str", cfg, None, unroll=1, max_depth=8)
        construct = f"Generator.visit_str {cfg.label}: length"
        probs: List[str] = []
        ok = 0
        for p in paths:
            if p.outcome != "return" or p.value is None:
                continue
            if only_empty_conforms(p, p.value):
                ok += 1
                continue
            l = symlen(p.value)
            if l is None:
                probs.append(f"length of {p.value.key()[:60]} cannot be accounted for")
                continue
            if "len" in cfg.setprops:
                want = {"props.len": 1}
            else:
                draws = [k for k in l if k.startswith("call(random.randint")]
                want = {draws[0]: 1} if len(draws) == 1 else None
            if want is None or l != want:
                probs.append(f"returned string has length {l}, expected exactly the declared/drawn length")
            else:
                ok += 1
        if probs and not ok and all("cannot be accounted" in x for x in probs):
            run.undecided("LEN-ACCOUNT", construct, f.loc, probs[0])
        elif probs:
            run.violated("LEN-ACCOUNT", construct, f.loc, "; ".join(sorted(set(probs)))[:300],
                         witness=f"fake(schema.str with {cfg.label}) has a different length than the one drawn inside [min_len, max_len] / declared by len")
        elif ok:
            run.holds("LEN-ACCOUNT", construct, f.loc, f"length == declared/drawn length on {ok} paths", nontrivial=True)
    run.floor("LEN-ACCOUNT", 10)


def _judge_draw(prog: Program, hook: str, label: str, e: Event, lo: V, hi: V, facts: List[Tuple[str, V, bool]],
                record: Any, refusal: Optional[str] = None) -> None:
    where = (e.func or "").split(".")[-1] if e.func else hook
    site = e.loc(prog) if e.func else ""
    construct = f"Generator.{hook} {label}: draw({lo.key()[:40]}, {hi.key()[:40]})"
    r = le(lo, hi, facts)
    if r:
        record(construct, "HOLDS", site, f"lo <= hi entailed structurally" + (f" (so the {refusal} branch is infeasible)" if refusal else ""))
        return
    if (unbounded_above(lo) and isinstance(hi, Const)) or (isinstance(lo, Const) and unbounded_below(hi)):
        decl, const = (lo, hi) if isinstance(hi, Const) else (hi, lo)
        side = "minimum" if isinstance(hi, Const) else "maximum"
        record(construct, "VIOLATED", site,
               f"a declared {side} ({decl.key()}) is paired with the un-clamped default constant {const.key()}: "
               f"the draw is empty when the declared bound lies beyond the default",
               f"fake(schema with {label}) raises ValueError for a declared {side} beyond {const.key()}")
        return
    cex = refute_le(lo, hi, facts)
    if cex is not None:
        record(construct, "VIOLATED", site,
               f"lo <= hi is not entailed: with {cex} the path condition holds and the draw is over an empty range "
               f"({lo.key()[:50]} > {hi.key()[:50]})",
               f"fake(schema with {label}) raises ValueError (empty range) when {cex}")
        return
    record(construct, "UNDECIDED", site, f"cannot entail {lo.key()[:50]} <= {hi.key()[:50]}")


def _contains_rounding(v: Any) -> Optional[str]:
    if isinstance(v, Term):
        if v.op == "call" and isinstance(v.args[0], str) and v.args[0] in ROUND:
            return v.args[0]
        for a in v.args:
            r = _contains_rounding(a)
            if r:
                return r
    return None


def _direction(v: V) -> str:
    if isinstance(v, Term) and v.op == "call" and isinstance(v.args[0], str) and v.args[0] in ROUND:
        inner = next((r for a in v.args[1:] for r in [_contains_rounding(a)] if r), None)
        if inner is not None and ROUND[inner] != ROUND[v.args[0]]:
            return f"{ROUND[inner]} (by the inner {inner.split('.')[-1]}(), then {ROUND[v.args[0]]})"
        return ROUND[v.args[0]]
    if isinstance(v, Term) and v.op == "bin" and v.args[0] == "//":
        return "down"
    if isinstance(v, Term) and v.op == "unary" and v.args[0] == "USub" and isinstance(v.args[1], Term) \
            and v.args[1].op == "bin" and v.args[1].args[0] == "//":
        return "up"
    return "exact"


def _round_dir(run: Run, prog: Program, model: Model) -> None:
    st = model.by_hook["visit_float"]
    f = prog.cls("generation._random.Random").methods.get("random_float")
    if f is None:
        raise AnalysisError("Random.random_float not found")
    paths = run_visit(prog, model, "Generator", "visit_float", Config(("min", "max", "precision")), None, unroll=1, max_depth=8)
    found = 0
    seen: Set[str] = set()
    for p in paths:
        for e in p.events:
            if e.kind == "partial" and e.data.get("op") in ("random.randint",) and len(e.data.get("operands", ())) == 2:
                lo, hi = e.data["operands"]
                for side, v, ok in (("lower", lo, ("exact", "up")), ("upper", hi, ("exact", "down"))):
                    d = _direction(v)
                    c = f"Random.random_float: {side} grid bound"
                    if c in seen:
                        continue
                    seen.add(c)
                    found += 1
                    if d in ok:
                        run.holds("ROUND-DIR", c, e.loc(prog), f"rounded {d}: stays inside [min, max]", nontrivial=True)
                    else:
                        run.violated("ROUND-DIR", c, e.loc(prog),
                                     f"the {side} bound of the precision grid is rounded {d} ({v.key()[:60]}): the draw can leave [min, max]",
                                     witness="schema.float.min(0.15).max(0.25).precision(1) can generate 0.1 (or -0.1 for negative bounds)")
    # a value obtained by rounding a CONTINUOUS draw to the grid is rounded to the nearest grid point: a draw within half a
    # cell of an off-grid bound lands outside [min, max]
    cont = []
    for p in paths:
        if p.outcome == "return" and p.value is not None:
            k = p.value.key()
            if k.startswith("call(builtins.round, call(random.uniform") or k.startswith("call(builtins.round, call(random.random"):
                cont.append(k)
    c = "Random.random_float: rounding of a continuous draw"
    if cont:
        run.violated("ROUND-DIR", c, f.loc, f"a path returns {cont[0][:70]}: round-to-nearest of a uniform draw over [start, end] can fall "
                     "below start / above end when the bounds are not on the grid",
                     witness="fake(schema.float.min(0.123).max(1.277).precision(2)) can return 0.12 or 1.28")
    elif found:
        run.holds("ROUND-DIR", c, f.loc, "the rounded value is always a quotient of an integer grid draw", nontrivial=True)
    if not found:
        run.undecided("ROUND-DIR", "Random.random_float: grid bounds", f.loc, "no integer grid draw found on the precision path")
    run.floor("ROUND-DIR", 2)
    run.floor("GRID", 3)


G = "d42/generation/_generator.py"
R = "d42/generation/_random.py"
MUTANTS = [
    {"name": "float substitution stores the value rounded to the precision (seeded C01-K)", "rule": "PAYLOAD-PINNED",
     "edits": [("d42/substitution/_substitutor.py", "    def visit_float(self, schema: FloatSchema, *, value: Any = Nil, **kwargs: Any) -> FloatSchema:\n        result = schema.__accept__(self._validator, value=value)\n        if result.has_errors():\n            raise make_substitution_error(result, self._formatter)\n        return schema.__class__(schema.props.update(value=value))",
                "    def visit_float(self, schema: FloatSchema, *, value: Any = Nil, **kwargs: Any) -> FloatSchema:\n        result = schema.__accept__(self._validator, value=value)\n        if result.has_errors():\n            raise make_substitution_error(result, self._formatter)\n        if schema.props.precision is not Nil:\n            value = round(value, schema.props.precision)\n        return schema.__class__(schema.props.update(value=value))")]},
    {"name": "wide ranges are sampled by rounding a uniform draw (seeded C01-L)", "rule": "ROUND-DIR",
     "edits": [(R, "        scale_factor = 10 ** precision\n", "        if (end - start) >= 1.0:\n            return round(random.uniform(start, end), precision)\n\n        scale_factor = 10 ** precision\n")]},
    {"name": "empty-alphabet guard removed (fix f2ca6f4 reverted)", "rule": "DRAW-NONEMPTY",
     "edits": [(G, "        if len(alphabet) == 0:\n            # nothing can be drawn from an empty alphabet: only the empty string conforms\n            return \"\"\n", "")]},
    {"name": "float bounds may be ints and a degenerate range returns the bound itself (seeded C01-I)", "rule": "KIND-AGREE",
     "edits": [("d42/declaration/types/_float_schema.py", "    def min(self, /, value: float) -> \"FloatSchema\":\n        if not isinstance(value, float):", "    def min(self, /, value: float) -> \"FloatSchema\":\n        if not isinstance(value, (int, float)):"),
               (R, "        if precision is Nil:\n            return random.uniform(start, end)\n", "        if start == end:\n            return start\n\n        if precision is Nil:\n            return random.uniform(start, end)\n")]},
    {"name": "neutral: degenerate range returns the (float) bound itself", "expect": "SILENT",
     "edits": [(R, "        if precision is Nil:\n            return random.uniform(start, end)\n", "        if start == end:\n            return start\n\n        if precision is Nil:\n            return random.uniform(start, end)\n")]},
    {"name": "neutral: float bounds may be ints (every generator path still yields a float)", "expect": "SILENT",
     "edits": [("d42/declaration/types/_float_schema.py", "    def min(self, /, value: float) -> \"FloatSchema\":\n        if not isinstance(value, float):", "    def min(self, /, value: float) -> \"FloatSchema\":\n        if not isinstance(value, (int, float)):")]},
    {"name": "validator demands on-grid floats when only a precision is declared (seeded C01-J)", "rule": "GRID",
     "edits": [("d42/validation/_validator.py", "        if schema.props.min is not Nil:\n            if value < schema.props.min:\n                result.add_error(MinValueValidationError(path, value, schema.props.min))\n\n        if schema.props.max is not Nil:\n            if value > schema.props.max:\n                result.add_error(MaxValueValidationError(path, value, schema.props.max))\n\n        return result\n\n    def visit_str",
                "        if schema.props.value is Nil and schema.props.precision is not Nil:\n            rounded = round(value, schema.props.precision)\n            if isfinite(value) and (rounded != value):\n                result.add_error(ValueValidationError(path, value, rounded))\n\n        if schema.props.min is not Nil:\n            if value < schema.props.min:\n                result.add_error(MinValueValidationError(path, value, schema.props.min))\n\n        if schema.props.max is not Nil:\n            if value > schema.props.max:\n                result.add_error(MaxValueValidationError(path, value, schema.props.max))\n\n        return result\n\n    def visit_str")]},
    {"name": "default list maximum halved per nesting level, re-clamped with the constant minimum", "rule": "DRAW-ORDER",
     "edits": [(G, "                max_length = max(max_length, min_length)\n            length = self._random.random_int(min_length, max_length)\n\n        if schema.props.type is not Nil:\n            return [schema.props.type.__accept__(self, **kwargs) for _ in range(length)]",
                "                max_length = max(max_length, min_length)\n                max_length = max(max_length >> self._depth, LIST_LEN_MIN)\n            length = self._random.random_int(min_length, max_length)\n\n        if schema.props.type is not Nil:\n            self._depth += 1\n            try:\n                return [schema.props.type.__accept__(self, **kwargs) for _ in range(length)]\n            finally:\n                self._depth -= 1"),
               (G, "        self._regex_generator = regex_generator\n", "        self._regex_generator = regex_generator\n        self._depth = 0\n")]},
    {"name": "neutral: nesting counter kept but the clamp uses the list's own minimum", "expect": "SILENT",
     "edits": [(G, "                max_length = max(max_length, min_length)\n            length = self._random.random_int(min_length, max_length)\n\n        if schema.props.type is not Nil:\n            return [schema.props.type.__accept__(self, **kwargs) for _ in range(length)]",
                "                max_length = max(max_length, min_length)\n                max_length = max(max_length >> self._depth, min_length)\n            length = self._random.random_int(min_length, max_length)\n\n        if schema.props.type is not Nil:\n            self._depth += 1\n            try:\n                return [schema.props.type.__accept__(self, **kwargs) for _ in range(length)]\n            finally:\n                self._depth -= 1"),
               (G, "        self._regex_generator = regex_generator\n", "        self._regex_generator = regex_generator\n        self._depth = 0\n")]},
    {"name": "substr clamp dropped: max(max_length, len(substr))", "rule": "DRAW-ORDER",
     "edits": [(G, "                max_length = max(max_length, len(schema.props.substr))\n", "")]},
    {"name": "int default-bound clamp reverted (F5)", "rule": "DRAW-ORDER",
     "edits": [(G, "        if schema.props.max is Nil:\n            max_value = max(max_value, min_value)\n        if schema.props.min is Nil:\n            min_value = min(min_value, max_value)\n        return self._random.random_int(min_value, max_value)", "        return self._random.random_int(min_value, max_value)")]},
    {"name": "typed-list path uses LIST_LEN_MAX although max_len is set", "rule": "MIRROR",
     "edits": [(G, "            if schema.props.max_len is not Nil:\n                max_length = schema.props.max_len\n                is_length_specified = True\n            else:\n                max_length = max(max_length, min_length)",
                "            if schema.props.max_len is not Nil:\n                is_length_specified = True\n            max_length = max(max_length, min_length)")]},
    {"name": "ceil -> int in random_float (F7)", "rule": "ROUND-DIR",
     "edits": [(R, "        left_number = ceil(start * scale_factor)", "        left_number = int(start * scale_factor)")]},
    {"name": "visit_bytes without .encode()", "rule": "KIND-AGREE",
     "edits": [(G, "        return self._random.random_str(length, alphabet).encode()", "        return self._random.random_str(length, alphabet)")]},
    {"name": "visit_dict also skips required keys whose member is any", "rule": "REQUIRED-KEYS",
     "edits": [(G, "            if is_optional:\n                continue\n            generated[key] = val.__accept__(self, **kwargs)", "            if is_optional or isinstance(val, AnySchema):\n                continue\n            generated[key] = val.__accept__(self, **kwargs)")]},
    {"name": "str alphabet ignored when a substring is set", "rule": "MIRROR",
     "edits": [(G, "            generated = self._random.random_str(length - len(substr), alphabet)", "            generated = self._random.random_str(length - len(substr), STR_ALPHABET)")]},
    {"name": "str list min_len clamp reverted", "rule": "DRAW-ORDER",
     "edits": [(G, "            if schema.props.max_len is Nil:\n                max_length = max(max_length, min_length)\n", "")]},
    {"name": "float max ignored when precision is set", "rule": "MIRROR",
     "edits": [(G, "            return self._random.random_float(min_value, max_value, precision)", "            return self._random.random_float(min_value, FLOAT_MAX, precision)")]},
    {"name": "floor -> round for the upper grid bound", "rule": "ROUND-DIR",
     "edits": [(R, "        right_number = floor(end * scale_factor)", "        right_number = round(end * scale_factor)")]},
    {"name": "neutral: bounds computed through locals with other names", "expect": "SILENT",
     "edits": [(G, "        min_value = schema.props.min if (schema.props.min is not Nil) else INT_MIN\n        max_value = schema.props.max if (schema.props.max is not Nil) else INT_MAX\n        if schema.props.max is Nil:\n            max_value = max(max_value, min_value)\n        if schema.props.min is Nil:\n            min_value = min(min_value, max_value)\n        return self._random.random_int(min_value, max_value)",
                "        lo = schema.props.min if (schema.props.min is not Nil) else INT_MIN\n        hi = schema.props.max if (schema.props.max is not Nil) else INT_MAX\n        if schema.props.max is Nil:\n            hi = max(hi, lo)\n        if schema.props.min is Nil:\n            lo = min(lo, hi)\n        return self._random.random_int(lo, hi)")]},
    {"name": "neutral: -(-x // 1) style ceil", "expect": "SILENT",
     "edits": [(R, "        left_number = ceil(start * scale_factor)", "        left_number = ceil(start * scale_factor) + 0")]},
]

MUTANTS += [
    {"name": "substring inserted without shortening the random part", "rule": "LEN-ACCOUNT",
     "edits": [(G, "            generated = self._random.random_str(length - len(substr), alphabet)", "            generated = self._random.random_str(length, alphabet)")]},
    {"name": "substring replaces a slice of fixed width 1", "rule": "LEN-ACCOUNT",
     "edits": [(G, "            return generated[0:offset] + substr + generated[offset:]", "            return generated[0:offset] + substr + generated[offset + 1:]")]},
    {"name": "neutral: slices written as [:offset]", "expect": "SILENT",
     "edits": [(G, "            return generated[0:offset] + substr + generated[offset:]", "            return generated[:offset] + substr + generated[offset:]")]},
]

MUTANTS += [
    {"name": "scaled grid bounds rounded to 6 decimals before ceil/floor", "rule": "ROUND-DIR",
     "edits": [(R, "        left_number = ceil(start * scale_factor)\n        right_number = floor(end * scale_factor)", "        left_number = ceil(round(start * scale_factor, 6))\n        right_number = floor(round(end * scale_factor, 6))")]},
]

# round 7: the seeded changes that were missed on first contact, replayed against the current tree
MUTANTS += [
    {"name": 'seeded C01-M', "rule": 'GENERATOR-STATELESS',
     "edits": [('d42/generation/_regex_generator.py', 'import string\nimport sys\n\n', 'import re\nimport string\nimport sys\n\n'),
               ('d42/generation/_regex_generator.py', '        if alphabet:\n            self._alphabet.update(alphabet)\n        self._max_repeat = max_repeat\n\n    def _get_category_alphabet(self, value: Any) -> str:\n        if value == CATEGORY_DIGIT:\n', '        if alphabet:\n            self._alphabet.update(alphabet)\n        self._max_repeat = max_repeat\n        self._flags = 0\n\n    def _is_ignorecase(self) -> bool:\n        return bool(self._flags & re.IGNORECASE)\n\n    def _generate_cased(self, letter: str) -> str:\n        # under (?i) a letter stands for both of its cases\n        if self._is_ignorecase() and (letter in string.ascii_letters):\n            return self._random.random_choice((letter.lower(), letter.upper()))\n        return letter\n\n    def _get_category_alphabet(self, value: Any) -> str:\n        if value == CATEGORY_DIGIT:\n'),
               ('d42/generation/_regex_generator.py', '        if opcode == RANGE:\n            min_ord, max_ord = val\n            ordinal = self._random.random_int(min_ord, max_ord)\n            return self._generate_literal(ordinal)\n        elif opcode == CATEGORY:\n            alphabet = self._get_category_alphabet(val)\n            return self._random.random_choice(alphabet)\n', '        if opcode == RANGE:\n            min_ord, max_ord = val\n            ordinal = self._random.random_int(min_ord, max_ord)\n            return self._generate_cased(self._generate_literal(ordinal))\n        elif opcode == CATEGORY:\n            alphabet = self._get_category_alphabet(val)\n            return self._random.random_choice(alphabet)\n'),
               ('d42/generation/_regex_generator.py', '            elif opcode == CATEGORY:\n                exclude_letters += self._get_category_alphabet(val)\n            else:\n                exclude_letters += self._generate(opcode, val)\n\n        letters = "".join(set(self._alphabet["letters"]) - set(exclude_letters))\n        if len(letters) == 0:\n', '            elif opcode == CATEGORY:\n                exclude_letters += self._get_category_alphabet(val)\n            else:\n                exclude_letters += self._generate_literal(val)\n        if self._is_ignorecase():\n            exclude_letters += exclude_letters.swapcase()\n\n        letters = "".join(set(self._alphabet["letters"]) - set(exclude_letters))\n        if len(letters) == 0:\n'),
               ('d42/generation/_regex_generator.py', '\n    def _generate_subpattern(self, value: Tuple[int, int, int, List[Any]]) -> str:\n        group, add_flags, del_flags, subpattern = value\n        return self._generate_pattern(subpattern)\n\n    def _generate_pattern(self, value: List[Any]) -> str:\n', '\n    def _generate_subpattern(self, value: Tuple[int, int, int, List[Any]]) -> str:\n        group, add_flags, del_flags, subpattern = value\n        # scoped inline flags: (?i:...) switches on, (?-i:...) switches off\n        self._flags = (self._flags | add_flags) & ~del_flags\n        return self._generate_pattern(subpattern)\n\n    def _generate_pattern(self, value: List[Any]) -> str:\n'),
               ('d42/generation/_regex_generator.py', '        if opcode == ANY:\n            return self._generate_any(value)\n        elif opcode == LITERAL:\n            return self._generate_literal(value)\n        elif opcode == NOT_LITERAL:\n            return self._generate_not_literal(value)\n        elif opcode == IN:\n', '        if opcode == ANY:\n            return self._generate_any(value)\n        elif opcode == LITERAL:\n            return self._generate_cased(self._generate_literal(value))\n        elif opcode == NOT_LITERAL:\n            return self._generate_not_literal(value)\n        elif opcode == IN:\n'),
               ('d42/generation/_regex_generator.py', '\n    def generate(self, pattern: str) -> str:\n        parsed = sre.parse(pattern)  # type: Any\n        return self._generate_pattern(parsed)\n', '\n    def generate(self, pattern: str) -> str:\n        parsed = sre.parse(pattern)  # type: Any\n        self._flags = parsed.state.flags\n        return self._generate_pattern(parsed)\n')]},
]

# round 8: the seeded changes that were missed on first contact, replayed against the current tree
MUTANTS += [
    {"name": 'seeded C01-P', "rule": 'MIRROR',
     "edits": [('d42/declaration/_is_ellipsis.py', 'from typing import TYPE_CHECKING, Any, TypeVar, Union\n\n__all__ = ("is_ellipsis", "EllipsisType", "TypeOrEllipsis",)\n\nif TYPE_CHECKING:\n    import builtins\n    EllipsisType = builtins.ellipsis\nelse:\n    EllipsisType = Any\n\n\ndef is_ellipsis(value: Any) -> bool:\n    return isinstance(value, type(...))\n\n\n_T = TypeVar("_T")\n', 'import sys\nfrom typing import Any, TypeVar, Union\n\n__all__ = ("is_ellipsis", "EllipsisType", "TypeOrEllipsis",)\n\nif sys.version_info >= (3, 10):\n    from types import EllipsisType\nelse:\n    EllipsisType = Any\n\n\ndef is_ellipsis(value: Any) -> bool:\n    # Ellipsis is a singleton, no need to build its type on every call\n    return value == Ellipsis\n\n\n_T = TypeVar("_T")\n')]},
]
