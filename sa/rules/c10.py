"""C10 - a declaration fails cleanly or yields a self-consistent schema.

ONLY-DECLARATIONERROR (escape analysis of every refinement method in every reachable state and argument
shape), REDECLARE (on the automaton), VALCHK (every value-independent constraint is cross-checked against a
fixed payload with a predicate at least as strong as the validator's).
"""
from __future__ import annotations

import re
from typing import Any, Dict, FrozenSet, List, Optional, Set, Tuple

from ..automaton import Outcome, Shape, TypeAutomaton, build
from ..loader import AnalysisError, Program
from ..model import Model, SchemaType
from ..partial import escapes
from ..report import Run
from ..values import Sym, Term, V
from ..visits import Config
from ..vtable import Row, canonical, comparison_operands, dedupe, extract, relation, subst

ERR = "DeclarationError"
PAYLOAD = {"ListSchema": "elements"}


def chain(ta: TypeAutomaton, state: FrozenSet[str], sh: Shape) -> str:
    lab = sh.label[4:] if sh.label.startswith("call") else "." + sh.label
    return f"schema.{ta.st.facade_name}<{','.join(sorted(state)) or 'fresh'}>{lab}"


def check(run: Run, prog: Program, model: Model, tier: str) -> None:
    run.explanation = (
        "For every built-in schema type the declaration automaton is extracted (all reachable prop-sets x all "
        "refinement methods x well-typed, Ellipsis, absent and ill-typed argument shapes). On every path of every "
        "transition: an explicit raise must construct DeclarationError; every partial operation (comparison, len, "
        "re.compile, subscripts, attribute access...) must be total for the operand kinds established by the guards "
        "on that path or be caught and converted. Redeclaration must be rejected in every state. For every state "
        "holding a fixed payload and every refinement that sets a prop the validator checks, a rejecting branch "
        "must exist whose predicate covers the validator's failing predicate for that prop.")
    run.explanation += " VALCHK-KIND: every kind the declaration admits for the fixed value (isinstance guards of the refinement, minus excluded kinds) is handed to the validator as declared and validated value; no path may build a TypeValidationError. Format specs ({x:d}) are partial operations under the operand's kind."
    run.explanation += ' VALCHK-SELF: with the declared value handed to the validator as value and as props.value, every error other than a reflexive value comparison has a deciding predicate that every accepting path of __call__ rules out. OPERATORS: declaration.union on a schema and on a definitely-non-schema operand.'
    run.explanation += ' VALCHK-ELEMENTS: ListSchema([]).len / min_len / max_len are judged against the zero fixed members (an empty element list is not `no elements declared`).'
    run.explanation += ' VALCHK-ELEMENTS also refuses an accepting path on which a member schema is taken for the `...` marker (a test by ==, which a schema operand answers by validating).'
    run.rule_text = ("obligations: (type, state, shape) transitions for the escape rule; (type, state, shape) with "
                     "overlap for REDECLARE; (type, prop, validator row) for VALCHK; non-trivial = transitions with at "
                     "least one partial operation or value predicate")
    run.trusted += ["partial-operation table of DESIGN appendix A", "Python's own arity TypeError is outside the property"]
    types = [s for s in model.concrete_builtin_schemas() if s.refinements()]
    ntrans = nstates = 0
    for st in sorted(types, key=lambda s: s.name):
        ta = build(prog, model, st, tier)
        nstates += len(ta.states)
        sets_of: Dict[str, Set[str]] = {}
        for (state, key), outs in ta.trans.items():
            for o in outs:
                if o.kind == "ACCEPT" and o.new_state is not None:
                    sets_of.setdefault(key, set()).update(o.new_state - state)
        for (state, key), outs in sorted(ta.trans.items(), key=lambda kv: (sorted(kv[0][0]), kv[0][1])):
            sh = next(s for s in ta.shapes if s.key == key)
            ntrans += len(outs)
            construct = f"{st.name}.{sh.method} {sh.label} in {{{','.join(sorted(state))}}}"
            site = st.cls.methods[sh.method].loc
            bad: List[str] = []
            und: List[str] = []
            nontriv = False
            for o in outs:
                if o.kind == "LIMIT":
                    und.append("path limit")
                    continue
                if o.kind in ("REJECT", "ESCAPE") and o.exc != ERR:
                    bad.append(f"raises {o.exc}" + (" (implicit)" if o.kind == "ESCAPE" else ""))
                p = o.path
                assert p is not None
                if p.facts:
                    nontriv = True
                for e in p.events:
                    if e.kind == "partial":
                        nontriv = True
                        for exc, why in escapes(p, e):
                            if why == "arity":
                                continue
                            bad.append(f"{getattr(exc, '__name__', exc)} may escape: {why} @ line {getattr(e.node, 'lineno', 0)}")
                    elif e.kind in ("unsupported", "unknown_callee"):
                        und.append(f"{e.kind}: {e.data}")
                    elif e.kind == "raise" and getattr(e.data.get("exc"), "unknown", False):
                        und.append("raise of an unrecognised exception value")
            if bad:
                run.violated("ONLY-DECLARATIONERROR", construct, site, "; ".join(sorted(set(bad)))[:400],
                             witness=chain(ta, state, sh))
            elif und:
                run.undecided("ONLY-DECLARATIONERROR", construct, site, "; ".join(sorted(set(und)))[:300])
            else:
                run.holds("ONLY-DECLARATIONERROR", construct, site,
                          f"{len(outs)} paths: " + ", ".join(sorted({o.kind + (':' + o.exc if o.exc else '') for o in outs})),
                          nontrivial=nontriv)
            # REDECLARE
            overlap = sets_of.get(key, set()) & state
            if overlap and sh.well_typed:
                acc = [o for o in outs if o.kind == "ACCEPT"]
                c2 = f"{st.name}.{sh.method} {sh.label} in {{{','.join(sorted(state))}}}"
                if acc:
                    run.violated("REDECLARE", c2, site,
                                 f"props {sorted(overlap)} are already declared but the call is accepted",
                                 witness=chain(ta, state, sh))
                else:
                    run.holds("REDECLARE", c2, site, f"already declared {sorted(overlap)}: rejected on all {len(outs)} paths",
                              nontrivial=True)
        _valchk(run, prog, model, st, ta, tier)
        _valchk_kind(run, prog, model, st)
    run.analysed.update({"automaton_states": nstates, "automaton_transitions": ntrans, "types": len(types)})
    run.extra["states"] = nstates
    run.extra["transitions"] = ntrans
    run.floor("ONLY-DECLARATIONERROR", 300)
    run.floor("REDECLARE", 100)
    run.floor("VALCHK", 12)
    run.floor("VALCHK-KIND", 4)
    _operators(run, prog, model)
    _valchk_list_shapes(run, prog, model, tier)


from ..vtable import LOSSY, lossy_image as _lossy_image  # noqa: E402


def _walk(t: Any) -> Any:
    yield t
    if isinstance(t, Term):
        for a in t.args:
            if isinstance(a, V):
                yield from _walk(a)
            elif hasattr(a, "items") and not isinstance(a, str):
                for x in getattr(a, "items"):
                    if isinstance(x, V):
                        yield from _walk(x)




def _declaration_excludes(prog: Program, model: Model, st: SchemaType, pred: Tuple[str, bool]) -> bool:
    """Does every accepting path of <Schema>.__call__ (from the empty state) carry the fact `pred` with the opposite
    truth value, i.e. has the declaration refused the values for which the validator's predicate holds?"""
    from ..engine import Interp
    f = st.cls.methods.get("__call__")
    if f is None:
        return False
    params = [a.arg for a in f.node.args.posonlyargs + f.node.args.args if a.arg != "self"]
    if not params:
        return False
    it = Interp(prog, model, unroll=1, max_depth=6)

    def run(i: Interp) -> V:
        sc = i.make_schema(st, (), {}, origin="self")
        return i.call_function(f, [Sym("<value>", None, ("arg", params[0]))], {}, self_val=sc)
    acc = [p for p in it.run_paths(run) if p.outcome == "return"]
    if not acc:
        return False
    want = _norm_cmp(pred[0], pred[1])
    want = (want[0], not want[1])
    for p in acc:
        if not any(_norm_cmp(fk, b) == want for fk, _, b in p.facts):
            return False
    return True


def _norm_cmp(key: str, truth: bool) -> Tuple[str, bool]:
    """eq/ne facts in one canonical spelling: ne(a, b) is not eq(a, b); operands in sorted order."""
    import re as _re
    m = _re.fullmatch(r"(eq|ne)\((.*)\)", key)
    if not m:
        return key, truth
    op, inner = m.group(1), m.group(2)
    depth = 0
    cut = -1
    for i, ch in enumerate(inner):
        if ch in "([{":
            depth += 1
        elif ch in ")]}":
            depth -= 1
        elif ch == "," and depth == 0:
            cut = i
            break
    if cut < 0:
        return key, truth
    a, b = inner[:cut].strip(), inner[cut + 1:].strip()
    a, b = sorted((a, b))
    return f"eq({a}, {b})", (truth if op == "eq" else not truth)

def _valchk_kind(run: Run, prog: Program, model: Model, st: SchemaType) -> None:
    """VALCHK-KIND: "a fixed value conforms to the schema itself" starts with its kind.  The kinds the declaration
    admits for the fixed value (read off its isinstance guards, minus the kinds it excludes) are handed to the
    validator as both the declared and the validated value: no path may report a type error."""
    from ..automaton import admitted_kinds, excluded_kinds
    from ..engine import Interp
    from ..visits import make_visitor
    if "value" not in st.props or not st.hook:
        return
    adm = admitted_kinds(prog, model, st, "value")
    f = model.visitors["Validator"].lookup(st.hook)
    c = f"{st.name}(value): every admitted kind passes the validator's type check"
    if adm is None or f is None:
        run.undecided("VALCHK-KIND", c, st.cls.methods["__call__"].loc if "__call__" in st.cls.methods else "", "admitted kinds not derivable from the guards")
        return
    exc = excluded_kinds(prog, model, st, "value")
    bad: List[str] = []
    selfbad: List[str] = []
    for k in sorted(adm):
        it = Interp(prog, model, unroll=1, max_depth=6)

        def run1(i: Interp, k: str = k) -> V:
            v = make_visitor(i, "Validator")
            w = Sym("props.value", k, ("prop", "value"))
            i.notkinds[w.uid] = list(exc)
            sc = i.make_schema(st, ("value",), {"value": w})
            return i.call_function(f, [sc], {"value": w, "path": Sym("path", "PathHolder", ("param", "path"))}, self_val=v)
        for p in it.run_paths(run1):
            for e in p.events:
                if e.kind == "construct" and e.data.get("cls") is not None and e.data["cls"].name == "TypeValidationError":
                    last = p.facts[:e.nfacts][-1] if p.facts[:e.nfacts] else None
                    bad.append(f"a declared {k} value is reported as a type error when "
                               f"{('' if last and last[2] else 'not ') + (last[0][:60] if last else '?')}")
                elif e.kind == "construct" and e.data.get("cls") is not None and e.data["cls"].name.endswith("ValidationError"):
                    # any other error about the declared value itself: the deciding predicate must be a comparison of
                    # the value with itself (NaN corner) or one the declaration rules out on every accepting path
                    from .c12 import _reflexive
                    last = p.facts[:e.nfacts][-1] if p.facts[:e.nfacts] else None
                    if last is None or _reflexive(last[1], k):
                        continue
                    pred = (last[0].replace("props.value", "<value>"), last[2])
                    if not _declaration_excludes(prog, model, st, pred):
                        selfbad.append(f"{e.data['cls'].name} for the declared value itself when {('' if pred[1] else 'not ') + pred[0][:60]}: "
                                       "no accepting path of the declaration rules that out")
    c2 = f"{st.name}(value): the validator's own checks of a fixed value are made at declaration"
    if selfbad:
        run.violated("VALCHK-SELF", c2, f.loc, "; ".join(sorted(set(selfbad)))[:300],
                     witness="s = schema.uuid4(uuid.uuid1()) is accepted and validate(s, s.props.value) reports InvalidUUIDVersionValidationError")
    else:
        run.holds("VALCHK-SELF", c2, f.loc, "no error other than a reflexive value comparison is reachable for the declared value", nontrivial=True)
    if bad:
        run.violated("VALCHK-KIND", c, f.loc, "; ".join(sorted(set(bad)))[:300],
                     witness=f"s = schema.{st.facade_name or st.name}(<value of an admitted kind, e.g. True for an int>); "
                             "validate(s, s.props.value) has errors")
    else:
        run.holds("VALCHK-KIND", c, f.loc, f"admitted {sorted(adm)}" + (f" minus {sorted(exc)}" if exc else ""), nontrivial=True)


def _operators(run: Run, prog: Program, model: Model) -> None:
    """OPERATORS: `a | b` is a declaration call too (Schema.__or__ is rebound to declaration.union): for an operand that
    is not a schema it raises DeclarationError like every other call - it neither returns something that is not a schema
    (NotImplemented makes Python raise TypeError) nor lets another exception out."""
    from ..engine import Interp
    from ..values import Ext, SchemaV
    try:
        f = prog.func("d42.declaration.union")
    except Exception:
        run.undecided("OPERATORS", "schema | other", "", "declaration.union not found")
        return
    for label, mk in (("schema | <schema>", lambda: Sym("other", "Schema", ("param", "other"))),
                      ("schema | <not a schema>", lambda: Sym("other:bad", "int", ("param", "other"), exact=True))):
        it = Interp(prog, model, unroll=1, max_depth=7)

        def run1(i: Interp, mk: Any = mk) -> V:
            return i.call_function(f, [Sym("self", "Schema", ("param", "self")), mk()], {})
        probs: List[str] = []
        n = 0
        for p in it.run_paths(run1):
            n += 1
            if p.outcome == "return":
                v = p.value
                if isinstance(v, SchemaV) or (isinstance(v, (Sym, Term)) and getattr(v, "kind", None) == "Schema"):
                    if "not a schema" in label:
                        probs.append("an operand that is not a schema is accepted")
                    continue
                probs.append(f"returns {v.key()[:40] if v is not None else None}, which is not a schema"
                             + (" (Python then raises TypeError)" if isinstance(v, Ext) and "NotImplemented" in v.key() else ""))
            elif p.outcome == "raise":
                nm = p.value.cls_name if p.value is not None else "?"
                if nm != "DeclarationError":
                    probs.append(f"raises {nm}")
                elif "not a schema" not in label:
                    probs.append("raises DeclarationError for two schemas")
        c = f"{label}"
        if probs:
            run.violated("OPERATORS", c, f.loc, "; ".join(sorted(set(probs))), witness="schema.int | 5 raises TypeError instead of DeclarationError")
        elif n:
            run.holds("OPERATORS", c, f.loc, f"{n} path(s): a schema or DeclarationError", nontrivial=True)
        else:
            run.undecided("OPERATORS", c, f.loc, "no path")


def _valchk_list_shapes(run: Run, prog: Program, model: Model, tier: str) -> None:
    """VALCHK-ELEMENTS: a fully fixed element list (no `...`) of n members conforms only to lengths that admit n.  For
    n = 0, 1, 2 the length refinements are evaluated on a schema holding such a list: an accepting path must have compared
    the length argument with the number of members (a fact over the argument), it cannot accept unconditionally - in
    particular not for the EMPTY list, which is a declared payload and not "nothing declared"."""
    from ..automaton import run_shape, shapes_for
    from ..values import ListV
    from ..visits import member
    st = model.schemas.get("ListSchema")
    if st is None:
        return
    shapes = [sh for sh in shapes_for(st, tier) if sh.method == "len" and sh.well_typed]
    for n in (0, 1, 2):
        def mk(n: int = n) -> V:
            return ListV([member(f"S{i+1}") for i in range(n)])
        for sh in shapes:
            outs = run_shape(prog, model, st, frozenset({"elements"}), sh, {"elements": mk})
            acc = [o for o in outs if o.kind == "ACCEPT"]
            site = st.cls.methods["len"].loc
            c = f"ListSchema([{', '.join('S' for _ in range(n))}]).{sh.label}: the length is checked against the {n} fixed member(s)"
            free = [o for o in acc if not any("len." in k for k, _ in o.preds)]
            # a member that is a schema is NOT the `...` marker: a path that takes one for it (a test by `==`, which for a
            # schema operand is the package's validating __eq__ and is true for a bare schema.any) counts fewer members
            confused = sorted({k for o in acc for k, b in o.preds if b and re.search(r"eq\(\.\.\., S\d+\)|eq\(S\d+, \.\.\.\)", k)})
            if confused:
                run.violated("VALCHK-ELEMENTS", c, site, f"an accepting path takes a member schema for the `...` marker ({confused[0][:60]}): whether "
                             "an element is the marker is decided by `==`, which a schema operand answers by validating `...`",
                             witness="schema.list([schema.int(1), schema.any]).len(1) is accepted although two elements are fixed")
            elif free:
                run.violated("VALCHK-ELEMENTS", c, site, "an accepting path never compares the length argument with the number of fixed members",
                             witness=f"schema.list([{', '.join('schema.int' for _ in range(n))}]).{sh.label} is accepted for any length: "
                                     "the schema's own element list does not validate against it")
            elif acc or outs:
                run.holds("VALCHK-ELEMENTS", c, site, f"{len(acc)} accepting path(s), each conditioned on the argument", nontrivial=True)
    run.floor("VALCHK-ELEMENTS", 8)

def _valchk(run: Run, prog: Program, model: Model, st: SchemaType, ta: TypeAutomaton, tier: str) -> None:
    payload = PAYLOAD.get(st.name, "value")
    if payload not in st.props or not st.hook:
        return
    pstate = frozenset({payload})
    if pstate not in ta.states:
        return
    for sh in ta.shapes:
        if not sh.well_typed or sh.method == "__call__":
            continue
        # which props does this shape set (from the empty state), bound to which argument
        outs0 = [o for o in ta.trans.get((frozenset(), sh.key), []) if o.kind == "ACCEPT" and o.new_state]
        if not outs0:
            continue
        binds: Dict[str, V] = {}
        for o in outs0:
            v = o.path.value  # type: ignore
            for k, x in v.props.vals.items():  # type: ignore
                binds[k] = x
        site = st.cls.methods[sh.method].loc
        outs = ta.trans.get((pstate, sh.key), [])
        rejects = [o for o in outs if o.kind == "REJECT"]
        for prop, argv in sorted(binds.items()):
            rows, _ = extract(prog, model, "Validator", st.hook, Config((prop,)))
            rows = [r for r in dedupe(rows) if r.error != "TypeValidationError"]
            if not rows:
                run.note("VALCHK", f"{st.name}.{sh.label} sets {prop}", site,
                         f"validator never checks `{prop}` on its own (modifier): exempt")
                continue
            for r in rows:
                construct = f"{st.name}.{sh.label} vs {payload}: {r.error}"
                if r.term is None:
                    run.undecided("VALCHK", construct, site, "validator row without predicate")
                    continue
                mapping: Dict[str, V] = {"value": Sym(f"props.{payload}"), f"props.{prop}": argv}
                if payload == "elements":
                    # a fully fixed element list pins the length of a conforming value to the number of
                    # concrete elements: len(value) := len(<concrete elements>) as the declaration computes it
                    lc = None
                    for o in outs:
                        for t, _ in o.pred_terms:
                            for sub in _walk(t):
                                if isinstance(sub, Term) and sub.op == "len" and isinstance(sub.args[0], Term) \
                                        and sub.args[0].op == "listcomp" and "props.elements" in sub.key():
                                    lc = sub
                    if lc is not None:
                        mapping["len(value)"] = lc
                tv = subst(r.term, mapping)
                both = [o for o in rejects if any(argv.key() in k and f"props.{payload}" in k for k, _ in o.preds)]
                cv = canonical(r.term, r.polarity)
                if cv is not None:
                    km = {k: v.key() for k, v in mapping.items()}
                    cv = (cv[0], km.get(cv[1], cv[1]), km.get(cv[2], cv[2]))
                ops = comparison_operands(tv) if cv is None else None
                if cv is not None:
                    hit = [o for o in rejects if o.pred_terms and canonical(o.pred_terms[-1][0], o.pred_terms[-1][1]) == cv]
                    unchecked = [o for o in outs if o.kind == "ACCEPT" and not any(canonical(t, not b) == cv for t, b in o.pred_terms)]
                    if hit and unchecked:
                        cond = [("" if b else "not ") + k for k, b in unchecked[0].preds][:3]
                        run.violated("VALCHK", construct, site,
                                     f"an accepting path of {sh.label} never evaluates {cv} (path condition: {', '.join(cond)[:150] or 'none'})",
                                     witness=f"schema.{st.facade_name}(v).{sh.label} is accepted on that path although the validator rejects v "
                                             "(e.g. a falsy payload such as '')")
                    elif hit:
                        run.holds("VALCHK", construct, site, f"declaration rejects on the validator's own predicate {cv}", nontrivial=True)
                    elif both:
                        run.undecided("VALCHK", construct, site,
                                      f"a rejecting branch relates the argument to the payload but not in the canonical form {cv}")
                    else:
                        run.violated("VALCHK", construct, site,
                                     f"no rejecting branch relates `{argv.key()}` to the fixed {payload} (validator fails on {cv})",
                                     witness=f"schema.{st.facade_name}(v).{sh.label} with a contradicting argument is accepted")
                elif ops is not None:
                    x, y = ops
                    rv = relation(tv, bool(r.polarity), x, y)
                    rd: Set[str] = set()
                    for o in rejects:
                        if not o.pred_terms:
                            continue
                        t, b = o.pred_terms[-1]
                        rr = relation(t, b, x, y)
                        if rr is not None:
                            rd |= rr
                    leaky = None
                    if rv is not None:
                        for o in outs:
                            if o.kind != "ACCEPT":
                                continue
                            if payload == "elements" and any(k.startswith("eq(len(listcomp(") and "len(props.elements)" in k and b_ is False
                                                             for k, b_ in o.preds):
                                continue        # element list with `...`: not a fully fixed payload
                            ro = {"LT", "EQ", "GT"}
                            for t, b in o.pred_terms:
                                rr = relation(t, b, x, y)
                                if rr is not None:
                                    ro &= set(rr) | {r_ for r_ in rr if r_.endswith("_PART")}
                                    ro = {r_ for r_ in ro if not r_.endswith("_PART")} if False else ro
                            if ro & set(rv):
                                cond = [("" if b else "not ") + k for k, b in o.preds if not k.startswith(("lt(", "eq("))]
                                leaky = (sorted(ro & set(rv)), cond)
                    # the same obligation in every other state that holds the payload (after further refinements): an
                    # accepting path there must still exclude the validator's failing relation between argument and payload
                    if rv is not None and rd and rv <= rd and leaky is None and payload != "elements":
                        for S in sorted(ta.states, key=lambda z: (len(z), sorted(z))):
                            if payload not in S or S == pstate or leaky is not None:
                                continue
                            for o in ta.trans.get((S, sh.key), []):
                                if o.kind != "ACCEPT":
                                    continue
                                ro = {"LT", "EQ", "GT"}
                                for t, b in o.pred_terms:
                                    rr = relation(t, b, x, y)
                                    if rr is not None:
                                        ro &= set(rr)
                                if ro & set(rv):
                                    leaky = (sorted(ro & set(rv)), [f"the schema already declares {{{', '.join(sorted(S - {payload}))}}}"])
                                    break
                    if rv is not None and rd and rv <= rd and leaky is not None:
                        run.violated("VALCHK", construct, site,
                                     f"an accepting path of {sh.label} does not establish the check: ({x} ? {y}) may be {leaky[0]} "
                                     f"when {', '.join(leaky[1])[:120] or 'no condition on the payload holds'}",
                                     witness=f"schema.{st.facade_name}(v).{sh.label} is accepted for a payload on that path although the "
                                             "validator rejects it (e.g. a falsy payload such as '' or 0)")
                    elif rv is not None and rd and rv <= rd:
                        run.holds("VALCHK", construct, site,
                                  f"validator fails on {sorted(rv)} of ({x} ? {y}); declaration rejects {sorted(rd)}",
                                  nontrivial=True)
                    elif rv is not None and rd:
                        run.violated("VALCHK", construct, site,
                                     f"validator fails when ({x} ? {y}) in {sorted(rv)} but the declaration only rejects {sorted(rd)}",
                                     witness=f"schema.{st.facade_name}(v).{sh.label} with the boundary case {sorted(rv - rd)} is accepted "
                                             "and the schema rejects its own value")
                    elif both:
                        run.undecided("VALCHK", construct, site, "a rejecting branch relates the argument to the fixed payload "
                                      "but its predicate has a shape the rule cannot compare with the validator's")
                    else:
                        run.violated("VALCHK", construct, site,
                                     f"no rejecting branch relates `{argv.key()}` to the fixed {payload}",
                                     witness=f"schema.{st.facade_name}(v).{sh.label} with a contradicting argument is accepted")
                else:
                    if both:
                        run.undecided("VALCHK", construct, site, "validator predicate of unrecognised shape; a rejecting branch "
                                      "relating argument and payload exists")
                    else:
                        run.violated("VALCHK", construct, site,
                                     f"no rejecting branch relates `{argv.key()}` to the fixed {payload}",
                                     witness=f"schema.{st.facade_name}(v).{sh.label} with a contradicting argument is accepted")
    # LOSSY cross-check: in any reachable state holding the payload (e.g. after a modifier such as precision), a bound
    # must be compared with the payload itself; comparing it with round(payload, n) / int(payload) / ... leaves a gap
    # between the payload and its image where the schema rejects its own value.
    lossy_done: Set[str] = set()
    for state in ta.states:
        if payload not in state:
            continue
        for sh in ta.shapes:
            if not sh.well_typed or sh.method == "__call__":
                continue
            for o in ta.trans.get((state, sh.key), []):
                if o.kind != "REJECT" or not o.pred_terms:
                    continue
                t, b = o.pred_terms[-1]
                if not (isinstance(t, Term) and t.op in ("lt", "eq")):
                    continue
                for side in t.args:
                    lossy = _lossy_image(side, f"props.{payload}")
                    if lossy and sh.label not in lossy_done:
                        lossy_done.add(sh.label)
                        run.violated("VALCHK", f"{st.name}.{sh.label} vs {payload}: compared through {lossy}", st.cls.methods[sh.method].loc,
                                     f"in state {{{','.join(sorted(state))}}} the argument is checked against {side.key()[:70]}, a lossy image of the "
                                     f"fixed {payload}, while the validator compares the {payload} itself",
                                     witness=f"schema.{st.facade_name}(3.149).precision(2).{sh.label.split('(')[0]}(3.15) is accepted and rejects its own value")
    # value can only come first (or must be checked against existing constraints)
    for state in ta.states:
        if payload in state or not state:
            continue
        for sh in ta.shapes:
            if sh.method != "__call__" or not sh.well_typed:
                continue
            outs = ta.trans.get((state, sh.key), [])
            acc = [o for o in outs if o.kind == "ACCEPT" and o.new_state and payload in o.new_state]
            if not acc:
                continue
            checked_props = []
            for prop in sorted(state):
                rows, _ = extract(prog, model, "Validator", st.hook, Config((prop,)))
                if any(r.error != "TypeValidationError" for r in rows):
                    checked_props.append(prop)
            missing = [p for p in checked_props
                       if not any(o.kind == "REJECT" and any(f"props.{p}" in k for k, _ in o.preds) for o in outs)]
            construct = f"{st.name}.{sh.label} in {{{','.join(sorted(state))}}}"
            site = st.cls.methods[sh.method].loc
            if missing:
                run.violated("VALCHK-CALL", construct, site,
                             f"a value can be fixed after {missing} were declared and is not checked against them",
                             witness=f"schema.{st.facade_name}.<{','.join(sorted(state))}>(contradicting value)")
            else:
                run.holds("VALCHK-CALL", construct, site, "value fixed after constraints is checked against each of them", nontrivial=True)


S = "d42/declaration/types/_str_schema.py"
I = "d42/declaration/types/_int_schema.py"
L = "d42/declaration/types/_list_schema.py"
MUTANTS = [
    {"name": "union returns NotImplemented for a non-schema operand (seeded C10-K)", "rule": "OPERATORS",
     "edits": [("d42/declaration/__init__.py", "def union(self: GenericSchema, other: Any) -> AnySchema:\n", "def union(self: GenericSchema, other: Any) -> AnySchema:\n    if not isinstance(other, Schema):\n        return NotImplemented  # type: ignore[return-value]\n")]},
    {"name": "uuid4 declaration accepts any UUID version again (fix f203471 reverted)", "rule": "VALCHK-SELF",
     "edits": [("d42/declaration/types/_uuid4_schema.py", "        if value.version != 4:\n", "        if False:\n")]},
    {"name": "len error helpers use :d and the exact-len check runs before the type check (seeded C10-I)", "rule": "ONLY-DECLARATIONERROR",
     "edits": [("d42/declaration/errors/__init__.py", "    message = f\"`{schema!r}` len must be equal to {len(value)}, {length} given\"", "    message = f\"`{schema!r}` len must be equal to {len(value):d}, {length:d} given\""),
               ("d42/declaration/types/_str_schema.py", "        if not isinstance(length, int):\n            raise make_invalid_type_error(self, length, (int,))\n\n        if (props.value is not Nil) and (len(props.value) != length):\n            raise make_incorrect_len_error(self, props.value, length)\n",
                "        if props.value is not Nil:\n            if len(props.value) != length:\n                raise make_incorrect_len_error(self, props.value, length)\n        elif not isinstance(length, int):\n            raise make_invalid_type_error(self, length, (int,))\n")]},
    {"name": "neutral: len error helper formats its int arguments with :d (type check still first)", "expect": "SILENT",
     "edits": [("d42/declaration/errors/__init__.py", "    message = f\"`{schema!r}` len must be equal to {len(value)}, {length} given\"", "    message = f\"`{schema!r}` len must be equal to {len(value):d}, {length:d} given\"")]},
    {"name": "int validator refuses bools although the declaration admits them as a fixed value (seeded C10-J)", "rule": "VALCHK-KIND",
     "edits": [("d42/validation/_validator.py", "        if error := self._validate_type(path, value, int):\n            return result.add_error(error)\n\n        if schema.props.value is not Nil:\n            if error := self._validate_value(path, value, schema.props.value):\n                return result.add_error(error)\n\n        if schema.props.min is not Nil:",
                "        if isinstance(value, bool):\n            return result.add_error(TypeValidationError(path, value, int))\n        if error := self._validate_type(path, value, int):\n            return result.add_error(error)\n\n        if schema.props.value is not Nil:\n            if error := self._validate_value(path, value, schema.props.value):\n                return result.add_error(error)\n\n        if schema.props.min is not Nil:")]},
    {"name": "a declared opposite bound shadows the check against the fixed value", "rule": "VALCHK",
     "edits": [(I, "        if (self.props.value is not Nil) and (value > self.props.value):\n            raise make_incorrect_min_error(self, self.props.value, value)\n", "        upper = self.props.max if (self.props.max is not Nil) else self.props.value\n        if (upper is not Nil) and (value > upper):\n            raise make_incorrect_min_error(self, upper, value)\n"),
               (I, "        if (self.props.value is not Nil) and (value < self.props.value):\n            raise make_incorrect_max_error(self, self.props.value, value)\n", "        lower = self.props.min if (self.props.min is not Nil) else self.props.value\n        if (lower is not Nil) and (value < lower):\n            raise make_incorrect_max_error(self, lower, value)\n")]},
    {"name": "value-vs-alphabet check deleted", "rule": "VALCHK",
     "edits": [(S, "        if self.props.value is not Nil:\n            missing_letters = {x for x in self.props.value if x not in letters}\n            if len(missing_letters) > 0:\n                message = f\"`{self!r}` alphabet is missing letters: \"\n                message += repr(\"\".join(sorted(missing_letters)))\n                raise DeclarationError(message)\n\n", "")]},
    {"name": "isinstance guard of IntSchema.min deleted", "rule": "ONLY-DECLARATIONERROR",
     "edits": [(I, "    def min(self, /, value: int) -> \"IntSchema\":\n        if not isinstance(value, int):\n            raise make_invalid_type_error(self, value, (int,))\n", "    def min(self, /, value: int) -> \"IntSchema\":\n")]},
    {"name": "except narrowed back to re.error (F16 reverted)", "rule": "ONLY-DECLARATIONERROR",
     "edits": [(S, "        except (re.error, OverflowError) as e:", "        except re.error as e:")]},
    {"name": "str min_len check uses >= (rejects boundary only... weaker: uses > len+1)", "rule": "VALCHK",
     "edits": [(S, "        if (props.value is not Nil) and (min_length > len(props.value)):", "        if (props.value is not Nil) and (min_length > len(props.value) + 1):")]},
    {"name": "int max check flipped to <=? no: dropped for value", "rule": "VALCHK",
     "edits": [(I, "        if (self.props.value is not Nil) and (value < self.props.value):\n            raise make_incorrect_max_error(self, self.props.value, value)\n", "")]},
    {"name": "contains raises ValueError", "rule": "ONLY-DECLARATIONERROR",
     "edits": [(S, "                message = f\"`{self!r}` does not contain {substr!r}\"\n                raise DeclarationError(message)", "                message = f\"`{self!r}` does not contain {substr!r}\"\n                raise ValueError(message)")]},
    {"name": "len() redeclare guard for min/max dropped in list", "rule": "REDECLARE",
     "edits": [(L, "        if self.props.len is not Nil:\n            raise make_already_declared_error(self)\n\n        if (self.props.min_len is not Nil) or (self.props.max_len is not Nil):\n            raise make_already_declared_error(self)\n\n        props = self.props",
                "        if self.props.len is not Nil:\n            raise make_already_declared_error(self)\n\n        props = self.props")]},
    {"name": "str value may follow a max length unchecked", "rule": "VALCHK-CALL",
     "edits": [(S, "        if (self.props.min_len is not Nil) or (self.props.max_len is not Nil):\n            raise make_already_declared_error(self)\n\n        if self.props.alphabet is not Nil:",
                "        if self.props.min_len is not Nil:\n            raise make_already_declared_error(self)\n\n        if self.props.alphabet is not Nil:")]},
    {"name": "list element type check removed (bad member crashes later)", "rule": "ONLY-DECLARATIONERROR", "analysis_error_ok": False,
     "edits": [(L, "        if len(elements_or_type) == 2 and \\\n           is_ellipsis(elements_or_type[0]) and is_ellipsis(elements_or_type[-1]):", "        if is_ellipsis(elements_or_type[0]) and is_ellipsis(elements_or_type[-1]) and len(elements_or_type) == 2:")]},
    {"name": "neutral: int min check rewritten as not <=", "expect": "SILENT",
     "edits": [(I, "        if (self.props.value is not Nil) and (value > self.props.value):", "        if (self.props.value is not Nil) and not (value <= self.props.value):")]},
    {"name": "neutral: message reworded", "expect": "SILENT",
     "edits": [(S, "                message = f\"`{self!r}` does not contain {substr!r}\"", "                message = f\"{substr!r} is not a substring of `{self!r}`\"")]},
    {"name": "neutral: type check helper extracted", "expect": "SILENT",
     "edits": [(I, "    def min(self, /, value: int) -> \"IntSchema\":\n        if not isinstance(value, int):\n            raise make_invalid_type_error(self, value, (int,))\n",
                "    def _check_int(self, value: int) -> None:\n        if not isinstance(value, int):\n            raise make_invalid_type_error(self, value, (int,))\n\n    def min(self, /, value: int) -> \"IntSchema\":\n        self._check_int(value)\n")]},
]

MUTANTS += [
    {"name": "truthiness test on the fixed str value (empty string skips the length checks)", "rule": "VALCHK",
     "edits": [(S, "        if (props.value is not Nil) and (len(props.value) != length):", "        if props.value and (len(props.value) != length):")]},
    {"name": "truthiness test on the fixed value before the alphabet check", "rule": "VALCHK",
     "edits": [(S, "        if self.props.value is not Nil:\n            missing_letters", "        if self.props.value:\n            missing_letters")]},
]

MUTANTS += [
    {"name": "float bounds compared with the value rounded to the declared precision", "rule": "VALCHK",
     "edits": [("d42/declaration/types/_float_schema.py", "        if (self.props.value is not Nil) and (value > self.props.value):\n            raise make_incorrect_min_error(self, self.props.value, value)",
                "        fixed = self.props.value\n        if (fixed is not Nil) and (self.props.precision is not Nil):\n            fixed = round(fixed, self.props.precision)\n        if (fixed is not Nil) and (value > fixed):\n            raise make_incorrect_min_error(self, self.props.value, value)")]},
]

# round 7: the seeded changes that were missed on first contact, replayed against the current tree
MUTANTS += [
    {"name": 'seeded C10-N', "rule": 'VALCHK-ELEMENTS',
     "edits": [('d42/declaration/types/_list_schema.py', 'import sys\nfrom typing import Any, List, Union\n\nfrom niltype import Nil, Nilable\n\n', 'import sys\nfrom typing import Any, List, Tuple, Union\n\nfrom niltype import Nil, Nilable\n\n'),
               ('d42/declaration/types/_list_schema.py', '\n        return self.__class__(self.props.update(elements=list(elements_or_type)))\n\n    def __declare_len(self, props: ListProps, length: Any) -> ListProps:\n        if not isinstance(length, int):\n            raise make_invalid_type_error(self, length, (int,))\n\n        if props.elements is not Nil:\n            concrete_elements = [x for x in props.elements if not is_ellipsis(x)]\n            if len(props.elements) == len(concrete_elements):\n                if length != len(concrete_elements):\n                    raise make_incorrect_len_error(self, concrete_elements, length)\n            else:\n', '\n        return self.__class__(self.props.update(elements=list(elements_or_type)))\n\n    def __concrete_elements(self,\n                            props: ListProps) -> Nilable[Tuple[List[GenericSchema], bool]]:\n        elements = props.elements\n        if (elements is Nil) or (len(elements) == 0):\n            return Nil\n        # `...` can only be the first and/or the last element (see __call__)\n        start = 1 if is_ellipsis(elements[0]) else 0\n        stop = -1 if is_ellipsis(elements[-1]) else len(elements)\n        concrete_elements = elements[start:stop]\n        return concrete_elements, len(concrete_elements) < len(elements)\n\n    def __declare_len(self, props: ListProps, length: Any) -> ListProps:\n        if not isinstance(length, int):\n            raise make_invalid_type_error(self, length, (int,))\n\n        declared = self.__concrete_elements(props)\n        if declared is not Nil:\n            concrete_elements, has_ellipsis = declared\n            if not has_ellipsis:\n                if length != len(concrete_elements):\n                    raise make_incorrect_len_error(self, concrete_elements, length)\n            else:\n'),
               ('d42/declaration/types/_list_schema.py', '        if not isinstance(min_length, int):\n            raise make_invalid_type_error(self, min_length, (int,))\n\n        if props.elements is not Nil:\n            concrete_elements = [x for x in props.elements if not is_ellipsis(x)]\n            if min_length > len(concrete_elements):\n                raise make_incorrect_min_len_error(self, concrete_elements, min_length)\n\n', '        if not isinstance(min_length, int):\n            raise make_invalid_type_error(self, min_length, (int,))\n\n        declared = self.__concrete_elements(props)\n        if declared is not Nil:\n            concrete_elements, _ = declared\n            if min_length > len(concrete_elements):\n                raise make_incorrect_min_len_error(self, concrete_elements, min_length)\n\n'),
               ('d42/declaration/types/_list_schema.py', '        if not isinstance(max_length, int):\n            raise make_invalid_type_error(self, max_length, (int,))\n\n        if props.elements is not Nil:\n            concrete_elements = [x for x in props.elements if not is_ellipsis(x)]\n            if max_length < len(concrete_elements):\n                raise make_incorrect_max_len_error(self, concrete_elements, max_length)\n\n', '        if not isinstance(max_length, int):\n            raise make_invalid_type_error(self, max_length, (int,))\n\n        declared = self.__concrete_elements(props)\n        if declared is not Nil:\n            concrete_elements, _ = declared\n            if max_length < len(concrete_elements):\n                raise make_incorrect_max_len_error(self, concrete_elements, max_length)\n\n')]},
]

# round 8: the seeded changes that were missed on first contact, replayed against the current tree
MUTANTS += [
    {"name": 'seeded C10-P', "rule": 'VALCHK-ELEMENTS',
     "edits": [('d42/declaration/_is_ellipsis.py', 'from typing import TYPE_CHECKING, Any, TypeVar, Union\n\n__all__ = ("is_ellipsis", "EllipsisType", "TypeOrEllipsis",)\n\nif TYPE_CHECKING:\n    import builtins\n    EllipsisType = builtins.ellipsis\nelse:\n', 'import sys\nfrom typing import TYPE_CHECKING, Any, TypeVar, Union\n\n__all__ = ("is_ellipsis", "EllipsisType", "TypeOrEllipsis",)\n\nif sys.version_info >= (3, 10):\n    from types import EllipsisType\nelif TYPE_CHECKING:\n    import builtins\n    EllipsisType = builtins.ellipsis\nelse:\n'),
               ('d42/declaration/_is_ellipsis.py', '\n\ndef is_ellipsis(value: Any) -> bool:\n    return isinstance(value, type(...))\n\n\n_T = TypeVar("_T")\n', '\n\ndef is_ellipsis(value: Any) -> bool:\n    # Ellipsis is a singleton, no need to go through its (unnamed before 3.10) type\n    return bool(value == Ellipsis)\n\n\n_T = TypeVar("_T")\n')]},
]
