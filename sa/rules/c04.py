"""C04 - substitution pins the given value into the schema (structural clauses).

PIN (scalars), DICT-TABLE (table-transformer rule on token tables), LIST-COVER (every position of the value is
carried), ANY-NONEMPTY, VALUE-FIRST (generator and validator honour `value`).
"""
from __future__ import annotations

from typing import Any, Dict, List, Optional, Set, Tuple

from ..interp import Event, Path
from ..loader import AnalysisError, Program
from ..model import Model
from ..report import Run
from ..values import (ELL, Const, DictV, ListV, PropsV, SchemaV, Spread, Sym, Term, TupleV, V, is_ell)
from ..visits import list_shapes, Config, configs_for, run_visit, substitutor_ctx
from ..vtable import extract
from .c02 import TYPE
from .c12 import validated

SCALARS = ("visit_bool", "visit_int", "visit_float", "visit_str", "visit_bytes", "visit_uuid4", "visit_datetime", "visit_date")


def result_props(p: Path) -> Optional[PropsV]:
    v = p.value
    if isinstance(v, SchemaV) and isinstance(v.props, PropsV):
        return v.props
    return None


_PRE_EXTRA: Dict[Tuple[int, str], bool] = {}


def _prevalidation_reports_extra(prog: Program, model: Model, cfg: Config) -> bool:
    """Does SubstitutorValidator.visit_dict, under this key table, report an ExtraKeyValidationError on some path (so
    that a value with undeclared keys never reaches the substitution proper)?"""
    ck = (id(prog), cfg.label)
    if ck not in _PRE_EXTRA:
        rows, _ = extract(prog, model, "SubstitutorValidator", "visit_dict", cfg, 1)
        _PRE_EXTRA[ck] = any(r.error == "ExtraKeyValidationError" for r in rows)
    return _PRE_EXTRA[ck]


def dict_results(prog: Program, model: Model, cfg: Config) -> List[Tuple[Path, Dict[str, Optional[bool]], Optional[DictV]]]:
    """Return paths of Substitutor.visit_dict with, per original key, whether it was given in the value."""
    out = []
    for p in run_visit(prog, model, "Substitutor", "visit_dict", cfg, substitutor_ctx, unroll=1):
        if p.outcome != "return":
            continue
        given: Dict[str, Optional[bool]] = {}
        unified: Dict[str, str] = {}
        for k, t, b in p.facts:
            if isinstance(t, Term) and t.op == "in" and t.args[1].key() == "value":
                given[t.args[0].key()] = b
        # the other direction: a key taken from the value was unified with a declared key
        for e in p.events:
            if e.kind == "cond" and e.data.get("unified") is not None:
                a = e.data["term"].args[0]
                if isinstance(a, Sym) and a.origin and a.origin[0] == "key" and a.origin[1].key() == "value":
                    given[e.data["unified"].key()] = True
                    unified[a.key()] = e.data["unified"].key()
        p.unified = unified  # type: ignore
        pr = result_props(p)
        tbl = pr.vals.get("keys") if pr is not None else None
        out.append((p, given, tbl if isinstance(tbl, DictV) else None))
    return out


def check(run: Run, prog: Program, model: Model, tier: str) -> None:
    run.explanation = (
        "Substitutor.visit_* is evaluated abstractly under every prop-set, key table and element-list shape with a "
        "symbolic value. Scalars: the result is schema.__class__(schema.props.update(value=<the value parameter>)). "
        "Dict: on every return path the result table carries every original key; a key given in the value gets a "
        "member derived from substituting value[key] (or the original member for a `...` placeholder) and becomes "
        "required; an absent key keeps its entry; the relaxed marker survives. List: the element list is built from "
        "a loop over all of the value or by _substitute_elements, whose window / suffix / prefix index ranges "
        "partition range(len(value)). any: never empty. The generator returns props.value whenever it is set and the "
        "validator compares with it. That the chosen window is the right one on concrete values is not decided."
        " Two members deep, the member pinned at position j derives from value[j] (no equality-keyed memo); an exact element list generates one member per element under every length prop-set; the conversion used for free-form positions is not memoised by equality.")
    run.explanation += " GIVEN-KEYS (inside DICT-TABLE): a key of the value that the table does not declare is refused - a condition over all keys of the value is tested on the path, or the pre-validation of that table has an extra-key row. NATIVE-CONTRACT: C14's ARM/FINAL obligations for from_native are re-derived, because free positions rely on them."
    run.explanation += ' CONTAINER-VALIDATED: every list / dict returned by Substitutor.visit_list / visit_dict was handed to the pre-validation on the same path (a flag in kwargs that skips it is a violation).'
    run.explanation += " KIND-GUARD: the validator's first decision for every kind the conversion produces is isinstance(value, K) - the conversion classifies by isinstance, an exact type(value) is K would refuse the IntEnum member / str subclass it pinned."
    run.rule_text = "obligations per (visit method, prop-set/shape) and clause; non-trivial = result tables computed on interpreter paths"
    from ..entry import entry_transparent
    entry_transparent(run, prog, model, "validate", "VALIDATE-ENTRY")
    entry_transparent(run, prog, model, "substitute", "SUBSTITUTE-ENTRY")
    # ---------------------------------------------------------------- PIN
    pin_obligations(run, prog, model, tier, "PIN")
    run.floor("PIN", 20)
    _rest(run, prog, model, tier)


def pin_obligations(run: Run, prog: Program, model: Model, tier: str, rule: str) -> None:
    """Scalars: the result is schema.__class__(schema.props.update(value=<the validated value>)).  Also used by C01:
    a generator that hands out props.value relies on every producer of that payload (the declaration: C10.VALCHK; the
    substitutor: this rule) storing a value that was validated against the other props."""
    for hook in SCALARS:
        f = model.visitors["Substitutor"].lookup(hook)
        st = model.by_hook[hook]
        for cfg in configs_for(st, tier):
            paths = run_visit(prog, model, "Substitutor", hook, cfg, substitutor_ctx, unroll=1)
            rets = [p for p in paths if p.outcome == "return"]
            construct = f"Substitutor.{hook} {cfg.label}"
            probs: List[str] = []
            for p in rets:
                v = p.value
                pr = result_props(p)
                if not isinstance(v, SchemaV) or pr is None:
                    probs.append(f"returns {v.key()[:50] if v is not None else None}")
                    continue
                if v.cls is None or v.cls.qualname != st.cls.qualname:
                    probs.append("result is not built with schema.__class__")
                pin = pr.vals.get("value")
                # K(value) for the kind K the validation established is an equal value of that kind: it pins the same data
                kname = TYPE.get(hook)
                while kname and isinstance(pin, Term) and pin.op == "call" and len(pin.args) == 2 \
                        and pin.args[0] == f"builtins.{kname}" and isinstance(pin.args[1], V) and validated(p) is True:
                    pin = pin.args[1]
                if pin is None or pin.key() != "value":
                    probs.append(f"result pins {pin.key()[:40] if pin is not None else 'nothing'} instead of the substituted value")
            if not rets:
                probs.append("no path returns a schema")
            if probs:
                run.violated(rule, construct, f.loc, "; ".join(sorted(set(probs)))[:300],
                             witness=f"fake(schema % v) != v / validate(schema % v, v) fails for a conforming v")
            else:
                run.holds(rule, construct, f.loc, "schema.__class__(schema.props.update(value=value))", nontrivial=True)


def _rest(run: Run, prog: Program, model: Model, tier: str) -> None:
    # ---------------------------------------------------------------- DICT-TABLE
    fd = model.visitors["Substitutor"].lookup("visit_dict")
    st = model.by_hook["visit_dict"]
    for cfg in configs_for(st, tier):
        construct = f"Substitutor.visit_dict {cfg.label}"
        orig = cfg.build().get("keys")
        rs = dict_results(prog, model, cfg)
        if not rs:
            run.undecided("DICT-TABLE", construct, fd.loc, "no returning path")
            continue
        probs = []
        plain_orig = [(k, tv) for k, tv in orig.pairs() if not is_ell(k)] if isinstance(orig, DictV) else []
        closed_empty = isinstance(orig, DictV) and not plain_orig and not any(is_ell(k) for k, _ in orig.pairs())
        for p, given, tbl in rs:
            if tbl is None:
                probs.append("result has no concrete key table")
                continue
            if not plain_orig and not closed_empty:
                # untyped / only-relaxed dict: every item of the value becomes a required from_native member
                for k, tv in tbl.pairs():
                    if is_ell(k):
                        continue
                    if not (isinstance(tv, TupleV) and len(tv.items) == 2 and isinstance(tv.items[1], Const) and tv.items[1].value is False):
                        probs.append(f"entry for {k.key()[:30]} is not (schema, required)")
                    elif "native(" not in tv.items[0].key() and not is_ell(tv.items[0]) and not any(
                            b and fk == f"isinstance({tv.items[0].key()}, ellipsis)" for fk, _, b in p.facts):
                        probs.append(f"member for {k.key()[:30]} is not derived from the value ({tv.items[0].key()[:40]})")
                if isinstance(orig, DictV) and any(is_ell(k) for k, _ in orig.pairs()) and tbl.lookup(ELL) is None:
                    probs.append("relaxed marker lost")
                continue
            for k, tv in plain_orig:
                got = tbl.lookup(k)
                if got is None:
                    probs.append(f"key {k.key()} is missing from the result")
                    continue
                if not (isinstance(got, TupleV) and len(got.items) == 2):
                    probs.append(f"entry of {k.key()} is malformed")
                    continue
                gm, gf = got.items
                om, of = tv.items
                if given.get(k.key()) is True:
                    derived = (isinstance(gm, Sym) and gm.origin and gm.origin[0] == "accept" and gm.origin[1].key() == om.key()
                               and isinstance(gm.origin[2], Term) and gm.origin[2].op == "getitem" and gm.origin[2].args[1].key() == k.key())
                    if not derived and isinstance(gm, Sym) and gm.origin and gm.origin[0] == "accept" and gm.origin[1].key() == om.key():
                        va = gm.origin[2]
                        if isinstance(va, Sym) and va.origin and va.origin[0] == "val" and va.origin[1].key() == "value" \
                                and getattr(p, "unified", {}).get(va.origin[2].key()) == k.key():
                            derived = True      # value.items(): the value paired with the key that was unified with k
                    placeholder = gm.key() == om.key()
                    if not (derived or placeholder):
                        probs.append(f"member of given key {k.key()} is {gm.key()[:40]}, not the substitution of value[{k.key()}] into {om.key()}")
                    if not (isinstance(gf, Const) and gf.value is False):
                        probs.append(f"given key {k.key()} is not made required")
                else:
                    if gm.key() != om.key() or gf.key() != of.key():
                        probs.append(f"unspecified key {k.key()} changed from ({om.key()}, {of.key()}) to ({gm.key()[:30]}, {gf.key()})")
            had_rel = any(is_ell(k) for k, _ in orig.pairs())
            has_rel = tbl.lookup(ELL) is not None
            # GIVEN-KEYS: "dicts on every key given" - a key of the value that the table does not declare must make the
            # substitution fail: either this path tested a condition over ALL keys of the value, or the result table
            # was built from all of them, or (closed tables) the pre-validation reports undeclared keys
            all_keys_seen = any(any(m in fk for m in ("items(value)", "keys(value)", "src(value)", "set(value)", "builtins.set, value"))
                                for fk, _, _ in p.facts) or any("@value" in k.key() for k, _ in tbl.pairs()) \
                or any(e.kind in ("loop", "comp_iter") and isinstance(e.data.get("iterable"), V)
                       and e.data["iterable"].key() in ("items(value)", "keys(value)", "value", "src(value)", "set(value)")
                       for e in p.events)
            if not all_keys_seen and not (not had_rel and _prevalidation_reports_extra(prog, model, cfg)):
                probs.append("a key given in the value but not declared in the table is neither refused (no test over all keys of "
                             "the value on this path" + ("" if had_rel else ", no extra-key report in the pre-validation of this table")
                             + ") nor pinned")
            if had_rel and not has_rel:
                probs.append("relaxed marker lost")
            if has_rel and not had_rel:
                probs.append("relaxed marker introduced")
        if probs:
            run.violated("DICT-TABLE", construct, fd.loc, "; ".join(sorted(set(probs)))[:400],
                         witness="a partial dict substitution loses a key, its optionality or the substituted data")
        else:
            run.holds("DICT-TABLE", construct, fd.loc, f"{len(rs)} return paths: all keys carried; given keys substituted & required", nontrivial=True)
    run.floor("DICT-TABLE", 8)

    # ---------------------------------------------------------------- LIST-COVER
    _list_cover(run, prog, model, tier)

    # ---------------------------------------------------------------- ANY-NONEMPTY
    fa = model.visitors["Substitutor"].lookup("visit_any")
    for cfg in configs_for(model.by_hook["visit_any"], tier):
        paths = run_visit(prog, model, "Substitutor", "visit_any", cfg, substitutor_ctx, unroll=1)
        bad = False
        for p in paths:
            pr = result_props(p) if p.outcome == "return" else None
            if pr is not None:
                t = pr.vals.get("types")
                if isinstance(t, TupleV) and t.concrete() and not t.items:
                    bad = True
        c = f"Substitutor.visit_any {cfg.label}"
        if bad:
            run.violated("ANY-NONEMPTY", c, fa.loc, "a return path yields any() with no alternatives",
                         witness="schema.any(schema.dict({'a': schema.int, ...: ...})) % {'a': 1, 'b': 2} is unusable")
        else:
            run.holds("ANY-NONEMPTY", c, fa.loc, "non-empty on every return path", nontrivial=True)

    # ---------------------------------------------------------------- VALUE-FIRST (generator) / value row (validator)
    for hook in SCALARS:
        st = model.by_hook[hook]
        g = model.visitors["Generator"].lookup(hook)
        paths = run_visit(prog, model, "Generator", hook, Config(tuple(st.props)), None, unroll=1)
        ok = bool(paths) and all(p.outcome == "return" and p.value is not None and p.value.key() == "props.value" for p in paths)
        c = f"Generator.{hook}: value set"
        if ok:
            run.holds("VALUE-FIRST", c, g.loc, "returns exactly props.value", nontrivial=True)
        else:
            got = sorted({p.value.key()[:40] if p.value is not None else p.outcome for p in paths})
            run.violated("VALUE-FIRST", c, g.loc, f"with a fixed value the generator returns {got}",
                         witness=f"fake(schema % v) != v")
        rows, _ = extract(prog, model, "Validator", hook, Config(("value",)))
        if any(r.error == "ValueValidationError" for r in rows):
            run.holds("VALUE-FIRST", f"Validator.{hook}: value set", g.loc, "a differing value is rejected", nontrivial=True)
        else:
            run.violated("VALUE-FIRST", f"Validator.{hook}: value set", g.loc, "the pinned value is not compared",
                         witness="schema % v accepts values different from v")
    run.floor("VALUE-FIRST", 10)


def _list_cover(run: Run, prog: Program, model: Model, tier: str) -> None:
    f = model.visitors["Substitutor"].lookup("visit_list")
    se = model.visitors["Substitutor"].lookup("_substitute_elements")
    st = model.by_hook["visit_list"]
    for cfg in configs_for(st, tier):
        paths = run_visit(prog, model, "Substitutor", "visit_list", cfg, substitutor_ctx, unroll=1)
        rets = [p for p in paths if p.outcome == "return"]
        construct = f"Substitutor.visit_list {cfg.label}"
        if not rets:
            run.undecided("LIST-COVER", construct, f.loc, "no returning path")
            continue
        probs: List[str] = []
        undecided: List[str] = []
        for p in rets:
            pr = result_props(p)
            el = pr.vals.get("elements") if pr is not None else None
            if el is None:
                probs.append("result has no element list")
                continue
            calls = [e for e in p.events if e.kind == "call" and isinstance(e.data.get("callee"), str)
                     and e.data["callee"].endswith("_substitute_elements") and e.data.get("inlined")]
            if calls:
                # partition check on the last (successful) call
                c = calls[-1]
                args = c.data["args"]
                n = len(args[1].items) if len(args) > 1 and isinstance(args[1], ListV) else None
                start = args[2] if len(args) > 2 else c.data["kwargs"].get("start", Const(0))
                suffix_ok = prefix_ok = False
                recognised = False
                want_lo = [f"bin(+, {start.key()}, {n})"]
                if isinstance(start, Const) and isinstance(start.value, int) and n is not None:
                    want_lo.append(str(start.value + n))
                for e in p.events:
                    # (the loops may sit in a nested helper / generator function of _substitute_elements)
                    in_se = se is not None and (e.func == se.qualname or any(q == se.qualname for q in (e.stack or ())))
                    if not in_se or e.kind not in ("loop", "comp_iter") or e.nfacts < c.nfacts:
                        continue
                    it = e.data["iterable"]
                    # for i in range(lo, len(value)) / range(start)
                    if isinstance(it, Term) and it.op == "range":
                        recognised = True
                        if len(it.args) == 2 and it.args[1].key() == "len(value)" and it.args[0].key() in want_lo:
                            suffix_ok = True
                        if len(it.args) == 1 and it.args[0].key() == start.key():
                            prefix_ok = True
                    # for v in value[lo:] / value[:start]
                    if isinstance(it, Term) and it.op == "slice" and it.args[0].key() == "value":
                        recognised = True
                        lo_, hi_ = it.args[1], it.args[2]
                        if lo_.key() in want_lo and isinstance(hi_, Const) and hi_.value is None:
                            suffix_ok = True
                        if isinstance(lo_, Const) and lo_.value in (None, 0) and hi_.key() == start.key():
                            prefix_ok = True
                if isinstance(start, Const) and start.value == 0:
                    prefix_ok = True      # empty prefix
                if not recognised and not (suffix_ok and prefix_ok):
                    undecided.append("the construction of the out-of-window members is not in a recognised form")
                    continue
                # every out-of-window member must be inserted AT ITS OWN index
                for e in p.events:
                    if e.kind == "write" and e.func == (se.qualname if se else "") and e.data.get("how") == "method:insert":
                        a = e.data.get("args", [])
                        if len(a) == 2:
                            pos, val = a
                            src_idx = None
                            o = getattr(val, "origin", None)
                            if o and o[0] == "from_native" and isinstance(o[1], Term) and o[1].op == "getitem":
                                src_idx = o[1].args[1]
                            if src_idx is not None and pos.key() != src_idx.key():
                                probs.append(f"the member taken from value[{src_idx.key()[:30]}] is inserted at position {pos.key()[:30]}")
                if not suffix_ok:
                    probs.append("positions after the matched window are not all carried (no loop over range(start + n, len(value)))")
                if not prefix_ok:
                    probs.append("positions before the matched window are not carried (no loop over range(start))")
            else:
                # typed / untyped: element list built by a loop over the whole value
                whole = any(e.kind == "loop" and e.func == f.qualname and e.data["iterable"].key() == "value" for e in p.events)
                empty = isinstance(el, ListV) and not el.items
                if isinstance(el, Term) and el.op == "listcomp" and len(el.args) >= 2 and isinstance(el.args[1], Term) \
                        and el.args[1].op == "src" and el.args[1].args[0].key() == "value":
                    # [f(val) for val in value]: one member per position; an `if` clause may drop positions
                    if len(el.args) > 2:
                        undecided.append("the element list is a filtered comprehension over the value")
                        continue
                    k = el.args[0].key() if isinstance(el.args[0], V) else ""
                    if not (k.startswith(("native(", "subst(")) or "@value" in k or is_ell(el.args[0])):
                        probs.append(f"element {k[:40]} is not derived from a member of the value")
                    continue
                if not whole and not empty:
                    probs.append("element list is not built from a loop over the whole value")
                if isinstance(el, ListV):
                    for x in el.items:
                        if isinstance(x, Spread):
                            continue
                        k = x.key()
                        if not (k.startswith(("native(", "subst(")) or "@value" in k or is_ell(x)):
                            probs.append(f"element {k[:40]} is not derived from a member of the value")
        if probs:
            run.violated("LIST-COVER", construct, f.loc, "; ".join(sorted(set(probs)))[:300],
                         witness="(schema % [..]) does not pin every position of the given list")
        elif undecided:
            run.undecided("LIST-COVER", construct, f.loc, undecided[0])
        else:
            run.holds("LIST-COVER", construct, f.loc, f"{len(rets)} return paths carry every position of the value", nontrivial=True)
    run.floor("LIST-COVER", 30)
    # ---- positional correspondence in the typed / free form, two elements deep: the member at position j is derived
    # from value[j] (a memo keyed by equality hands an earlier member's schema to a later, merely EQUAL element)
    for cfg in [c for c in configs_for(st, "quick") if "elements" not in c.setprops and "len" not in c.setprops
                and "min_len" not in c.setprops and "max_len" not in c.setprops]:
        paths = run_visit(prog, model, "Substitutor", "visit_list", cfg, substitutor_ctx, unroll=2)
        construct = f"Substitutor.visit_list {cfg.label}: positions"
        probs2: List[str] = []
        seen2 = 0
        for p in paths:
            if p.outcome != "return":
                continue
            pr = result_props(p)
            el = pr.vals.get("elements") if pr is not None else None
            if not (isinstance(el, ListV) and el.concrete() and len(el.items) == 2):
                continue
            seen2 += 1
            for j, x in enumerate(el.items):
                k = x.key()
                other = f"elem{1 - j}@value"
                if other in k and f"elem{j}@value" not in k:
                    cond = [("" if b else "not ") + kk for kk, _, b in p.facts if "in(" in kk][-1:]
                    probs2.append(f"the member at position {j} is derived from value[{1 - j}] ({k[:50]})"
                                  + (f" when {cond[0][:70]}" if cond else ""))
        if probs2:
            run.violated("LIST-COVER", construct, f.loc, "; ".join(sorted(set(probs2)))[:300],
                         witness="schema.list(schema.any(schema.int, schema.float)) % [1, 1.0] pins position 1 to int(1)")
        elif seen2:
            run.holds("LIST-COVER", construct, f.loc, f"on {seen2} two-element paths each member is derived from its own position", nontrivial=True)
        else:
            run.undecided("LIST-COVER", construct, f.loc, "no two-element return path")

    # ---------------------------------------------------------------- LIST-GEN: an exact element list generates itself
    g = model.visitors["Generator"].lookup("visit_list")
    for name, mk in list_shapes(2):
        if "..." in name:
            continue
        n_members = len([x for x in mk().items])
        for ln in ((), ("len",), ("min_len",), ("max_len",), ("min_len", "max_len")):
            cfg = Config(("elements",) + ln, {"elements": mk}, label=f"elements={name}" + "".join("," + x for x in ln))
            paths = run_visit(prog, model, "Generator", "visit_list", cfg, None, unroll=1)
            construct = f"Generator.visit_list {cfg.label}"
            probs3: List[str] = []
            for p in paths:
                if p.outcome == "raise":
                    continue         # C01 judges refusals
                v = p.value
                if isinstance(v, ListV) and v.concrete() and len(v.items) == n_members:
                    continue
                draws = [e for e in p.events if e.kind == "call" and isinstance(e.data.get("callee"), str) and e.data["callee"].endswith("random_int")]
                probs3.append(f"returns {v.key()[:50] if v is not None else None}" + (" after drawing a length" if draws else "")
                              + f" instead of the {n_members} generated member(s)")
            if probs3:
                run.violated("LIST-GEN", construct, g.loc, "; ".join(sorted(set(probs3)))[:300],
                             witness="fake(schema.list(schema.int).len(0, 3) % []) != []")
            elif paths:
                run.holds("LIST-GEN", construct, g.loc, "one generated member per declared element, nothing else", nontrivial=True)
    run.floor("LIST-GEN", 8)
    # free-form positions are pinned through from_native: the conversion must not be memoised by equality, or the
    # member pinned for 1.0 is the one built earlier for True (necessary for "the result accepts v")
    # CONTAINER-VALIDATED: "if the value conforms then the result accepts it" is argued from the pre-validation of every
    # container the substitutor descends into: a list / dict result returned on a path that did not validate the value
    # (a flag in **kwargs that switches the check off for nested containers, say) pins whatever was given
    for hook_c in ("visit_list", "visit_dict"):
        f_c = model.visitors["Substitutor"].lookup(hook_c)
        st_c = model.by_hook[hook_c]
        bad_c: Dict[str, Set[str]] = {}
        n_c = 0
        for cfg_c in configs_for(st_c, tier):
            for p_c in run_visit(prog, model, "Substitutor", hook_c, cfg_c, substitutor_ctx, unroll=1):
                if p_c.outcome != "return" or not isinstance(p_c.value, SchemaV):
                    continue
                n_c += 1
                if validated(p_c) is not True:
                    cond_c = [("" if b else "not ") + k for k, _, b in p_c.facts][-1:]
                    bad_c.setdefault(cfg_c.label, set()).add(cond_c[0][:70] if cond_c else "unconditionally")
        c_c = f"Substitutor.{hook_c}: every returned container was validated on its path"
        if bad_c:
            lab = sorted(bad_c)[0]
            run.violated("CONTAINER-VALIDATED", c_c, f_c.loc, f"under {lab} a schema is returned on a path without a clean validation "
                         f"(when {sorted(bad_c[lab])[0]})",
                         witness="a length-constrained list inside a `[..., e, ...]` window nested in a dict is pinned to a value it rejects")
        elif n_c:
            run.holds("CONTAINER-VALIDATED", c_c, f_c.loc, f"{n_c} return paths", nontrivial=True)
    from .c14 import _memo, native_contract
    native_contract(run, prog, model, tier, "at a position the schema leaves open the result then rejects the very value that was "
                    "substituted, although the original accepts it")
    # ... and the schema an arm produces must accept what the arm admitted: the arms classify by isinstance(value, K), so
    # the validator's guard for K has to be isinstance(value, K) too - an exact `type(value) is K` refuses the IntEnum member,
    # the str subclass, the bool the conversion pinned as such
    from .c02 import TYPE, _type_first
    for hook, f in sorted(model.visit_methods("Validator").items()):
        st = model.by_hook.get(hook)
        if hook in TYPE and st is not None:
            _type_first(run, prog, model, "Validator", hook, f, st, rule="KIND-GUARD")
    run.floor("KIND-GUARD", 8)
    conv = model.visitors["Substitutor"].lookup("_from_native")
    _memo(run, prog, model, prog.func("d42.utils._from_native.from_native"), rule="CONVERT-PURE",
          roots=[conv] if conv is not None else None, prefixes=("d42.utils", "d42.substitution"))


SU = "d42/substitution/_substitutor.py"
G = "d42/generation/_generator.py"
MUTANTS = [
    {"name": "empty closed table: pre-validation returns early and the unknown-key loop only runs for relaxed tables (seeded C04-I)", "rule": "DICT-TABLE",
     "edits": [("d42/substitution/_substitutor.py", "            for key, val in value.items():\n                if key not in schema.props.keys:\n                    raise SubstitutionError(f\"Unknown key {key!r}\")\n",
                "            if ... in schema.props.keys:\n                for key in value:\n                    if key not in schema.props.keys:\n                        raise SubstitutionError(f\"Unknown key {key!r}\")\n"),
               ("d42/substitution/_validator.py", "        if schema.props.keys is Nil:\n            return result\n\n        for key, (val, is_optional) in schema.props.keys.items():\n            if is_ellipsis(key):", "        if not schema.props.keys:\n            return result\n\n        for key, (val, is_optional) in schema.props.keys.items():\n            if is_ellipsis(key):")]},
    {"name": "neutral: unknown-key loop only for relaxed tables (closed ones are covered by the pre-validation)", "expect": "SILENT",
     "edits": [("d42/substitution/_substitutor.py", "            for key, val in value.items():\n                if key not in schema.props.keys:\n                    raise SubstitutionError(f\"Unknown key {key!r}\")\n",
                "            if ... in schema.props.keys:\n                for key in value:\n                    if key not in schema.props.keys:\n                        raise SubstitutionError(f\"Unknown key {key!r}\")\n")]},
    {"name": "from_native converts tuples like lists (seeded C04-J)", "rule": "NATIVE-CONTRACT",
     "edits": [("d42/utils/_from_native.py", "isinstance(value, list)", "isinstance(value, (list, tuple))")]},
    {"name": "pin keeps an existing value", "rule": "PIN",
     "edits": [(SU, "        return schema.__class__(schema.props.update(value=value))\n\n    def visit_int", "        return schema.__class__(schema.props if schema.props.value is not Nil else schema.props.update(value=value))\n\n    def visit_int")]},
    {"name": "given keys keep is_optional", "rule": "DICT-TABLE",
     "edits": [(SU, "                        keys[key] = (val.__accept__(self, value=value[key], **kwargs), False)", "                        keys[key] = (val.__accept__(self, value=value[key], **kwargs), is_optional)")]},
    {"name": "typed-list members memoised by the bare value", "rule": "LIST-COVER",
     "edits": [(SU, "            elements = []\n            for val in value:\n                if is_ellipsis(val):\n                    element = val\n                else:\n                    element = schema.props.type.__accept__(self, value=val, **kwargs)\n                elements.append(element)",
                "            elements = []\n            seen: Dict[Any, Any] = {}\n            for val in value:\n                if is_ellipsis(val):\n                    element = val\n                else:\n                    if val not in seen:\n                        seen[val] = schema.props.type.__accept__(self, value=val, **kwargs)\n                    element = seen[val]\n                elements.append(element)")]},
    {"name": "generator falls through to a drawn length for an empty pinned list", "rule": "LIST-GEN",
     "edits": [("d42/generation/_generator.py", "                elements.append(elem.__accept__(self, **kwargs))\n            return elements\n",
                "                elements.append(elem.__accept__(self, **kwargs))\n            if elements or (schema.props.len is Nil and schema.props.min_len is Nil and schema.props.max_len is Nil):\n                return elements\n")]},
    {"name": "prefix loop dropped in _substitute_elements", "rule": "LIST-COVER",
     "edits": [(SU, "        for i in range(start):\n            substituted.insert(i, self._from_native(value[i]))\n\n", "")]},
    {"name": "empty-any guard removed", "rule": "ANY-NONEMPTY",
     "edits": [(SU, "            if len(types) == 0:\n                raise SubstitutionError(f\"Can't substitute {value!r}\")\n", "")]},
    {"name": "absent keys dropped from the result table", "rule": "DICT-TABLE",
     "edits": [(SU, "                else:\n                    keys[key] = (val, is_optional)\n            for key, val in value.items():", "            for key, val in value.items():")]},
    {"name": "generator ignores a pinned str when an alphabet is set", "rule": "VALUE-FIRST",
     "edits": [(G, "    def visit_str(self, schema: StrSchema, **kwargs: Any) -> str:\n        if schema.props.value is not Nil:", "    def visit_str(self, schema: StrSchema, **kwargs: Any) -> str:\n        if schema.props.value is not Nil and schema.props.alphabet is Nil:")]},
    {"name": "suffix elements after the window dropped", "rule": "LIST-COVER",
     "edits": [(SU, "        for i in range(start + len(substituted), len(value)):\n            substituted.insert(i, self._from_native(value[i]))\n\n", "")]},
    {"name": "float pins a rounded value", "rule": "PIN",
     "edits": [(SU, "        return schema.__class__(schema.props.update(value=value))\n\n    def visit_str", "        return schema.__class__(schema.props.update(value=round(value, 6)))\n\n    def visit_str")]},
    {"name": "dict member substituted with the whole value", "rule": "DICT-TABLE",
     "edits": [(SU, "keys[key] = (val.__accept__(self, value=value[key], **kwargs), False)", "keys[key] = (val.__accept__(self, value=value, **kwargs), False)")]},
    {"name": "neutral: dict result built through a helper local", "expect": "SILENT",
     "edits": [(SU, "                        keys[key] = (val.__accept__(self, value=value[key], **kwargs), False)", "                        member = val.__accept__(self, value=value[key], **kwargs)\n                        keys[key] = (member, False)")]},
]

MUTANTS += [
    {"name": "members after the window inserted at a fixed index (reversed)", "rule": "LIST-COVER",
     "edits": [(SU, "        for i in range(start + len(substituted), len(value)):\n            substituted.insert(i, self._from_native(value[i]))",
                "        end = start + len(substituted)\n        for i in range(end, len(value)):\n            substituted.insert(end, self._from_native(value[i]))")]},
]

# round 7: the seeded changes that were missed on first contact, replayed against the current tree
MUTANTS += [
    {"name": 'seeded C04-M', "rule": 'CONTAINER-VALIDATED',
     "edits": [('d42/substitution/_substitutor.py', '        except ValueError:\n            raise SubstitutionError(f"Can\'t convert {value!r} to schema")\n\n    def visit(self, schema: GenericSchema, *, value: Any = Nil, **kwargs: Any) -> GenericSchema:\n        if substitute_method := getattr(schema, "__d42_substitute__", None):\n            return cast(GenericSchema, substitute_method(self, value=value, **kwargs))\n', '        except ValueError:\n            raise SubstitutionError(f"Can\'t convert {value!r} to schema")\n\n    def _validate_container(self, schema: GenericSchema, value: Any,\n                            kwargs: Dict[str, Any]) -> None:\n        # a container validates its whole value, nested containers included, before it descends:\n        # a nested container reached through it has nothing left to check\n        if kwargs.get("validated", False):\n            return\n        result = schema.__accept__(self._validator, value=value)\n        if result.has_errors():\n            raise make_substitution_error(result, self._formatter)\n\n    def visit(self, schema: GenericSchema, *, value: Any = Nil, **kwargs: Any) -> GenericSchema:\n        if substitute_method := getattr(schema, "__d42_substitute__", None):\n            return cast(GenericSchema, substitute_method(self, value=value, **kwargs))\n'),
               ('d42/substitution/_substitutor.py', '        return substituted\n\n    def visit_list(self, schema: ListSchema, *, value: Any = Nil, **kwargs: Any) -> ListSchema:\n        result = schema.__accept__(self._validator, value=value)\n        if result.has_errors():\n            raise make_substitution_error(result, self._formatter)\n\n        if len(value) > 0 and all(is_ellipsis(x) for x in value):\n            raise SubstitutionError("Can\'t substitute all ...")\n', '        return substituted\n\n    def visit_list(self, schema: ListSchema, *, value: Any = Nil, **kwargs: Any) -> ListSchema:\n        self._validate_container(schema, value, kwargs)\n        nested = {**kwargs, "validated": True}\n\n        if len(value) > 0 and all(is_ellipsis(x) for x in value):\n            raise SubstitutionError("Can\'t substitute all ...")\n'),
               ('d42/substitution/_substitutor.py', '                if is_ellipsis(val):\n                    element = val\n                else:\n                    element = schema.props.type.__accept__(self, value=val, **kwargs)\n                elements.append(element)\n            return schema.__class__(schema.props.update(elements=elements, type=Nil))\n\n', '                if is_ellipsis(val):\n                    element = val\n                else:\n                    element = schema.props.type.__accept__(self, value=val, **nested)\n                elements.append(element)\n            return schema.__class__(schema.props.update(elements=elements, type=Nil))\n\n'),
               ('d42/substitution/_substitutor.py', '\n        # head\n        if (len(elements) >= 2) and is_ellipsis(elements[-1]):\n            substituted = self._substitute_elements(value, elements[:-1], **kwargs)\n            return schema.__class__(schema.props.update(elements=substituted))\n\n        # tail\n        if (len(elements) >= 1) and is_ellipsis(elements[0]):\n            elements = elements[1:]\n            index = max(0, len(value) - len(elements))\n            substituted = self._substitute_elements(value, elements, index, **kwargs)\n            return schema.__class__(schema.props.update(elements=substituted))\n\n        substituted = self._substitute_elements(value, elements, **kwargs)\n        return schema.__class__(schema.props.update(elements=substituted))\n\n    def visit_dict(self, schema: DictSchema, *, value: Any = Nil, **kwargs: Any) -> DictSchema:\n        result = schema.__accept__(self._validator, value=value)\n        if result.has_errors():\n            raise make_substitution_error(result, self._formatter)\n\n        keys: Dict[Any, Any] = {}\n        if schema.props.keys is Nil or (len(schema.props.keys) == 1 and ... in schema.props.keys):\n', '\n        # head\n        if (len(elements) >= 2) and is_ellipsis(elements[-1]):\n            substituted = self._substitute_elements(value, elements[:-1], **nested)\n            return schema.__class__(schema.props.update(elements=substituted))\n\n        # tail\n        if (len(elements) >= 1) and is_ellipsis(elements[0]):\n            elements = elements[1:]\n            index = max(0, len(value) - len(elements))\n            substituted = self._substitute_elements(value, elements, index, **nested)\n            return schema.__class__(schema.props.update(elements=substituted))\n\n        substituted = self._substitute_elements(value, elements, **nested)\n        return schema.__class__(schema.props.update(elements=substituted))\n\n    def visit_dict(self, schema: DictSchema, *, value: Any = Nil, **kwargs: Any) -> DictSchema:\n        self._validate_container(schema, value, kwargs)\n        nested = {**kwargs, "validated": True}\n\n        keys: Dict[Any, Any] = {}\n        if schema.props.keys is Nil or (len(schema.props.keys) == 1 and ... in schema.props.keys):\n'),
               ('d42/substitution/_substitutor.py', '                    if is_ellipsis(value[key]):\n                        keys[key] = (val, False)\n                    else:\n                        keys[key] = (val.__accept__(self, value=value[key], **kwargs), False)\n                else:\n                    keys[key] = (val, is_optional)\n            for key, val in value.items():\n', '                    if is_ellipsis(value[key]):\n                        keys[key] = (val, False)\n                    else:\n                        keys[key] = (val.__accept__(self, value=value[key], **nested), False)\n                else:\n                    keys[key] = (val, is_optional)\n            for key, val in value.items():\n'),
               ('d42/substitution/_substitutor.py', '        if result.has_errors():\n            raise make_substitution_error(result, self._formatter)\n\n        types = []\n        if schema.props.types is Nil:\n            types.append(self._from_native(value))\n', '        if result.has_errors():\n            raise make_substitution_error(result, self._formatter)\n\n        # which alternatives fit is found out by substituting into each of them\n        kwargs.pop("validated", None)\n        types = []\n        if schema.props.types is Nil:\n            types.append(self._from_native(value))\n')]},
]

# round 8: the seeded changes that were missed on first contact, replayed against the current tree
MUTANTS += [
    {"name": 'seeded C04-P', "rule": 'KIND-GUARD',
     "edits": [('d42/validation/_validator.py', '\n    def _validate_type(self, path: PathHolder, value: Any,\n                       expected_type: Type[Any]) -> Optional[ValidationError]:\n        if not isinstance(value, expected_type):\n            return TypeValidationError(path, value, expected_type)\n        return None\n\n', '\n    def _validate_type(self, path: PathHolder, value: Any,\n                       expected_type: Type[Any]) -> Optional[ValidationError]:\n        if expected_type in (list, dict):\n            is_expected = isinstance(value, expected_type)\n        else:\n            # bool is a subclass of int and datetime is a subclass of date,\n            # scalars have to be of the declared type itself\n            is_expected = type(value) is expected_type\n        if not is_expected:\n            return TypeValidationError(path, value, expected_type)\n        return None\n\n')]},
]
