"""C12 - substitution fails only with SubstitutionError (idempotence is NOT decided).

ONLY-SUBSTITUTIONERROR (escape analysis of every Substitutor.visit_* path), ELL-TYPESTATE (a `...` marker is
never dereferenced, on every list shape), ANY-NONEMPTY, VALIDATE-FIRST (never returns a schema that accepts
nothing).
"""
from __future__ import annotations

from typing import Any, Dict, List, Optional, Set, Tuple

from ..interp import Event, Path
from ..loader import AnalysisError, Program
from ..model import Model
from ..partial import escapes
from ..report import Run
from ..engine import Interp
from ..values import ELL, Const, DictV, ExcV, Inst, ListV, PropsV, SchemaV, Sym, Term, TupleV, V, is_ell
from ..visits import (Config, _c_from_native, configs_for, key_tables, make_visitor, run_visit, substitutor_ctx)
from .c02 import TYPE

OK_EXC = "SubstitutionError"


def validated(p: Path) -> Optional[bool]:
    """Did the path pass the validate-first step?  True: validated and clean; False: errors; None: no validation."""
    acc = [e for e in p.events if e.kind == "accept" and e.data.get("family") == "Validator"
           and isinstance(e.data.get("recv"), SchemaV)]
    if not acc:
        return None
    for k, _, b in p.facts:
        if "has_errors" in k and k.startswith("mcall(result("):
            return not b
    return None


def _plain(n: str) -> Sym:
    return Sym(n, "int", ("plain", n))


def _subst_shape(prog: Program, model: Model, hook: str, cfg: Config, mkvalue: Any) -> List[Path]:
    """Substitutor.<hook> on a value of concrete shape; the pre-validation of the schema itself is executed, the
    verdict of member schemas (symbols) on their positions is left open."""
    st = model.by_hook[hook]
    it = Interp(prog, model, unroll=1, max_depth=8)
    it.accept_summary = lambda recv, v: not isinstance(recv, SchemaV)    # type: ignore[attr-defined]
    it.contracts["d42.utils._from_native.from_native"] = _c_from_native

    def run(i: Interp) -> V:
        v = make_visitor(i, "Substitutor")
        sc = i.make_schema(st, cfg.setprops, cfg.build())
        return i.call_function(v.cls.lookup(hook), [sc], {"value": mkvalue()}, self_val=v)
    return it.run_paths(run, max_paths=2000)


def _declarable(prog: Program, model: Model, hook: str, result: SchemaV) -> Tuple[Optional[bool], str]:
    """Would the declaration DSL accept the container the substitutor returned?  The stored element list / key table
    is handed back to <Schema>.__call__ of a fresh schema (optional keys re-wrapped); True: every path returns,
    False: every path raises DeclarationError."""
    st = model.by_hook[hook]
    vals = result.props.vals if isinstance(result.props, PropsV) else {}
    if hook == "visit_list":
        arg = vals.get("elements")
        if not (isinstance(arg, ListV) and arg.concrete()):
            return None, "no concrete element list"
        mk = lambda i: ListV(list(arg.items))     # noqa: E731
    else:
        tbl = vals.get("keys")
        if not (isinstance(tbl, DictV) and all(isinstance(v, TupleV) and len(v.items) == 2 for _, v in tbl.items)):
            return None, "no concrete key table"
        opt = prog.cls("declaration.types._optional.optional")

        def mk(i: Interp) -> V:
            items = []
            for k, v in tbl.items:
                flag = v.items[1]
                if isinstance(flag, Const) and flag.value is True:
                    k = i._construct(opt, [k], {}, None)
                items.append((k, v.items[0]))
            return DictV(items)
    it = Interp(prog, model, unroll=1, max_depth=8)

    def run(i: Interp) -> V:
        fresh = i.make_schema(st, (), {})
        return i.call_function(st.cls.lookup("__call__"), [mk(i)], {}, self_val=fresh)
    ps = it.run_paths(run, max_paths=400)
    outs = {("raise:" + p.value.cls_name if p.outcome == "raise" and isinstance(p.value, ExcV) else p.outcome) for p in ps}
    if outs == {"return"}:
        if hook == "visit_dict":
            # ... and the declaration would store the very same table (an `optional(k)` object stored as a literal key
            # is declarable text, but declares the optional key k - another schema)
            got = []
            for p in ps:
                rv = p.value.props.vals.get("keys") if isinstance(p.value, SchemaV) and isinstance(p.value.props, PropsV) else None
                if isinstance(rv, DictV):
                    got.append(rv.key())
            # (a symbolic key forks on `isinstance(key, optional)`: the path that takes every symbolic key as a plain
            # key is the one to compare with)
            if got and tbl.key() not in got:
                return False, f"the declaration would store {min(got, key=len)[:80]} for it"
        return True, ""
    if outs and all(o == "raise:DeclarationError" for o in outs):
        msg = ""
        for p in ps:
            for e in reversed(p.events):
                if e.kind == "raise":
                    break
        return False, msg
    return None, f"declaration outcomes {sorted(outs)}"


def _show(v: V) -> str:
    if is_ell(v):
        return "..."
    if isinstance(v, ListV):
        return "[" + ", ".join(_show(x) for x in v.items) + "]"
    if isinstance(v, DictV):
        return "{" + ", ".join(f"{_show(k)}: {_show(x)}" for k, x in v.items) + "}"
    if isinstance(v, Sym) and v.origin and v.origin[0] == "plain":
        return "1"
    if isinstance(v, Sym) and v.origin and v.origin[0] == "dictkey":
        return repr(v.name)
    return v.key()[:30]


def _result_declarable(run: Run, prog: Program, model: Model, tier: str) -> None:
    """RESULT-DECLARABLE: a `...` in the substituted value is a placeholder; wherever the substitutor copies it into
    the result, the result must still be a container the declaration DSL would have accepted (a `...` only first or
    last in an element list, only as `...: ...` in a key table).  Anything else is a schema every visitor
    dereferences a marker on: it cannot be validated against, generated from or printed."""
    sub = model.visitors["Substitutor"]
    n = 0
    lshapes = ["p", "p.", ".p", ".p.", "p.p", "pp.p", "p..p", ".p.p"] + ([".pp.", "p.pp", "..p"] if tier != "quick" else [])
    for hook in ("visit_list", "visit_dict"):
        f = sub.lookup(hook)
        if f is None:
            continue
        st = model.by_hook[hook]
        for cfg in configs_for(st, tier):
            if hook == "visit_list":
                if any(x in cfg.setprops for x in ("len", "min_len", "max_len")):
                    continue      # lengths do not decide where a marker may stand
                values = [(sh, (lambda sh=sh: ListV([ELL if c == "." else _plain(f"p{i}") for i, c in enumerate(sh)]))) for sh in lshapes]
            else:
                def k(name: str) -> Sym:
                    return Sym(name, "key", ("dictkey", name))
                forms = [[("r1", "p")], [("r1", ".")], [(".", ".")], [(".", "p")], [("r1", "p"), (".", ".")],
                         [("r1", "."), ("o1", "p")], [("x", ".")], [("x", "p"), (".", ".")], [("x", "."), (".", ".")],
                         [("?x", "p")], [("r1", "p"), ("?y", "p")]]
                values = []
                ocls = prog.cls("declaration.types._optional.optional")
                tbl0 = cfg.build().get("keys")
                free_form = not isinstance(tbl0, DictV) or all(is_ell(k0) for k0, _ in tbl0.pairs())
                for fm in forms:
                    if any(a.startswith("?") for a, _ in fm) and not free_form:
                        continue     # a keyed table refuses an optional(...) object as an unknown key
                    def mkv(fm: Any = fm) -> DictV:
                        def key_of(a: str) -> V:
                            if a == ".":
                                return ELL
                            if a.startswith("?"):        # an optional(...) object used as a key of the VALUE
                                return Inst(ocls, {"_key": k(a[1:])})
                            return k(a)
                        return DictV([(key_of(a), ELL if b == "." else _plain("p_" + a.lstrip("?"))) for a, b in fm])
                    values.append(("{" + ", ".join(("..." if a == "." else (f"optional({a[1:]!r})" if a.startswith("?") else repr(a))) + ": "
                                                   + ("..." if b == "." else "1") for a, b in fm) + "}", mkv))
            bad: List[str] = []
            und: List[str] = []
            ok = 0
            for label, mkv in values:
                for p in _subst_shape(prog, model, hook, cfg, mkv):
                    if p.outcome != "return" or not isinstance(p.value, SchemaV):
                        continue
                    verdict, why = _declarable(prog, model, hook, p.value)
                    vals = p.value.props.vals if isinstance(p.value.props, PropsV) else {}
                    shown = _show(vals.get("elements" if hook == "visit_list" else "keys"))     # type: ignore[arg-type]
                    if verdict is False:
                        bad.append(f"% {label} returns {st.cls.name} storing {shown}, " + (f"but {why}" if why else "which the declaration refuses"))
                    elif verdict is None:
                        und.append(f"% {label}: {why}")
                    else:
                        ok += 1
            n += 1
            c = f"Substitutor.{hook} {cfg.label}: stored container is declarable"
            if bad:
                run.violated("RESULT-DECLARABLE", c, f.loc, "; ".join(sorted(set(bad)))[:500],
                             witness="validate(schema.list % [1, ..., 2], [1, 5, 2]) raises AttributeError; "
                                     "fake(schema.dict % {'a': ...}) raises AttributeError; "
                                     "schema.dict % {optional('a'): 1} accepts neither {'a': 1} nor {}")
            elif und and not ok:
                run.undecided("RESULT-DECLARABLE", c, f.loc, "; ".join(sorted(set(und)))[:300])
            else:
                run.holds("RESULT-DECLARABLE", c, f.loc, f"{ok} returned containers re-declared", nontrivial=ok > 0)
    run.analysed["result_declarable_configs"] = n


def _reflexive(t: Any, kind: Optional[str]) -> bool:
    """Is this comparison one of a value with itself (possibly through K(value) for the validated kind K, which yields
    an equal value)?  Its failing branch is the NaN corner the design leaves undecided, not a disagreement."""
    def norm(x: Any) -> str:
        while isinstance(x, Term) and x.op == "call" and len(x.args) == 2 and isinstance(x.args[0], str) \
                and kind is not None and x.args[0] == f"builtins.{kind}" and isinstance(x.args[1], V):
            x = x.args[1]
        if isinstance(x, Term):
            return f"{x.op}(" + ", ".join(norm(a) if isinstance(a, V) else str(a) for a in x.args) + ")"
        return x.key() if isinstance(x, V) else str(x)
    while isinstance(t, Term) and ((t.op == "call" and len(t.args) == 2 and t.args[0] == "builtins.bool") or t.op == "not"):
        t = t.args[-1]
    if not isinstance(t, Term):
        return False
    if t.op in ("eq", "ne") and len(t.args) == 2:
        return norm(t.args[0]) == norm(t.args[1])
    if t.op == "call" and t.args and t.args[0] == "math.isclose":
        vs = [a for a in t.args[1:] if isinstance(a, V) and not (isinstance(a, Term) and a.op == "kw")]
        return len(vs) == 2 and norm(vs[0]) == norm(vs[1])
    return False


def _repin(run: Run, prog: Program, model: Model, tier: str) -> None:
    """RE-PIN (idempotence, necessary condition): substituting v again validates v against what the first substitution
    stored for it.  For every scalar type and prop-set the stored payload W is taken from the substitutor's return
    paths and the validator the substitutor runs is evaluated on (value = v, props.value = W): a path that reports a
    value mismatch must be one that compares v with itself."""
    from .c02 import TYPE
    from .c04 import SCALARS, result_props
    n = 0
    for hook in SCALARS:
        st = model.by_hook[hook]
        f = model.visitors["Substitutor"].lookup(hook)
        kind = TYPE.get(hook)
        for cfg in configs_for(st, tier):
            if "value" in cfg.setprops:
                continue
            stored: Dict[str, V] = {}
            val = Sym("value", kind, ("param", "value"))       # one symbol for both runs: the same v is substituted twice
            for p in run_visit(prog, model, "Substitutor", hook, cfg, (lambda i, val=val: {"value": val}), unroll=1):
                if p.outcome == "return":
                    pr = result_props(p)
                    if pr is not None and "value" in pr.vals:
                        stored[pr.vals["value"].key()] = pr.vals["value"]
            probs: List[str] = []
            for wk, w in sorted(stored.items()):
                it = Interp(prog, model, unroll=1, max_depth=6)

                def run1(i: Interp, w: V = w) -> V:
                    v = make_visitor(i, "SubstitutorValidator")
                    ov = cfg.build()
                    ov["value"] = w
                    sc = i.make_schema(st, tuple(cfg.setprops) + ("value",), ov)
                    return i.call_function(v.cls.lookup(hook), [sc], {"value": val,
                                                                     "path": Sym("path", "PathHolder", ("param", "path"))}, self_val=v)
                for p in it.run_paths(run1):
                    for e in p.events:
                        if e.kind == "construct" and e.data.get("cls") is not None and e.data["cls"].name == "ValueValidationError":
                            facts = p.facts[:e.nfacts]
                            last = facts[-1] if facts else None
                            if last is not None and _reflexive(last[1], kind):
                                continue
                            probs.append(f"stored payload {wk[:40]}: the validator reports a value mismatch for the same value when "
                                         f"{('' if last and last[2] else 'not ') + (last[0][:70] if last else '?')}")
            n += 1
            c = f"Substitutor.{hook} {cfg.label}: the pinned value validates against itself"
            if probs:
                run.violated("RE-PIN", c, f.loc if f else "", "; ".join(sorted(set(probs)))[:400],
                             witness="r = substitute(S, v); substitute(r, v) raises SubstitutionError (for v = True and S = schema.int, say)")
            elif stored:
                run.holds("RE-PIN", c, f.loc if f else "", f"{len(stored)} stored payload form(s); mismatch paths compare the value with itself",
                          nontrivial=True)
    run.floor("RE-PIN", 20)


def _prevalidation_total(run: Run, prog: Program, model: Model, tier: str) -> None:
    """The substitution paths summarise `schema.__accept__(self._validator, value=value)` by the validator's contract
    (total: returns a result for every value - C08).  That contract is re-derived here for the validator the substitutor
    actually runs, because an exception escaping from it escapes from substitute() as something else than
    SubstitutionError."""
    from ..report import HOLDS, UNDECIDED, VIOLATED
    from . import c08
    sub = Run("C08", tier)
    c08.total_obligations(sub, prog, model, tier, ("SubstitutorValidator",))
    n = 0
    for o in sub.obs:
        if not o.rule.endswith(".TOTAL"):
            continue
        n += 1
        if o.status == VIOLATED:
            run.violated("PRE-VALIDATION-TOTAL", o.construct, o.site, o.detail + " - it escapes from substitute()",
                         witness="substitute(schema, value) raises something else than SubstitutionError")
        elif o.status == UNDECIDED:
            run.undecided("PRE-VALIDATION-TOTAL", o.construct, o.site, o.detail)
        elif o.status == HOLDS:
            run.holds("PRE-VALIDATION-TOTAL", o.construct, o.site, o.detail, nontrivial=o.nontrivial)
    run.floor("PRE-VALIDATION-TOTAL", 60)


def check(run: Run, prog: Program, model: Model, tier: str) -> None:
    run.explanation = (
        "Every path of every Substitutor.visit_* (and of _substitute_elements / _from_native inlined into them) is "
        "enumerated under each prop-set, element-list shape, key table and alternative tuple. The validator the "
        "substitutor runs first is summarised by its contract (total, returns a result: C08) and from_native by its "
        "contract (returns a schema or raises ValueError: C14). On those paths: every explicit raise constructs "
        "SubstitutionError; every partial operation is total for the kind the validation established or is caught "
        "and converted; the `...` marker of a list shape is never the receiver of a call or attribute access; an "
        "any-schema is never returned without alternatives; validation with a raise on errors dominates every normal "
        "return. substitute(substitute(S, v), v) == substitute(S, v) is not decided."
        " The validator the substitutor runs rejects exactly the relation each length prop means (guarded by `is Nil`), and the conversion path is free of equality-keyed memoisation.")
    run.explanation += " RESULT-DECLARABLE: Substitutor.visit_list / visit_dict are run on values of concrete shape with `...` placeholders (pre-validation of the schema itself executed, member verdicts left open) and every returned element list / key table is handed back to the declaration's __call__: it must be accepted. RE-PIN: the stored payload and the same value symbol are given to the validator the substitutor runs; a value-mismatch path must compare the value with itself. NATIVE-CONTRACT: C14's ARM/FINAL obligations re-derived."
    run.explanation += ' PRE-VALIDATION-TOTAL: C08.TOTAL re-derived for SubstitutorValidator. RESULT-DECLARABLE also compares the stored key table with the one the declaration stores for it (optional(...) objects as keys of the value).'
    run.explanation += ' PRE-VALIDATION-FORMS as in C05. PRE-VALIDATION no longer counts a truthiness-guarded min_len (a bound of 0 rejects nothing).'
    run.rule_text = ("obligations per (visit method, prop-set/shape); non-trivial = paths with partial operations, handlers or markers")
    from ..entry import entry_transparent
    entry_transparent(run, prog, model, "substitute", "SUBSTITUTE-ENTRY")
    run.trusted += ["visitor contracts of DESIGN appendix B", "partial-operation table"]
    run.assumptions += ["NotImplementedError from Substitutor.visit for hook-less foreign schema classes is outside visit_* and exempt"]
    unroll = 1 if tier == "quick" else 2
    npaths = 0
    for hook, f in sorted(model.visit_methods("Substitutor").items()):
        st = model.by_hook[hook]
        kind = TYPE.get(hook)
        for cfg in configs_for(st, tier):
            paths = run_visit(prog, model, "Substitutor", hook, cfg, substitutor_ctx, unroll=unroll)
            construct = f"Substitutor.{hook} {cfg.label}"
            bad: List[str] = []
            ell: List[str] = []
            empty_any: List[str] = []
            novalid: List[str] = []
            und: List[str] = []
            judged = 0
            for p in paths:
                npaths += 1
                if p.outcome == "limit":
                    und.append("path limit")
                    continue
                vk = {"value": kind} if (kind and validated(p)) else {}
                if p.outcome == "raise":
                    exc = p.value
                    assert isinstance(exc, ExcV)
                    line = getattr(p.exc_node, "lineno", 0)
                    if p.implicit:
                        recv = None
                        for e in reversed(p.events):
                            if e.kind == "partial" and e.data.get("definite"):
                                recv = e
                                break
                        if recv is not None and recv.data.get("op") in ("accept", "getattr") and recv.data.get("operands") \
                                and is_ell(recv.data["operands"][0]):
                            ell.append(f"`...` marker dereferenced at line {line} ({exc.cls_name})")
                        else:
                            bad.append(f"{exc.cls_name} raised by an operation that always fails at line {line}")
                    elif exc.cls_name != OK_EXC:
                        bad.append(f"explicit raise of {exc.cls_name} at line {line}")
                for e in p.events:
                    if e.kind == "partial":
                        judged += 1
                        for x, why in escapes(p, e, value_kinds=vk):
                            if why == "arity":
                                continue
                            bad.append(f"{getattr(x, '__name__', x)} may escape: {why} @ {e.loc(prog)}")
                    elif e.kind == "unknown_callee":
                        und.append(f"unknown callee {e.data.get('callee')}")
                    elif e.kind == "unsupported":
                        und.append(f"unsupported {e.data.get('what')}")
                if p.outcome == "return":
                    v = p.value
                    if hook != "visit_type_alias" and validated(p) is not True:
                        novalid.append("a schema is returned on a path that did not validate the value (or ignored the errors)")
                    if hook == "visit_any" and isinstance(v, SchemaV) and isinstance(v.props, PropsV):
                        t = v.props.vals.get("types")
                        if isinstance(t, TupleV) and t.concrete() and len(t.items) == 0:
                            empty_any.append("returns any() with an empty tuple of alternatives")
                    if not isinstance(v, SchemaV) and not (isinstance(v, Sym) and v.kind == "Schema"):
                        bad.append(f"returns {v.key()[:40] if v is not None else None}, not a schema")
                if p.outcome == "raise" and validated(p) is False:
                    pass
            site = f.loc
            if ell:
                run.violated("ELL-TYPESTATE", construct, site, "; ".join(sorted(set(ell)))[:300],
                             witness=f"schema.list(<{cfg.label}>) % <a value every window rejects> raises AttributeError")
            elif "elements" in cfg.setprops:
                run.holds("ELL-TYPESTATE", construct, site, "no path uses a `...` token as a schema", nontrivial=True)
            if bad:
                run.violated("ONLY-SUBSTITUTIONERROR", construct, site, "; ".join(sorted(set(bad)))[:400],
                             witness="substitute(schema, value) raises something else than SubstitutionError")
            elif und:
                run.undecided("ONLY-SUBSTITUTIONERROR", construct, site, "; ".join(sorted(set(und)))[:300])
            else:
                run.holds("ONLY-SUBSTITUTIONERROR", construct, site, f"{len(paths)} paths, {judged} partial operations judged", nontrivial=judged > 0)
            if hook == "visit_any":
                if empty_any:
                    run.violated("ANY-NONEMPTY", construct, site, "; ".join(sorted(set(empty_any))),
                                 witness="the result accepts nothing, cannot be generated from and its repr does not evaluate")
                else:
                    run.holds("ANY-NONEMPTY", construct, site, "every returned any() has at least one alternative", nontrivial=True)
            if hook != "visit_type_alias":
                if novalid:
                    run.violated("VALIDATE-FIRST", construct, site, "; ".join(sorted(set(novalid))),
                                 witness="schema.int.min(5) % 3 returns schema.int(3).min(5), which accepts nothing")
                else:
                    run.holds("VALIDATE-FIRST", construct, site, "validation + raise on errors dominates every return", nontrivial=True)
    # the free-form positions of a substituted value are converted by from_native: if that conversion is memoised by
    # equality, equal values of different kinds (True / 1.0) share a slot and the result of substitute() - hence a second
    # substitution of the same value - depends on what was converted before (idempotence clause, necessary condition)
    from .c14 import _memo, native_contract
    native_contract(run, prog, model, tier, "substituting the same value into the result again is then refused (idempotence), "
                    "or the result accepts nothing the value conforms to", rules=("ARM", "FINAL", "ONLY-VALUEERROR"))
    sub = model.visitors["Substitutor"]
    conv = sub.lookup("_from_native")
    _memo(run, prog, model, prog.func("d42.utils._from_native.from_native"), rule="CONVERT-PURE",
          roots=[conv] if conv is not None else None, prefixes=("d42.utils", "d42.substitution"))
    # PRE-VALIDATION: "validated first" only excludes an unsatisfiable result if the validator the substitutor runs rejects
    # exactly what the declared length props reject (an exact `len(0)` read through `x or y` is no constraint at all)
    from .c02 import REL
    from ..vtable import dedupe, extract, relation
    sv = model.visitors.get("SubstitutorValidator")
    if sv is not None:
        fsv = sv.lookup("visit_list")
        for prop in ("len", "min_len", "max_len"):
            err, xk, want = REL[prop]
            rows, _ = extract(prog, model, "SubstitutorValidator", "visit_list", Config((prop,)), 1)
            rows = [r for r in dedupe(rows) if r.error != "TypeValidationError"]
            got: Set[str] = set()
            unknown = False
            for r in rows:
                rr = relation(r.term, bool(r.polarity), xk, f"props.{prop}") if r.term is not None else None
                if rr is None:
                    unknown = True
                else:
                    got |= rr
            c = f"SubstitutorValidator.visit_list: {prop}"
            # every rejection must be guarded by the prop being declared (`is Nil` test), not by its truthiness
            falsy = [r for r in rows if any(k == f"props.{prop}" for k, _, _ in r.all_facts)]
            if not rows:
                run.violated("PRE-VALIDATION", c, fsv.loc, f"`{prop}` is not checked before substituting",
                             witness=f"schema.list.{prop}-constrained % <too long / too short list> returns a schema that rejects that list")
            elif got and got != set(want) and not unknown:
                run.violated("PRE-VALIDATION", c, fsv.loc, f"the pre-validation rejects ({xk} ? {prop}) in {sorted(got)}, the prop means {sorted(want)}",
                             witness="schema.list.len(0) % [1] returns schema.list([...]).len(0), which accepts nothing")
            elif falsy and prop != "min_len":        # (a min_len of 0 rejects nothing: skipping it changes no verdict)
                run.violated("PRE-VALIDATION", c, fsv.loc, f"`{prop}` is honoured only when it is truthy: a declared 0 is skipped",
                             witness="schema.list.len(0) % [1] returns schema.list([...]).len(0), which accepts nothing")
            elif unknown and not got:
                run.undecided("PRE-VALIDATION", c, fsv.loc, "rejection predicate not a comparison of len(value) with the prop")
            else:
                run.holds("PRE-VALIDATION", c, fsv.loc, f"rejects exactly ({xk} ? {prop}) in {sorted(want)}", nontrivial=True)
    from .c02 import prevalidation_forms
    prevalidation_forms(run, prog, model, tier, "PRE-VALIDATION-FORMS")
    _result_declarable(run, prog, model, tier)
    _prevalidation_total(run, prog, model, tier)
    _repin(run, prog, model, tier)
    run.analysed["substitutor_paths"] = npaths
    run.floor("ONLY-SUBSTITUTIONERROR", 70)
    run.floor("VALIDATE-FIRST", 70)
    run.floor("ELL-TYPESTATE", 30)
    run.floor("ANY-NONEMPTY", 3)
    run.floor("RESULT-DECLARABLE", 10)


SU = "d42/substitution/_substitutor.py"
MUTANTS = [
    {"name": "substitution pre-validation of dicts dereferences the `...` marker (seeded C12-K)", "rule": "PRE-VALIDATION-TOTAL",
     "edits": [("d42/substitution/_validator.py", "            if is_ellipsis(key):\n                continue\n            if key in value:", "            if key in value:")]},
    {"name": "optional(...) keys of the value stored as literal keys again (fix 79361d3 reverted)", "rule": "RESULT-DECLARABLE",
     "edits": [(SU, "                if isinstance(key, optional):\n                    raise SubstitutionError(f\"Can't substitute {key!r}\")\n", "")]},
    {"name": "int substitution stores int(value) and the validator tells bools from ints (seeded C12-I)", "rule": "RE-PIN",
     "edits": [(SU, "    def visit_int(self, schema: IntSchema, *, value: Any = Nil, **kwargs: Any) -> IntSchema:\n        result = schema.__accept__(self._validator, value=value)\n        if result.has_errors():\n            raise make_substitution_error(result, self._formatter)\n        return schema.__class__(schema.props.update(value=value))",
                "    def visit_int(self, schema: IntSchema, *, value: Any = Nil, **kwargs: Any) -> IntSchema:\n        result = schema.__accept__(self._validator, value=value)\n        if result.has_errors():\n            raise make_substitution_error(result, self._formatter)\n        return schema.__class__(schema.props.update(value=int(value)))"),
               ("d42/validation/_validator.py", "                        expected_val: Any) -> Optional[ValidationError]:\n", "                        expected_val: Any) -> Optional[ValidationError]:\n        if isinstance(value, bool) != isinstance(expected_val, bool):\n            return ValueValidationError(path, value, expected_val)\n")]},
    {"name": "neutral: int substitution stores int(value) (an equal int)", "expect": "SILENT",
     "edits": [(SU, "    def visit_int(self, schema: IntSchema, *, value: Any = Nil, **kwargs: Any) -> IntSchema:\n        result = schema.__accept__(self._validator, value=value)\n        if result.has_errors():\n            raise make_substitution_error(result, self._formatter)\n        return schema.__class__(schema.props.update(value=value))",
                "    def visit_int(self, schema: IntSchema, *, value: Any = Nil, **kwargs: Any) -> IntSchema:\n        result = schema.__accept__(self._validator, value=value)\n        if result.has_errors():\n            raise make_substitution_error(result, self._formatter)\n        return schema.__class__(schema.props.update(value=int(value)))")]},
    {"name": "from_native converts tuples like lists (seeded C12-J)", "rule": "NATIVE-CONTRACT",
     "edits": [("d42/utils/_from_native.py", "isinstance(value, list)", "isinstance(value, (list, tuple))")]},
    {"name": "middle `...` of a list value copied into the result (fix ef0ffee reverted, list half)", "rule": "RESULT-DECLARABLE",
     "edits": [(SU, "                if is_ellipsis(val) and (index != 0) and (index != len(value) - 1):\n                    raise SubstitutionError(\"`...` must be first or last element\")\n",
                "                if is_ellipsis(val) and (index != 0) and (index != len(value) - 1):\n                    pass\n")]},
    {"name": "bare `...` stored as the schema of a free-form dict key (fix ef0ffee reverted, dict half)", "rule": "RESULT-DECLARABLE",
     "edits": [(SU, "                if is_ellipsis(key) != is_ellipsis(val):\n                    raise SubstitutionError(\"Can't substitute ...\")\n", "")]},
    {"name": "only the untyped list refuses a middle `...`", "rule": "RESULT-DECLARABLE",
     "edits": [(SU, "        if schema.props.elements is Nil:\n            for index, val in enumerate(value):", "        if schema.props.elements is Nil and schema.props.type is Nil:\n            for index, val in enumerate(value):")]},
    {"name": "neutral: middle-marker test written with a chained comparison", "expect": "SILENT",
     "edits": [(SU, "                if is_ellipsis(val) and (index != 0) and (index != len(value) - 1):", "                if is_ellipsis(val) and 0 < index < len(value) - 1:")]},
    {"name": "substitution validator reads the length props through `or`", "rule": "PRE-VALIDATION",
     "edits": [("d42/substitution/_validator.py", "        if schema.props.len is not Nil:\n            if len(value) != schema.props.len:\n                return result.add_error(LengthValidationError(path, value, schema.props.len))\n",
                "        if schema.props.len:\n            if len(value) != schema.props.len:\n                return result.add_error(LengthValidationError(path, value, schema.props.len))\n")]},
    {"name": "body arm falls through again (F9 reverted)", "rule": "ELL-TYPESTATE",
     "edits": [(SU, "            raise SubstitutionError(f\"Can't substitute {value!r}\")\n\n        # head", "\n        # head")]},
    {"name": "empty-any guard removed (F10 reverted)", "rule": "ANY-NONEMPTY",
     "edits": [(SU, "            if len(types) == 0:\n                raise SubstitutionError(f\"Can't substitute {value!r}\")\n", "")]},
    {"name": "_from_native no longer converts ValueError", "rule": "ONLY-SUBSTITUTIONERROR",
     "edits": [(SU, "        try:\n            return from_native(value)\n        except ValueError:\n            raise SubstitutionError(f\"Can't convert {value!r} to schema\")", "        return from_native(value)")]},
    {"name": "value[key] without the membership test", "rule": "ONLY-SUBSTITUTIONERROR",
     "edits": [(SU, "                if key in value:\n                    if is_ellipsis(value[key]):", "                if key in value or not is_optional:\n                    if is_ellipsis(value[key]):")]},
    {"name": "int substitution skips validation", "rule": "VALIDATE-FIRST",
     "edits": [(SU, "    def visit_int(self, schema: IntSchema, *, value: Any = Nil, **kwargs: Any) -> IntSchema:\n        result = schema.__accept__(self._validator, value=value)\n        if result.has_errors():\n            raise make_substitution_error(result, self._formatter)\n",
                "    def visit_int(self, schema: IntSchema, *, value: Any = Nil, **kwargs: Any) -> IntSchema:\n")]},
    {"name": "out-of-range index raises IndexError", "rule": "ONLY-SUBSTITUTIONERROR",
     "edits": [(SU, "            if real_index >= len(value):\n                raise SubstitutionError(f\"Index {real_index} out of range\")\n", "")]},
    {"name": "unknown dict key raises KeyError", "rule": "ONLY-SUBSTITUTIONERROR",
     "edits": [(SU, "                    raise SubstitutionError(f\"Unknown key {key!r}\")", "                    raise KeyError(key)")]},
    {"name": "errors ignored in dict substitution", "rule": "VALIDATE-FIRST",
     "edits": [(SU, "    def visit_dict(self, schema: DictSchema, *, value: Any = Nil, **kwargs: Any) -> DictSchema:\n        result = schema.__accept__(self._validator, value=value)\n        if result.has_errors():\n            raise make_substitution_error(result, self._formatter)\n",
                "    def visit_dict(self, schema: DictSchema, *, value: Any = Nil, **kwargs: Any) -> DictSchema:\n        result = schema.__accept__(self._validator, value=value)\n")]},
    {"name": "any swallows every exception of an alternative", "rule": "ONLY-SUBSTITUTIONERROR", "expect": "SILENT",
     "edits": [(SU, "                except SubstitutionError:\n                    pass\n                else:\n                    types.append(substituted)", "                except (SubstitutionError, LookupError):\n                    pass\n                else:\n                    types.append(substituted)")]},
    {"name": "neutral: raise built through a local", "expect": "SILENT",
     "edits": [(SU, "            raise SubstitutionError(f\"Can't substitute {value!r}\")\n\n        # head", "            error = SubstitutionError(f\"Can't substitute {value!r}\")\n            raise error\n\n        # head")]},
]
