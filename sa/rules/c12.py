"""C12 - substitution fails only with SubstitutionError (idempotence is NOT decided).

ONLY-SUBSTITUTIONERROR (escape analysis of every Substitutor.visit_* path), ELL-TYPESTATE (a `...` marker is
never dereferenced, on every list shape), ANY-NONEMPTY, VALIDATE-FIRST (never returns a schema that accepts
nothing).
"""
from __future__ import annotations

from typing import Any, Dict, List, Optional, Set, Tuple

from ..interp import Event, Path
from ..loader import AnalysisError, Program
from ..model import Model
from ..partial import escapes
from ..report import Run
from ..values import Const, ExcV, Inst, ListV, PropsV, SchemaV, Sym, Term, TupleV, V, is_ell
from ..visits import Config, configs_for, run_visit, substitutor_ctx
from .c02 import TYPE

OK_EXC = "SubstitutionError"


def validated(p: Path) -> Optional[bool]:
    """Did the path pass the validate-first step?  True: validated and clean; False: errors; None: no validation."""
    acc = [e for e in p.events if e.kind == "accept" and e.data.get("family") == "Validator"
           and isinstance(e.data.get("recv"), SchemaV)]
    if not acc:
        return None
    for k, _, b in p.facts:
        if "has_errors" in k and k.startswith("mcall(result("):
            return not b
    return None


def check(run: Run, prog: Program, model: Model, tier: str) -> None:
    run.explanation = (
        "Every path of every Substitutor.visit_* (and of _substitute_elements / _from_native inlined into them) is "
        "enumerated under each prop-set, element-list shape, key table and alternative tuple. The validator the "
        "substitutor runs first is summarised by its contract (total, returns a result: C08) and from_native by its "
        "contract (returns a schema or raises ValueError: C14). On those paths: every explicit raise constructs "
        "SubstitutionError; every partial operation is total for the kind the validation established or is caught "
        "and converted; the `...` marker of a list shape is never the receiver of a call or attribute access; an "
        "any-schema is never returned without alternatives; validation with a raise on errors dominates every normal "
        "return. substitute(substitute(S, v), v) == substitute(S, v) is not decided."
        " The validator the substitutor runs rejects exactly the relation each length prop means (guarded by `is Nil`), and the conversion path is free of equality-keyed memoisation.")
    run.rule_text = ("obligations per (visit method, prop-set/shape); non-trivial = paths with partial operations, handlers or markers")
    run.trusted += ["visitor contracts of DESIGN appendix B", "partial-operation table"]
    run.assumptions += ["NotImplementedError from Substitutor.visit for hook-less foreign schema classes is outside visit_* and exempt"]
    unroll = 1 if tier == "quick" else 2
    npaths = 0
    for hook, f in sorted(model.visit_methods("Substitutor").items()):
        st = model.by_hook[hook]
        kind = TYPE.get(hook)
        for cfg in configs_for(st, tier):
            paths = run_visit(prog, model, "Substitutor", hook, cfg, substitutor_ctx, unroll=unroll)
            construct = f"Substitutor.{hook} {cfg.label}"
            bad: List[str] = []
            ell: List[str] = []
            empty_any: List[str] = []
            novalid: List[str] = []
            und: List[str] = []
            judged = 0
            for p in paths:
                npaths += 1
                if p.outcome == "limit":
                    und.append("path limit")
                    continue
                vk = {"value": kind} if (kind and validated(p)) else {}
                if p.outcome == "raise":
                    exc = p.value
                    assert isinstance(exc, ExcV)
                    line = getattr(p.exc_node, "lineno", 0)
                    if p.implicit:
                        recv = None
                        for e in reversed(p.events):
                            if e.kind == "partial" and e.data.get("definite"):
                                recv = e
                                break
                        if recv is not None and recv.data.get("op") in ("accept", "getattr") and recv.data.get("operands") \
                                and is_ell(recv.data["operands"][0]):
                            ell.append(f"`...` marker dereferenced at line {line} ({exc.cls_name})")
                        else:
                            bad.append(f"{exc.cls_name} raised by an operation that always fails at line {line}")
                    elif exc.cls_name != OK_EXC:
                        bad.append(f"explicit raise of {exc.cls_name} at line {line}")
                for e in p.events:
                    if e.kind == "partial":
                        judged += 1
                        for x, why in escapes(p, e, value_kinds=vk):
                            if why == "arity":
                                continue
                            bad.append(f"{getattr(x, '__name__', x)} may escape: {why} @ {e.loc(prog)}")
                    elif e.kind == "unknown_callee":
                        und.append(f"unknown callee {e.data.get('callee')}")
                    elif e.kind == "unsupported":
                        und.append(f"unsupported {e.data.get('what')}")
                if p.outcome == "return":
                    v = p.value
                    if hook != "visit_type_alias" and validated(p) is not True:
                        novalid.append("a schema is returned on a path that did not validate the value (or ignored the errors)")
                    if hook == "visit_any" and isinstance(v, SchemaV) and isinstance(v.props, PropsV):
                        t = v.props.vals.get("types")
                        if isinstance(t, TupleV) and t.concrete() and len(t.items) == 0:
                            empty_any.append("returns any() with an empty tuple of alternatives")
                    if not isinstance(v, SchemaV) and not (isinstance(v, Sym) and v.kind == "Schema"):
                        bad.append(f"returns {v.key()[:40] if v is not None else None}, not a schema")
                if p.outcome == "raise" and validated(p) is False:
                    pass
            site = f.loc
            if ell:
                run.violated("ELL-TYPESTATE", construct, site, "; ".join(sorted(set(ell)))[:300],
                             witness=f"schema.list(<{cfg.label}>) % <a value every window rejects> raises AttributeError")
            elif "elements" in cfg.setprops:
                run.holds("ELL-TYPESTATE", construct, site, "no path uses a `...` token as a schema", nontrivial=True)
            if bad:
                run.violated("ONLY-SUBSTITUTIONERROR", construct, site, "; ".join(sorted(set(bad)))[:400],
                             witness="substitute(schema, value) raises something else than SubstitutionError")
            elif und:
                run.undecided("ONLY-SUBSTITUTIONERROR", construct, site, "; ".join(sorted(set(und)))[:300])
            else:
                run.holds("ONLY-SUBSTITUTIONERROR", construct, site, f"{len(paths)} paths, {judged} partial operations judged", nontrivial=judged > 0)
            if hook == "visit_any":
                if empty_any:
                    run.violated("ANY-NONEMPTY", construct, site, "; ".join(sorted(set(empty_any))),
                                 witness="the result accepts nothing, cannot be generated from and its repr does not evaluate")
                else:
                    run.holds("ANY-NONEMPTY", construct, site, "every returned any() has at least one alternative", nontrivial=True)
            if hook != "visit_type_alias":
                if novalid:
                    run.violated("VALIDATE-FIRST", construct, site, "; ".join(sorted(set(novalid))),
                                 witness="schema.int.min(5) % 3 returns schema.int(3).min(5), which accepts nothing")
                else:
                    run.holds("VALIDATE-FIRST", construct, site, "validation + raise on errors dominates every return", nontrivial=True)
    # the free-form positions of a substituted value are converted by from_native: if that conversion is memoised by
    # equality, equal values of different kinds (True / 1.0) share a slot and the result of substitute() - hence a second
    # substitution of the same value - depends on what was converted before (idempotence clause, necessary condition)
    from .c14 import _memo
    sub = model.visitors["Substitutor"]
    conv = sub.lookup("_from_native")
    _memo(run, prog, model, prog.func("d42.utils._from_native.from_native"), rule="CONVERT-PURE",
          roots=[conv] if conv is not None else None, prefixes=("d42.utils", "d42.substitution"))
    # PRE-VALIDATION: "validated first" only excludes an unsatisfiable result if the validator the substitutor runs rejects
    # exactly what the declared length props reject (an exact `len(0)` read through `x or y` is no constraint at all)
    from .c02 import REL
    from ..vtable import dedupe, extract, relation
    sv = model.visitors.get("SubstitutorValidator")
    if sv is not None:
        fsv = sv.lookup("visit_list")
        for prop in ("len", "min_len", "max_len"):
            err, xk, want = REL[prop]
            rows, _ = extract(prog, model, "SubstitutorValidator", "visit_list", Config((prop,)), 1)
            rows = [r for r in dedupe(rows) if r.error != "TypeValidationError"]
            got: Set[str] = set()
            unknown = False
            for r in rows:
                rr = relation(r.term, bool(r.polarity), xk, f"props.{prop}") if r.term is not None else None
                if rr is None:
                    unknown = True
                else:
                    got |= rr
            c = f"SubstitutorValidator.visit_list: {prop}"
            # every rejection must be guarded by the prop being declared (`is Nil` test), not by its truthiness
            falsy = [r for r in rows if any(k == f"props.{prop}" for k, _, _ in r.all_facts)]
            if not rows:
                run.violated("PRE-VALIDATION", c, fsv.loc, f"`{prop}` is not checked before substituting",
                             witness=f"schema.list.{prop}-constrained % <too long / too short list> returns a schema that rejects that list")
            elif got and got != set(want) and not unknown:
                run.violated("PRE-VALIDATION", c, fsv.loc, f"the pre-validation rejects ({xk} ? {prop}) in {sorted(got)}, the prop means {sorted(want)}",
                             witness="schema.list.len(0) % [1] returns schema.list([...]).len(0), which accepts nothing")
            elif falsy:
                run.violated("PRE-VALIDATION", c, fsv.loc, f"`{prop}` is honoured only when it is truthy: a declared 0 is skipped",
                             witness="schema.list.len(0) % [1] returns schema.list([...]).len(0), which accepts nothing")
            elif unknown and not got:
                run.undecided("PRE-VALIDATION", c, fsv.loc, "rejection predicate not a comparison of len(value) with the prop")
            else:
                run.holds("PRE-VALIDATION", c, fsv.loc, f"rejects exactly ({xk} ? {prop}) in {sorted(want)}", nontrivial=True)
    run.analysed["substitutor_paths"] = npaths
    run.floor("ONLY-SUBSTITUTIONERROR", 70)
    run.floor("VALIDATE-FIRST", 70)
    run.floor("ELL-TYPESTATE", 30)
    run.floor("ANY-NONEMPTY", 3)


SU = "d42/substitution/_substitutor.py"
MUTANTS = [
    {"name": "substitution validator reads the length props through `or`", "rule": "PRE-VALIDATION",
     "edits": [("d42/substitution/_validator.py", "        if schema.props.len is not Nil:\n            if len(value) != schema.props.len:\n                return result.add_error(LengthValidationError(path, value, schema.props.len))\n",
                "        if schema.props.len:\n            if len(value) != schema.props.len:\n                return result.add_error(LengthValidationError(path, value, schema.props.len))\n")]},
    {"name": "body arm falls through again (F9 reverted)", "rule": "ELL-TYPESTATE",
     "edits": [(SU, "            raise SubstitutionError(f\"Can't substitute {value!r}\")\n\n        # head", "\n        # head")]},
    {"name": "empty-any guard removed (F10 reverted)", "rule": "ANY-NONEMPTY",
     "edits": [(SU, "            if len(types) == 0:\n                raise SubstitutionError(f\"Can't substitute {value!r}\")\n", "")]},
    {"name": "_from_native no longer converts ValueError", "rule": "ONLY-SUBSTITUTIONERROR",
     "edits": [(SU, "        try:\n            return from_native(value)\n        except ValueError:\n            raise SubstitutionError(f\"Can't convert {value!r} to schema\")", "        return from_native(value)")]},
    {"name": "value[key] without the membership test", "rule": "ONLY-SUBSTITUTIONERROR",
     "edits": [(SU, "                if key in value:\n                    if is_ellipsis(value[key]):", "                if key in value or not is_optional:\n                    if is_ellipsis(value[key]):")]},
    {"name": "int substitution skips validation", "rule": "VALIDATE-FIRST",
     "edits": [(SU, "    def visit_int(self, schema: IntSchema, *, value: Any = Nil, **kwargs: Any) -> IntSchema:\n        result = schema.__accept__(self._validator, value=value)\n        if result.has_errors():\n            raise make_substitution_error(result, self._formatter)\n",
                "    def visit_int(self, schema: IntSchema, *, value: Any = Nil, **kwargs: Any) -> IntSchema:\n")]},
    {"name": "out-of-range index raises IndexError", "rule": "ONLY-SUBSTITUTIONERROR",
     "edits": [(SU, "            if real_index >= len(value):\n                raise SubstitutionError(f\"Index {real_index} out of range\")\n", "")]},
    {"name": "unknown dict key raises KeyError", "rule": "ONLY-SUBSTITUTIONERROR",
     "edits": [(SU, "                    raise SubstitutionError(f\"Unknown key {key!r}\")", "                    raise KeyError(key)")]},
    {"name": "errors ignored in dict substitution", "rule": "VALIDATE-FIRST",
     "edits": [(SU, "    def visit_dict(self, schema: DictSchema, *, value: Any = Nil, **kwargs: Any) -> DictSchema:\n        result = schema.__accept__(self._validator, value=value)\n        if result.has_errors():\n            raise make_substitution_error(result, self._formatter)\n",
                "    def visit_dict(self, schema: DictSchema, *, value: Any = Nil, **kwargs: Any) -> DictSchema:\n        result = schema.__accept__(self._validator, value=value)\n")]},
    {"name": "any swallows every exception of an alternative", "rule": "ONLY-SUBSTITUTIONERROR", "expect": "SILENT",
     "edits": [(SU, "                except SubstitutionError:\n                    pass\n                else:\n                    types.append(substituted)", "                except (SubstitutionError, LookupError):\n                    pass\n                else:\n                    types.append(substituted)")]},
    {"name": "neutral: raise built through a local", "expect": "SILENT",
     "edits": [(SU, "            raise SubstitutionError(f\"Can't substitute {value!r}\")\n\n        # head", "            error = SubstitutionError(f\"Can't substitute {value!r}\")\n            raise error\n\n        # head")]},
]
