"""C09 - regex generation yields a full match or refuses loudly.

DISPATCH (exhaustive, default arms raise, must-refuse set never handled silently), NO-SWALLOW,
CHILDREN (sub-pattern components flow into recursion; repeat count drawn between its bounds),
ALPHABET (category alphabets are subsets of their category; `.` alphabet has no newline),
DRAW-ORDER for the draws of the regex generator.  Full match of composed patterns is not decided.
"""
from __future__ import annotations

import ast
import re
from typing import Any, Dict, List, Optional, Set, Tuple

from ..engine import Interp
from ..flow import dotted, function_local_imports, parents
from ..interp import Event, Path
from ..loader import AnalysisError, ClassInfo, FuncInfo, Program
from ..model import Model
from ..report import Run
from ..values import (Const, DictV, Ext, Inst, ListV, SetV, StrV, Sym, Term, TupleV, V)
from ..visits import make_visitor

try:
    import re._constants as _sc       # type: ignore
except ImportError:                    # pragma: no cover
    import sre_constants as _sc        # type: ignore

SUPPORTED = {"ANY", "LITERAL", "NOT_LITERAL", "IN", "SUBPATTERN", "BRANCH", "MAX_REPEAT", "MIN_REPEAT", "AT"}
SUPPORTED_IN = {"NEGATE", "RANGE", "LITERAL", "CATEGORY"}
SUPPORTED_CAT = {"CATEGORY_DIGIT", "CATEGORY_WORD"}
MUST_REFUSE = {"ASSERT", "ASSERT_NOT", "GROUPREF", "GROUPREF_EXISTS", "ATOMIC_GROUP", "POSSESSIVE_REPEAT",
               "GROUPREF_IGNORE", "GROUPREF_LOC_IGNORE", "GROUPREF_UNI_IGNORE"}
MUST_REFUSE_CAT = {"CATEGORY_SPACE", "CATEGORY_NOT_SPACE", "CATEGORY_NOT_DIGIT", "CATEGORY_NOT_WORD"}
CAT_REGEX = {"CATEGORY_DIGIT": r"\d", "CATEGORY_WORD": r"\w", "CATEGORY_SPACE": r"\s", "CATEGORY_NOT_DIGIT": r"\D",
             "CATEGORY_NOT_WORD": r"\W", "CATEGORY_NOT_SPACE": r"\S"}


def dispatch_arms(fn: ast.FunctionDef, var: str) -> Tuple[Dict[str, List[ast.stmt]], Optional[List[ast.stmt]]]:
    """if/elif chain comparing `var` with opcode constants -> {CONST: body}, default body."""
    arms: Dict[str, List[ast.stmt]] = {}
    default: Optional[List[ast.stmt]] = None
    for st in fn.body:
        node: Any = st
        while isinstance(node, ast.If):
            consts = _consts_of(node.test, var)
            if not consts:
                break
            for c in consts:
                arms[c] = node.body
            if len(node.orelse) == 1 and isinstance(node.orelse[0], ast.If):
                node = node.orelse[0]
            else:
                default = node.orelse
                node = None
        if arms:
            if default is None or default == []:
                # fall-through after the chain
                idx = fn.body.index(st)
                default = fn.body[idx + 1:]
            return arms, default
    return arms, default


def _consts_of(test: ast.expr, var: str) -> List[str]:
    out: List[str] = []
    if isinstance(test, ast.Compare) and isinstance(test.left, ast.Name) and test.left.id == var and len(test.ops) == 1:
        if isinstance(test.ops[0], ast.Eq) and isinstance(test.comparators[0], ast.Name):
            out.append(test.comparators[0].id)
        elif isinstance(test.ops[0], ast.In) and isinstance(test.comparators[0], (ast.Tuple, ast.List, ast.Set)):
            out += [e.id for e in test.comparators[0].elts if isinstance(e, ast.Name)]
    elif isinstance(test, ast.BoolOp) and isinstance(test.op, ast.Or):
        for v in test.values:
            out += _consts_of(v, var)
    return out


def always_raises(body: Optional[List[ast.stmt]]) -> bool:
    if not body:
        return False
    last = body[-1]
    if isinstance(last, ast.Raise):
        return True
    if isinstance(last, ast.If):
        return always_raises(last.body) and always_raises(last.orelse)
    return False


def returns_value(body: Optional[List[ast.stmt]]) -> bool:
    return any(isinstance(n, ast.Return) for st in (body or []) for n in ast.walk(st))


def check(run: Run, prog: Program, model: Model, tier: str) -> None:
    run.explanation = (
        "Exhaustiveness analysis of RegexGenerator's opcode dispatch (_generate, _generate_in, _generate_not_in) and "
        "category dispatch (_get_category_alphabet) against the opcode universe of the analysing interpreter's "
        "re._constants (data): supported opcodes have an arm, default arms raise, no arm handles a must-refuse opcode "
        "without raising, and no handler swallows the refusal. Each handler is evaluated abstractly on a node of the "
        "sre shape it receives: the sub-pattern component must flow into the recursive generator, a repeat must join "
        "`count` copies with count drawn between its bounds (open-ended: max(cap, min)). Category alphabets are "
        "constant-folded and every character is tested against the category with the real `re` on the constant. "
        "That the composed string fully matches is not decided."
        " The opcode and category dispatchers are evaluated on every constant of the sre universe; a negated class excludes every alphabet letter of each range and its candidate set depends on every member.")
    run.explanation += ' OPEN-SENTINEL: the comparands of the open-bound test are resolved in re._constants and must all equal MAXREPEAT (an opcode constant is a small int and a legal explicit bound). VALIDATOR-PATTERN: the validator raises the regex error iff re.search(props.pattern, value) is None; a searched pattern obtained by removing characters of the regex source is a violation, one built around the declared pattern is undecided.'
    run.explanation += ' DRAW-NONEMPTY: every random.choice operand reached from visit_str{pattern} and from each _generate_* handler run on a symbolic node is a non-empty constant, a parse-tree component, or established non-empty on the path.'
    run.explanation += " FALLBACK-EXACT: when _generate_not_in takes a candidate from outside the alphabet, (1) a category of the class is tested by a predicate of the candidate itself, not by membership in the category's ASCII alphabet, and (2) for a RANGE member some test relates the candidate to the range's bounds (a set built from range(lo, hi + 1), a comparison with lo / hi, or a loop over that range)."
    run.explanation += ' ITERATOR-REUSE: a one-shot iterator (generator expression, map / filter / zip object) bound to a local or passed to a method of the class is walked at most once.'
    run.rule_text = ("one obligation per opcode / category of the universe, per handler child flow, per alphabet, per draw; "
                     "non-trivial = needed abstract evaluation of a handler or constant folding")
    run.trusted += ["sre parse-tree node shapes: SUBPATTERN(group, add, del, p), BRANCH(None, [p..]), MAX/MIN_REPEAT(min, max, p), "
                    "IN[(op, av)..] with optional leading NEGATE, RANGE(lo, hi) with lo <= hi, repeat min <= max"]
    cls = prog.cls("generation._regex_generator.RegexGenerator")
    mod = cls.module
    universe = {str(o) for o in _sc.OPCODES}
    cats = {str(c) for c in _sc.CHCODES}
    run.analysed["opcode_universe"] = len(universe)
    run.analysed["category_universe"] = len(cats)

    # ---------------------------------------------------------------- DISPATCH
    # decided by abstract evaluation of the dispatcher on each opcode constant of the universe (the handlers it
    # calls are summarised: "returns a generated string"), so any spelling of the dispatch - elif chain, early
    # returns, `in` tests, a lookup table - is judged by what it does with the opcode
    gen = cls.methods.get("_generate")
    if gen is None:
        raise AnalysisError("RegexGenerator._generate not found")
    verdict: Dict[str, str] = {}
    for op in sorted(universe | SUPPORTED | {UNKNOWN}):
        verdict[op] = _dispatch_verdict(_run_dispatch(prog, model, cls, "_generate", [_op(prog, cls, op), Sym("value", None)]))
    if not any(v == "returns" for v in verdict.values()):
        raise AnalysisError("opcode dispatch in _generate not recognised (no opcode constant reaches a generating arm)")
    run.analysed["dispatch_verdicts"] = {k: v for k, v in verdict.items() if v != "raises"}
    for op in sorted(SUPPORTED):
        c = f"_generate: opcode {op}"
        if verdict.get(op) == "returns":
            run.holds("DISPATCH", c, gen.loc, "has a generating arm", nontrivial=True)
        elif verdict.get(op) == "unknown":
            run.undecided("DISPATCH", c, gen.loc, "the dispatcher could not be evaluated for this opcode")
        else:
            run.violated("DISPATCH", c, gen.loc, f"supported opcode {op} has no generating arm",
                         witness=f"a pattern using {op} is refused or mishandled")
    for op in sorted((universe & MUST_REFUSE)):
        c = f"_generate: opcode {op}"
        if verdict.get(op) in ("returns", "mixed"):
            run.violated("DISPATCH", c, gen.loc, f"unsupported opcode {op} is handled without raising",
                         witness="a pattern with lookaround / backreference / atomic group yields a string that need not match")
        elif verdict.get(op) == "unknown":
            run.undecided("DISPATCH", c, gen.loc, "the dispatcher could not be evaluated for this opcode")
        else:
            run.holds("DISPATCH", c, gen.loc, "no silent arm", nontrivial=True)
    for op in sorted(universe - SUPPORTED - MUST_REFUSE):
        if verdict.get(op) in ("returns", "mixed"):
            run.note("DISPATCH", f"_generate: opcode {op}", gen.loc, "extra opcode handled (outside the property's two lists)")
    if verdict[UNKNOWN] == "raises":
        run.holds("DISPATCH", "_generate: default arm", gen.loc, "unknown opcodes raise", nontrivial=True)
    elif verdict[UNKNOWN] == "unknown":
        run.undecided("DISPATCH", "_generate: default arm", gen.loc, "the dispatcher could not be evaluated")
    else:
        run.violated("DISPATCH", "_generate: default arm", gen.loc, "the dispatch default does not raise",
                     witness="RegexGenerator(...).generate('(?=a)b') returns a string instead of refusing")
    cat = cls.methods.get("_get_category_alphabet")
    if cat is None:
        raise AnalysisError("RegexGenerator._get_category_alphabet not found")
    cat_alpha: Dict[str, Optional[str]] = {}
    cverdict: Dict[str, str] = {}
    for cn in sorted(cats | {UNKNOWN}):
        ps = _run_dispatch(prog, model, cls, "_get_category_alphabet", [_op(prog, cls, cn)])
        cverdict[cn] = _dispatch_verdict(ps)
        vals = {p.value.value if isinstance(p.value, Const) and isinstance(p.value.value, str) else None for p in ps if p.outcome == "return"}
        if cverdict[cn] == "returns":
            cat_alpha[cn] = vals.pop() if len(vals) == 1 else None
    for cn in sorted(SUPPORTED_CAT):
        c = f"_get_category_alphabet: {cn}"
        if cverdict.get(cn) == "returns":
            run.holds("DISPATCH", c, cat.loc, "has an alphabet", nontrivial=True)
        elif cverdict.get(cn) == "unknown":
            run.undecided("DISPATCH", c, cat.loc, "the dispatcher could not be evaluated for this category")
        else:
            run.violated("DISPATCH", c, cat.loc, f"supported category {cn} has no alphabet", witness=r"\d or \w is refused")
    if cverdict[UNKNOWN] == "raises":
        run.holds("DISPATCH", "_get_category_alphabet: default arm", cat.loc, "unknown categories raise", nontrivial=True)
    elif cverdict[UNKNOWN] == "unknown":
        run.undecided("DISPATCH", "_get_category_alphabet: default arm", cat.loc, "the dispatcher could not be evaluated")
    else:
        run.violated("DISPATCH", "_get_category_alphabet: default arm", cat.loc, "unknown categories get an alphabet instead of a refusal",
                     witness=r"generate(r'\s') returns a non-space character")
    run.floor("DISPATCH", 15)

    # ---------------------------------------------------------------- NO-SWALLOW
    n_try = 0
    for m in cls.methods.values():
        for n in ast.walk(m.node):
            if isinstance(n, ast.Try):
                n_try += 1
                for h in n.handlers:
                    names = {x.id for x in ast.walk(h.type) if isinstance(x, ast.Name)} if h.type is not None else {"BaseException"}
                    if names & {"ValueError", "Exception", "BaseException"}:
                        calls = [c for c in ast.walk(ast.Module(body=n.body, type_ignores=[])) if isinstance(c, ast.Call)
                                 and isinstance(c.func, ast.Attribute) and c.func.attr.startswith("_generate") or
                                 (isinstance(c, ast.Call) and isinstance(c.func, ast.Attribute) and c.func.attr == "_get_category_alphabet")]
                        reraises = any(isinstance(x, ast.Raise) for x in ast.walk(ast.Module(body=h.body, type_ignores=[])))
                        if calls and not reraises:
                            run.violated("NO-SWALLOW", f"{m.qualname}: except {sorted(names)}", f"{mod.path}:{h.lineno}",
                                         "a handler catches the refusal raised by the dispatch default and continues",
                                         witness="an unsupported construct yields a string instead of an error")
    if not any(o.rule.endswith("NO-SWALLOW") for o in run.obs):
        run.holds("NO-SWALLOW", "RegexGenerator (all methods)", cls.loc, f"{n_try} try statements, none swallows the refusal", nontrivial=False)

    # ---------------------------------------------------------------- CHILDREN + DRAW-ORDER (abstract evaluation)
    _children(run, prog, model, cls)
    _validator_pattern(run, prog, model)
    _draw_nonempty(run, prog, model)
    _fallback_exact(run, prog, model, cls)
    _iterator_reuse(run, prog, cls)

    # ---------------------------------------------------------------- ALPHABET
    _alphabets(run, prog, model, cls, cat_alpha)

    # ---------------------------------------------------------------- NO-HIDDEN-STATE (memoised fragments go stale)
    from .c17 import hidden_state
    hidden_state(run, prog, cls, "NO-HIDDEN-STATE")
    for m in cls.methods.values():
        for n in ast.walk(m.node):
            if isinstance(n, ast.Call) and isinstance(n.func, ast.Name) and n.func.id == "id":
                run.violated("NO-HIDDEN-STATE", f"{m.qualname}: id()", f"{mod.path}:{n.lineno}",
                             "object identity used as a key/value in the generator: ids of temporaries are reused",
                             witness="generate('[^a][^b]') can emit the forbidden character of the second class")
    run.floor("NO-HIDDEN-STATE", 1)


def _run_handler(prog: Program, model: Model, cls: ClassInfo, name: str, mk: Any, small_alphabet: Optional[str] = None) -> List[Path]:
    it = Interp(prog, model, unroll=1)
    f = cls.methods[name]

    def choice(interp: Any, fv: Any, args: List[Any], kwargs: Dict[str, V], node: Any) -> Optional[V]:
        # random_choice over a concrete token list: any element (fork), so handlers see real node shapes
        if args and isinstance(args[0], (ListV, TupleV)) and args[0].concrete() and args[0].items:
            interp.emit("call", node, callee=fv.func.qualname, args=args, kwargs=kwargs, resolved=True, inlined=False)
            return args[0].items[interp.ch.choose(len(args[0].items), "choice")]
        return None
    it.contracts["d42.generation._random.Random.random_choice"] = choice

    def run(i: Interp) -> V:
        g = make_visitor(i, "Generator")
        rg = g.attrs.get("_regex_generator")
        assert isinstance(rg, Inst)
        if small_alphabet is not None:
            # a two-letter `letters` alphabet keeps the per-letter case analysis small; the rule only asks what the
            # candidate set DEPENDS on, not what it contains
            al = rg.attrs.get("_alphabet")
            if isinstance(al, DictV):
                al2 = DictV(list(al.items))
                al2.store(Const("letters"), Const(small_alphabet))
                rg = Inst(rg.cls, dict(rg.attrs, _alphabet=al2), rg.origin)
        return i.call_function(f, [mk()], {}, self_val=rg)
    return it.run_paths(run, max_paths=600)



def _validator_pattern(run: Run, prog: Program, model: Model) -> None:
    """VALIDATOR-PATTERN: "schema.str.regex(p) generates strings its own validation accepts" needs the validator to
    match the declared pattern itself: the regex error is raised exactly when re.search(props.pattern, value) is None.
    A validator that searches for a rewritten pattern accepts a different language than the generator produces."""
    from ..vtable import canonical, dedupe, extract
    from ..visits import Config
    for vis in ("Validator", "SubstitutorValidator"):
        f = model.visitors[vis].lookup("visit_str")
        rows, _ = extract(prog, model, vis, "visit_str", Config(("pattern",)), 1)
        mine = [r for r in dedupe(rows) if r.error == "RegexValidationError"]
        cs = {canonical(r.term, r.polarity) for r in mine}
        want = ("SEARCH_NONE", "props.pattern", "value")
        c = f"{vis}.visit_str: the declared pattern is what is matched"
        if not mine:
            run.violated("VALIDATOR-PATTERN", c, f.loc, "no RegexValidationError on any path: the pattern is not checked",
                         witness="validate(schema.str.regex(p), <any str>) has no errors")
        elif cs == {want}:
            run.holds("VALIDATOR-PATTERN", c, mine[0].site, "RegexValidationError iff re.search(props.pattern, value) is None", nontrivial=True)
        elif None in cs:
            run.undecided("VALIDATOR-PATTERN", c, mine[0].site, f"predicate {mine[0].pred_key[:90]} not in canonical form")
        else:
            other = sorted(x for x in cs if x and x != want)
            surgery = [x for x in other if any(m in x[1] for m in ("slice(", "replace", "strip", "removesuffix", "removeprefix", "split", "re.sub"))]
            if not surgery:
                # e.g. the pattern wrapped in a group plus an anchor: every full match of p still matches; not decided here
                run.undecided("VALIDATOR-PATTERN", c, mine[0].site, f"the validator searches for {other[0][1][:70]}, built around the declared "
                              "pattern; whether it still accepts every full match of the pattern is not decided")
                continue
            run.violated("VALIDATOR-PATTERN", c, mine[0].site, f"the validator also searches for {surgery[0][1][:70]}: characters of the regex "
                         "source are removed by plain string operations, which cannot tell an escaped metacharacter from a real one",
                         witness="a pattern the rewrite changes (e.g. one ending in an escaped `\\$`): fake(schema.str.regex(p)) "
                                 "full-matches p and validate() reports RegexValidationError")
    run.floor("VALIDATOR-PATTERN", 2)


def _draw_nonempty(run: Run, prog: Program, model: Model) -> None:
    """DRAW-NONEMPTY: every sequence the regex generator draws a member from is non-empty: a constant alphabet, a
    component of the parse tree (a class or an alternation has at least one member: parser contract), or a computed
    candidate set whose non-emptiness the path establishes.  A negated class computes `letters - excluded`; if nothing
    guards it, a class that excludes the whole alphabet (`[^ -~]`, satisfiable by any non-ASCII character) makes
    random.choice raise IndexError."""
    from ..partial import draw_nonempty
    from ..visits import Config, run_visit
    seen: Dict[str, Tuple[str, str, str]] = {}
    cls = prog.cls("generation._regex_generator.RegexGenerator")
    allpaths: List[Path] = []
    # ... and every handler on its own with a symbolic node (a dispatch through a table of method names cannot be followed
    # from a symbolic opcode, the handlers can still be evaluated one by one)
    for name in sorted(cls.methods):
        if name.startswith("_generate") and name not in ("_generate",):
            f_ = cls.methods[name]
            params = [a.arg for a in f_.node.args.posonlyargs + f_.node.args.args if a.arg != "self"]
            it_ = Interp(prog, model, unroll=1)

            def run_h(i: Interp, f_: Any = f_, params: Any = params) -> V:
                g = make_visitor(i, "Generator")
                rg = g.attrs.get("_regex_generator")
                assert isinstance(rg, Inst)
                al = rg.attrs.get("_alphabet")
                if isinstance(al, DictV):
                    # a two-letter `letters` alphabet keeps a per-letter case analysis small (non-emptiness of the
                    # candidate set does not depend on how many letters there are)
                    al2 = DictV(list(al.items))
                    al2.store(Const("letters"), Const("ab"))
                    rg = Inst(rg.cls, dict(rg.attrs, _alphabet=al2), rg.origin)
                return i.call_function(f_, [Sym(f"node.{p_}", None, ("node", p_)) for p_ in params], {}, self_val=rg)
            try:
                allpaths += it_.run_paths(run_h, max_paths=600)
            except Exception:
                pass
    for p in allpaths:
        for e in p.events:
            if e.kind != "partial" or e.data.get("op") != "random.choice" or not e.data.get("operands"):
                continue
            if not any("_regex_generator" in q for q in e.stack):
                continue
            seq = e.data["operands"][0]
            caller = next((q for q in reversed(e.stack) if "_regex_generator" in q), "").rsplit(".", 1)[-1]
            site = e.loc(prog)
            k = seq.key()
            ne = draw_nonempty(seq, p, e)
            if ne is None and isinstance(seq, Term) and seq.op == "call" and seq.args and isinstance(seq.args[0], str) \
                    and seq.args[0] in prog.functions:
                ne = _returns_nonempty(prog, model, cls, prog.functions[seq.args[0]])
            if ne is True:
                c = f"RegexGenerator.{caller}: draw from {'a constant alphabet' if isinstance(seq, Const) else k[:40]}"
                seen.setdefault(c, ("HOLDS", site, "non-empty"))
            elif ("parse" in k or re.search(r"\bnode\b", k)) and not any(
                    m in k for m in ("bin(-", "bin(&", "difference", "set(")):
                c = f"RegexGenerator.{caller}: draw from a component of the parse tree"
                seen.setdefault(c, ("HOLDS", site, "a class / an alternation has at least one member (parser contract)"))
            else:
                c = f"RegexGenerator.{caller}: draw from a computed candidate set"
                seen[c] = ("VIOLATED", site, f"nothing on the path establishes that {k[:60]}... is non-empty: a class that excludes the "
                           "whole alphabet leaves no candidate and random.choice raises IndexError")
    for c, (status, site, detail) in sorted(seen.items()):
        if status == "HOLDS":
            run.holds("DRAW-NONEMPTY", c, site, detail, nontrivial=True)
        else:
            run.violated("DRAW-NONEMPTY", c, site, detail,
                         witness="fake(schema.str.regex(r'^[^ -~]$')) raises IndexError although the schema accepts e.g. 'é'")
    run.floor("DRAW-NONEMPTY", 3)


_RET_NONEMPTY: Dict[str, Optional[bool]] = {}


def _returns_nonempty(prog: Program, model: Model, cls: ClassInfo, fi: FuncInfo) -> Optional[bool]:
    """Does every returning path of this (not inlined) helper return a provably non-empty sequence?"""
    from ..partial import draw_nonempty
    if fi.qualname in _RET_NONEMPTY:
        return _RET_NONEMPTY[fi.qualname]
    _RET_NONEMPTY[fi.qualname] = None
    params = [a.arg for a in fi.node.args.posonlyargs + fi.node.args.args if a.arg != "self"]
    it = Interp(prog, model, unroll=1)

    def run(i: Interp) -> V:
        g = make_visitor(i, "Generator")
        rg = g.attrs.get("_regex_generator")
        return i.call_function(fi, [Sym(f"arg.{p_}", None, ("param", p_)) for p_ in params], {}, self_val=rg if fi.cls is not None else None)
    ok = None
    try:
        for p in it.run_paths(run, max_paths=300):
            if p.outcome != "return" or p.value is None:
                continue
            ev = Event("return", None, fi.qualname, {}, len(p.facts))
            r = draw_nonempty(p.value, p, ev)
            if r is not True:
                ok = False
                break
            ok = True
    except Exception:
        ok = None
    _RET_NONEMPTY[fi.qualname] = ok
    return ok


def _le_on_path(lo: V, hi: V, p: Path) -> bool:
    from .c01 import le
    try:
        return lo.key() == hi.key() or le(lo, hi, list(p.facts)) is True
    except Exception:
        return False


_ONE_SHOT_CALLS = ("map", "filter", "zip", "iter", "reversed", "enumerate", "filterfalse", "chain", "islice")


def _iterator_reuse(run: Run, prog: Program, cls: ClassInfo) -> None:
    """ITERATOR-REUSE: a generator expression / map / filter object can be walked once.  One that is handed to a helper
    (or kept in a local) and walked there inside a loop - or at two places - is empty from the second walk on: the test
    it feeds (is the candidate in one of the class's categories?) silently passes for every later candidate."""
    def one_shot(e: ast.expr, local_defs: Dict[str, ast.expr]) -> bool:
        if isinstance(e, ast.GeneratorExp):
            return True
        if isinstance(e, ast.Call) and isinstance(e.func, ast.Name) and e.func.id in _ONE_SHOT_CALLS:
            return True
        if isinstance(e, ast.Name) and e.id in local_defs:
            return one_shot(local_defs[e.id], {})
        return False

    def consumptions(fn: ast.AST, name: str) -> List[Tuple[ast.AST, bool]]:
        """(site, inside a loop?) for every place that walks `name`"""
        par = parents(fn)
        out: List[Tuple[ast.AST, bool]] = []
        for n in ast.walk(fn):
            if not (isinstance(n, ast.Name) and n.id == name and isinstance(n.ctx, ast.Load)):
                continue
            p = par.get(n)
            walks = False
            if isinstance(p, (ast.For, ast.comprehension)) and p.iter is n:
                walks = True
            if isinstance(p, ast.Call) and n in p.args and isinstance(p.func, ast.Name) and p.func.id in (
                    "any", "all", "list", "tuple", "set", "frozenset", "sorted", "sum", "max", "min", "dict", "next", "len"):
                walks = True
            if isinstance(p, ast.Call) and n in p.args and isinstance(p.func, ast.Attribute) and p.func.attr == "join":
                walks = True
            if isinstance(p, ast.Starred):
                walks = True
            if not walks:
                continue
            in_loop = False
            q: Any = p
            while q is not None and q is not fn:
                up = par.get(q)
                if isinstance(up, (ast.For, ast.While)) and q is not getattr(up, "iter", None):
                    in_loop = True
                if isinstance(up, (ast.GeneratorExp, ast.ListComp, ast.SetComp, ast.DictComp)) and isinstance(q, ast.comprehension) \
                        and up.generators.index(q) > 0:
                    in_loop = True          # walked again for every member of an outer generator
                if isinstance(up, (ast.GeneratorExp, ast.ListComp, ast.SetComp, ast.DictComp)) and not isinstance(q, ast.comprehension):
                    in_loop = True          # in the element / condition: evaluated per member
                q = up
            out.append((n, in_loop))
        return out
    found = 0
    checked = 0
    for m in cls.methods.values():
        local_defs: Dict[str, ast.expr] = {}
        for n in ast.walk(m.node):
            if isinstance(n, ast.Assign) and len(n.targets) == 1 and isinstance(n.targets[0], ast.Name):
                local_defs[n.targets[0].id] = n.value
        # (1) a one-shot local walked in a loop / twice in this very function
        for name, val in local_defs.items():
            if one_shot(val, {}):
                cons = consumptions(m.node, name)
                checked += 1
                if any(il for _, il in cons) or len(cons) > 1:
                    found += 1
                    site = cons[0][0]
                    run.violated("ITERATOR-REUSE", f"{cls.name}.{m.name}: `{name}`", f"{m.module.path}:{getattr(site, 'lineno', 0)}",
                                 f"`{name}` is a one-shot iterator ({ast.unparse(val)[:50]}) and is walked "
                                 f"{'inside a loop' if any(il for _, il in cons) else 'at ' + str(len(cons)) + ' places'}: empty from the second walk on",
                                 witness="RegexGenerator(Random()).generate(r'[^\\w\\x00-\\xbf]') returns 'Á', which \\w matches")
        # (2) a one-shot argument of a call to a method of the class
        for n in ast.walk(m.node):
            if isinstance(n, ast.Call) and isinstance(n.func, ast.Attribute) and isinstance(n.func.value, ast.Name) and n.func.value.id == "self":
                callee = cls.lookup(n.func.attr)
                if callee is None:
                    continue
                params = [a.arg for a in callee.node.args.posonlyargs + callee.node.args.args if a.arg != "self"]
                bound = list(zip(params, n.args)) + [(k.arg, k.value) for k in n.keywords if k.arg]
                for pname, arg in bound:
                    if not one_shot(arg, local_defs):
                        continue
                    checked += 1
                    cons = consumptions(callee.node, pname)
                    if any(il for _, il in cons) or len(cons) > 1:
                        found += 1
                        site = cons[0][0]
                        run.violated("ITERATOR-REUSE", f"{cls.name}.{callee.name}: parameter `{pname}`", f"{callee.module.path}:{getattr(site, 'lineno', 0)}",
                                     f"{m.name} passes a one-shot iterator ({ast.unparse(arg)[:50]}) and {callee.name} walks it "
                                     f"{'inside a loop' if any(il for _, il in cons) else 'at ' + str(len(cons)) + ' places'}: empty from the second walk on",
                                     witness="RegexGenerator(Random()).generate(r'[^\\w\\x00-\\xbf]') returns 'Á', which \\w matches")
    if not found:
        run.holds("ITERATOR-REUSE", f"{cls.name}: one-shot iterators", cls.loc,
                  f"{checked} one-shot iterator(s) bound to a name / parameter, none walked more than once", nontrivial=bool(checked))


def _loop_syms(k: str) -> Set[str]:
    """keys of the loop / comprehension variables (`name@iterable`) that occur in the key `k`"""
    out: Set[str] = set()
    for m in re.finditer(r"\b\w+@", k):
        i = m.end()
        depth = 0
        j = i
        while j < len(k):
            ch = k[j]
            if ch == "(":
                depth += 1
            elif ch == ")":
                if depth == 0:
                    break
                depth -= 1
                if depth == 0:
                    j += 1
                    break
            elif ch in ", " and depth == 0:
                break
            j += 1
        out.add(k[m.start():j])
    return out


def _fallback_exact(run: Run, prog: Program, model: Model, cls: ClassInfo) -> None:
    """FALLBACK-EXACT: inside the generator's alphabet a category (\\w, \\d) is excluded through its alphabet, which is
    exact there (ALPHABET / category-subset rules).  A candidate taken from OUTSIDE the alphabet - the fallback for a
    negated class that exhausts it - must be tested against what the regex engine puts in the category, not against the
    ASCII alphabet only: `[^\\x00-\\xa9\\w]` would otherwise yield 'ª', a word character."""
    if "_generate_not_in" not in cls.methods:
        return
    f = cls.methods["_generate_not_in"]
    word = _op(prog, cls, "CATEGORY_WORD") if "_op" in globals() else None
    cat = _op(prog, cls, "CATEGORY")
    if word is None or cat is None:
        run.undecided("FALLBACK-EXACT", "RegexGenerator._generate_not_in: category outside the alphabet", f.loc, "category constants not resolved")
        return
    ps = _run_handler(prog, model, cls, "_generate_not_in", lambda: ListV([TupleV([cat, word])]), small_alphabet="ab")
    verdict: Optional[str] = None
    seen = 0
    for p in ps:
        for e in p.events:
            if e.kind == "partial" and e.data.get("op") == "random.choice" and e.data.get("operands"):
                k = e.data["operands"][0].key()
                if "builtins.chr" not in k:
                    continue                # drawn from the alphabet
                seen += 1
                tests = [fk for fk, _, _ in p.facts if "builtins.chr" in fk or "letter" in fk]
                beyond = [fk for fk in tests if not fk.startswith("in(")]
                if not beyond:
                    verdict = ("a character from outside the alphabet is admitted after membership tests against finite alphabets only "
                               f"({tests[0][:60] if tests else 'no test'}): the class's category is not consulted there")
    c = "RegexGenerator._generate_not_in: category outside the alphabet"
    if verdict:
        run.violated("FALLBACK-EXACT", c, f.loc, verdict,
                     witness="RegexGenerator(Random()).generate(r'[^\\x00-\\xa9\\w]') returns 'ª', which \\w matches")
    elif seen:
        run.holds("FALLBACK-EXACT", c, f.loc, "a candidate from outside the alphabet is tested with a predicate of the candidate itself", nontrivial=True)
    else:
        run.holds("FALLBACK-EXACT", c, f.loc, "no candidate is taken from outside the alphabet", nontrivial=False)
    # ... and against the WHOLE of each excluded range: inside the alphabet only the alphabet's share of a range matters
    # (set difference), a candidate from outside of it has to be compared with the range's own bounds
    lo, hi = Sym("rng_lo", "int", ("node", "lo")), Sym("rng_hi", "int", ("node", "hi"))
    ps = _run_handler(prog, model, cls, "_generate_not_in",
                      lambda: ListV([TupleV([_op(prog, cls, "RANGE"), TupleV([lo, hi])])]), small_alphabet="ab")
    c = "RegexGenerator._generate_not_in: range outside the alphabet"
    verdict = None
    seen = 0
    for p in ps:
        for e in p.events:
            if e.kind == "partial" and e.data.get("op") == "random.choice" and e.data.get("operands"):
                k = e.data["operands"][0].key()
                if "builtins.chr" not in k:
                    continue
                seen += 1
                toks = {k} | _loop_syms(k)
                tests = [fk for fk, _, _ in p.facts[:e.nfacts] if any(t in fk for t in toks)]
                if "rng_lo" in k or "rng_hi" in k:
                    continue            # computed from the bounds
                # how often a loop over range(lo, hi + 1) ran on the way is a dependence on the bounds too (bounded unrolling
                # stands for the whole expansion)
                loops = []
                for e2 in p.events:
                    if e2 is e:
                        break
                    if e2.kind in ("loop", "comp_iter") and isinstance(e2.data.get("iterable"), V):
                        loops.append(e2.data["iterable"].key())
                if any(("rng_lo" in lk or "rng_hi" in lk) and "range(" in lk for lk in loops):
                    continue
                if not any("rng_lo" in fk or "rng_hi" in fk for fk in tests):
                    verdict = ("a character from outside the alphabet is admitted without any test that relates it to the range's bounds "
                               f"({tests[0][:70] if tests else 'no test'}): only the alphabet's share of the range is excluded there")
    if any(p.outcome == "limit" for p in ps):
        run.undecided("FALLBACK-EXACT", c, f.loc, "path limit")
    elif verdict:
        run.violated("FALLBACK-EXACT", c, f.loc, verdict,
                     witness="RegexGenerator(Random()).generate(r'[^\\x00-\\x7f]') returns '\\x00', which the class excludes")
    elif seen:
        run.holds("FALLBACK-EXACT", c, f.loc, "a candidate from outside the alphabet is tested against a set / bounds built from the whole range", nontrivial=True)
    else:
        run.holds("FALLBACK-EXACT", c, f.loc, "no candidate is taken from outside the alphabet", nontrivial=False)


UNKNOWN = "__NO_SUCH_CODE__"


def _open_tests(p: Path) -> List[str]:
    """OPEN-SENTINEL: the parser writes every explicit upper bound as an int below MAXREPEAT and an open one as MAXREPEAT
    itself, so a test that sends the node's maximum to the cap must be true for MAXREPEAT only.  A comparand that
    denotes a smaller number (an opcode constant is a small named int) makes that explicit bound count as open:
    the count may then exceed it."""
    import re._constants as rc
    out: List[str] = []
    for ev in p.events:
        if ev.kind != "cond" or not ev.data["value"]:
            continue
        t = ev.data["term"]
        if not isinstance(t, Term) or t.op not in ("in", "eq", "is") or not any(a.key() == "max_count" for a in t.args):
            continue
        others = [a for a in t.args if a.key() != "max_count"]
        cands: List[V] = []
        for o in others:
            if isinstance(o, (TupleV, ListV, SetV)) and o.concrete():
                cands += list(o.items)
            else:
                cands.append(o)
        for c in cands:
            val: Any = None
            if isinstance(c, Ext):
                nm = c.name.rsplit(".", 1)[-1]
                val = getattr(rc, nm, None)
            elif isinstance(c, Const):
                val = c.value
            if isinstance(val, int) and not isinstance(val, bool):
                if int(val) < int(rc.MAXREPEAT):
                    out.append(f"an explicit upper bound equal to {c.key()} (= {int(val)}) is treated as open-ended: "
                               f"the count may exceed it")
            else:
                out.append(f"open-bound test compares the maximum with {c.key()[:40]}, whose value is not known")
    return out


def _run_dispatch(prog: Program, model: Model, cls: ClassInfo, name: str, args: List[V]) -> List[Path]:
    """Abstract evaluation of a dispatcher method with the sibling `_generate*` handlers summarised."""
    it = Interp(prog, model, unroll=1)
    f = cls.methods[name]

    def summary(hname: str) -> Any:
        def contract(interp: Any, fv: Any, a: List[Any], kw: Dict[str, V], node: Any) -> Optional[V]:
            interp.emit("call", node, callee=fv.func.qualname, args=a, kwargs=kw, resolved=True, inlined=False)
            return Sym(f"generated:{hname}", "str", ("handler", hname))
        return contract
    for m in cls.methods.values():
        if m.name != name and m.name.startswith("_generate"):
            it.contracts[m.qualname] = summary(m.name)

    def run(i: Interp) -> V:
        g = make_visitor(i, "Generator")
        rg = g.attrs.get("_regex_generator")
        assert isinstance(rg, Inst)
        return i.call_function(f, list(args), {}, self_val=rg)
    return it.run_paths(run)


def _dispatch_verdict(ps: List[Path]) -> str:
    outs = {p.outcome for p in ps}
    if not ps or "limit" in outs:
        return "unknown"
    if outs == {"raise"}:
        return "raises"
    if outs == {"return"}:
        return "returns"
    return "mixed"


def _calls(p: Path, suffix: str) -> List[Event]:
    return [e for e in p.events if e.kind == "call" and isinstance(e.data.get("callee"), str) and e.data["callee"].endswith(suffix)]


def _children(run: Run, prog: Program, model: Model, cls: ClassInfo) -> None:
    sub = Sym("sub", "list", ("node", "sub"))
    # SUBPATTERN
    if "_generate_subpattern" in cls.methods:
        ps = _run_handler(prog, model, cls, "_generate_subpattern",
                          lambda: TupleV([Sym("group", "int"), Sym("add", "int"), Sym("del", "int"), sub]))
        ok = all(any(e.data["args"] and e.data["args"][0].key() == "sub" for e in _calls(p, "_generate_pattern")) for p in ps if p.outcome == "return")
        site = cls.methods["_generate_subpattern"].loc
        if ok and ps:
            run.holds("CHILDREN", "SUBPATTERN: component 3 -> _generate_pattern", site, "", nontrivial=True)
        else:
            run.violated("CHILDREN", "SUBPATTERN: component 3 -> _generate_pattern", site,
                         "the sub-pattern of a group does not flow into the recursive generator", witness="generate('(ab)') != 'ab'")
    # BRANCH
    if "_generate_branch" in cls.methods:
        alts = Sym("alts", "list", ("node", "alts"))
        ps = _run_handler(prog, model, cls, "_generate_branch", lambda: TupleV([Const(None), alts]))
        ok = bool(ps)
        for p in ps:
            if p.outcome != "return":
                continue
            ch = [e for e in p.events if e.kind == "call" and isinstance(e.data.get("callee"), str) and e.data["callee"].endswith("random_choice")]
            gp = _calls(p, "_generate_pattern")
            if not (ch and ch[0].data["args"] and ch[0].data["args"][0].key() == "alts" and gp):
                ok = False
        site = cls.methods["_generate_branch"].loc
        if ok:
            run.holds("CHILDREN", "BRANCH: one alternative of component 1 -> _generate_pattern", site, "", nontrivial=True)
        else:
            run.violated("CHILDREN", "BRANCH: one alternative of component 1 -> _generate_pattern", site,
                         "alternation does not generate exactly one of its alternatives", witness="generate('a|b') not in ('a', 'b')")
    # REPEAT
    for name in ("_generate_max_repeat", "_generate_min_repeat"):
        if name not in cls.methods:
            continue
        mn, mx = Sym("min_count", "int", ("node", "min")), Sym("max_count", "int", ("node", "max"))
        ps = _run_handler(prog, model, cls, name, lambda: TupleV([mn, mx, sub]))
        site = cls.methods[name].loc
        probs: List[str] = []
        sentinel: Set[str] = set()
        nd = 0
        for p in ps:
            if p.outcome != "return":
                continue
            draws = [e for e in p.events if e.kind == "call" and isinstance(e.data.get("callee"), str) and e.data["callee"].endswith("random_int")
                     and e.data.get("inlined") is not False]
            if not draws:
                draws = [e for e in p.events if e.kind == "call" and isinstance(e.data.get("callee"), str) and e.data["callee"].endswith("random_int")]
            if not draws:
                probs.append("no draw of the repeat count")
                continue
            lo, hi = draws[0].data["args"][0], draws[0].data["args"][1]
            nd += 1
            if lo.key() != "min_count":
                probs.append(f"lower bound of the count is {lo.key()[:40]}, not the node's minimum")
            open_branch = any(k.startswith("in(max_count") and b for k, _, b in p.facts) or any(
                ev.kind == "cond" and "max_count" in ev.data["term"].key() and ev.data["value"] for ev in p.events)
            sentinel |= set(_open_tests(p))
            if hi.key() == "max_count":
                if open_branch:
                    probs.append("open-ended repeat draws up to MAXREPEAT itself")
            elif isinstance(hi, Term) and hi.op == "max" and any(a.key() == "min_count" for a in hi.args):
                pass     # max(cap, min) >= min
            elif open_branch and _le_on_path(lo, hi, p):
                pass     # the path condition itself establishes min <= upper (e.g. `min if min > cap else cap`)
            elif open_branch:
                probs.append(f"open-ended repeat capped at {hi.key()[:40]} which may be below the minimum count")
            else:
                probs.append(f"upper bound of the count is {hi.key()[:40]}")
            comps = [e for e in p.events if e.kind == "comp_iter"]
            gp = _calls(p, "_generate_pattern")
            if not gp or not any(e.data["args"] and e.data["args"][0].key() == "sub" for e in gp):
                probs.append("the repeated sub-pattern does not flow into _generate_pattern")
            if not any("range" in c.data["iterable"].key() and draws[0].data.get("callee") for c in comps):
                probs.append("the drawn count does not bound the repetition")
        cs = f"{name[10:].upper()}: only the parser's open-bound sentinel is replaced by the cap"
        if sentinel:
            unknown = [x for x in sentinel if "not known" in x]
            if len(unknown) == len(sentinel):
                run.undecided("OPEN-SENTINEL", cs, site, "; ".join(sorted(sentinel)))
            else:
                run.violated("OPEN-SENTINEL", cs, site, "; ".join(sorted(x for x in sentinel if x not in unknown)),
                             witness="RegexGenerator(Random(), max_repeat=100).generate('^a{3,N}$') with N the number named above "
                                     "returns more than N characters, which the pattern does not match")
        elif nd:
            run.holds("OPEN-SENTINEL", cs, site, "every comparand of the open-bound test is MAXREPEAT", nontrivial=True)
        c = f"{name[10:].upper()}: count in [min, max(cap, min)] copies of component 2"
        if probs:
            run.violated("CHILDREN", c, site, "; ".join(sorted(set(probs))),
                         witness="generate('a{40,}') has fewer than 40 characters / raises ValueError(empty range)")
        elif nd:
            run.holds("CHILDREN", c, site, f"{nd} draw paths", nontrivial=True)
        else:
            run.undecided("CHILDREN", c, site, "no returning path")
    # IN / RANGE
    if "_generate_in" in cls.methods:
        lo, hi = Sym("lo", "int", ("node", "lo")), Sym("hi", "int", ("node", "hi"))
        rng = Ext("re._constants.RANGE")
        ps = _run_handler(prog, model, cls, "_generate_in", lambda: ListV([TupleV([_op(prog, cls, "RANGE"), TupleV([lo, hi])])]))
        site = cls.methods["_generate_in"].loc
        ok = False
        for p in ps:
            if p.outcome != "return":
                continue
            for e in p.events:
                if e.kind == "call" and isinstance(e.data.get("callee"), str) and e.data["callee"].endswith("random_int") and len(e.data["args"]) == 2:
                    a, b = e.data["args"]
                    if (a.key(), b.key()) == ("lo", "hi"):
                        ok = True
        if ok:
            run.holds("CHILDREN", "IN/RANGE: ordinal drawn in [lo, hi]", site, "", nontrivial=True)
        else:
            run.violated("CHILDREN", "IN/RANGE: ordinal drawn in [lo, hi]", site, "a character range is not drawn between its own bounds",
                         witness="generate('[a-c]') not in 'abc'")
    # NEGATED RANGE: every alphabet letter inside [lo, hi] is excluded
    if "_generate_not_in" in cls.methods:
        lo, hi = Sym("lo", "int", ("node", "lo")), Sym("hi", "int", ("node", "hi"))
        ps = _run_handler(prog, model, cls, "_generate_not_in", lambda: ListV([TupleV([_op(prog, cls, "RANGE"), TupleV([lo, hi])])]))
        site = cls.methods["_generate_not_in"].loc
        letters = _letters(prog, model)
        c = "NOT_IN/RANGE: every alphabet letter of [lo, hi] is excluded"
        spans: List[Tuple[V, V]] = []
        other = False
        for p in ps:
            for e in p.events:
                if e.kind in ("comp_iter", "loop") and e.func.endswith("_generate_not_in"):
                    it = e.data["iterable"]
                    if isinstance(it, Term) and it.op == "src":
                        it = it.args[0]
                    if isinstance(it, Term) and it.op == "range" and len(it.args) == 2 and ("lo" in it.key() or "hi" in it.key()):
                        spans.append((it.args[0], it.args[1]))
                    elif isinstance(it, V) and ("lo" in it.key().split("@")[0] or "hi" in it.key().split("@")[0]):
                        other = True
        if not spans or letters is None:
            run.undecided("CHILDREN", c, site, "the expansion of a negated range is not a range(a, b) over its bounds" if not spans else "alphabet not constant")
        else:
            from .c01 import _int_eval
            ords = sorted({ord(ch) for ch in letters})
            cands = sorted({0, 1, ords[0] - 1, ords[0], ords[0] + 1, ords[len(ords) // 2], ords[-1] - 1, ords[-1], ords[-1] + 1, ords[-1] + 40})
            cex = None
            evaluable = True
            for a, b in spans:
                for l in cands:
                    for h in cands:
                        if l > h or l < 0:
                            continue
                        env = {"lo": l, "hi": h}
                        av, bv = _int_eval(a, env), _int_eval(b, env)
                        if av is None or bv is None:
                            evaluable = False
                            continue
                        missed = [x for x in ords if l <= x <= h and not (av <= x < bv)]
                        if missed and cex is None:
                            cex = (l, h, missed[0], a.key(), b.key())
            if cex is not None:
                l, h, x, ak, bk = cex
                run.violated("CHILDREN", c, site,
                             f"for the range [{l}, {h}] the expansion range({ak[:40]}, {bk[:40]}) leaves {chr(x)!r} ({x}) of the alphabet un-excluded",
                             witness=f"generate('[^{chr(max(l, 33))}-{chr(min(h, 126))}]') can return {chr(x)!r}")
            elif not evaluable:
                run.undecided("CHILDREN", c, site, "bounds of the expansion are not arithmetic over lo / hi")
            else:
                run.holds("CHILDREN", c, site, f"range bounds cover [lo, hi] on {len(cands) ** 2 // 2} sampled placements against the {len(ords)}-letter alphabet", nontrivial=True)
    # NEGATED CLASS with several members: the candidate alphabet depends on EVERY member (an early `return` in a
    # per-member test makes the members after a range / category invisible)
    if "_generate_not_in" in cls.methods:
        site = cls.methods["_generate_not_in"].loc
        lit = Sym("lit_c", "int", ("node", "lit"))
        lo2, hi2 = Sym("rng_lo", "int", ("node", "lo")), Sym("rng_hi", "int", ("node", "hi"))
        orders = [("range then literal", lambda: ListV([TupleV([_op(prog, cls, "RANGE"), TupleV([lo2, hi2])]),
                                                        TupleV([_op(prog, cls, "LITERAL"), lit])]), ["rng_lo", "lit_c"]),
                  ("literal then range", lambda: ListV([TupleV([_op(prog, cls, "LITERAL"), lit]),
                                                        TupleV([_op(prog, cls, "RANGE"), TupleV([lo2, hi2])])]), ["lit_c", "rng_lo"])]
        for label, mk, names in orders:
            ps = _run_handler(prog, model, cls, "_generate_not_in", mk, small_alphabet="ab")
            c = f"NOT_IN: every member of the class is consulted ({label})"
            blind: List[str] = []
            seen = 0
            for p in ps:
                for e in p.events:
                    if e.kind == "call" and isinstance(e.data.get("callee"), str) and e.data["callee"].endswith("random_choice") and e.data.get("args"):
                        seen += 1
                        dep = e.data["args"][0].key() + " " + " ".join(k for k, _, _ in p.facts[:e.nfacts])
                        # how often a loop over range(lo, hi + 1) ran is a dependence on its bounds too
                        for e2 in p.events:
                            if e2 is e:
                                break
                            if e2.kind in ("loop", "comp_iter") and isinstance(e2.data.get("iterable"), V):
                                dep += " " + e2.data["iterable"].key()
                        for nm in names:
                            if nm not in dep:
                                blind.append(f"on a path the candidate letters {e.data['args'][0].key()[:40]} do not depend on `{nm}` "
                                             f"(conditions: {', '.join(k[:40] for k, _, _ in p.facts[:e.nfacts][-2:]) or 'none'})")
            if any(p.outcome == "limit" for p in ps) or not seen:
                run.undecided("CHILDREN", c, site, "path limit / no draw reached")
            elif blind:
                run.violated("CHILDREN", c, site, "; ".join(sorted(set(blind)))[:300],
                             witness="generate('[^0-9a-f]') can return 'c' / generate('[^a-z_]') can return '_'")
            else:
                run.holds("CHILDREN", c, site, f"the drawn alphabet depends on all members on {seen} draw paths", nontrivial=True)
    run.floor("CHILDREN", 4)


def _letters(prog: Program, model: Model) -> Optional[str]:
    it = Interp(prog, model)
    out: List[Optional[str]] = [None]

    def run1(i: Interp) -> V:
        g = make_visitor(i, "Generator")
        rg = g.attrs.get("_regex_generator")
        al = rg.attrs.get("_alphabet") if isinstance(rg, Inst) else None
        if al is not None and hasattr(al, "pairs"):
            for k, v in al.pairs():  # type: ignore
                if isinstance(k, Const) and k.value == "letters" and isinstance(v, Const) and isinstance(v.value, str):
                    out[0] = v.value
        return Const(None)
    it.run_paths(run1)
    return out[0]


def _op(prog: Program, cls: ClassInfo, name: str) -> V:
    r = prog.resolve(cls.module.name, name)
    return Ext(r) if isinstance(r, str) else Ext(f"re._constants.{name}")


def _alphabets(run: Run, prog: Program, model: Model, cls: ClassInfo, cat_alpha: Dict[str, Optional[str]]) -> None:
    # constant-fold self._alphabet from __init__ by abstract evaluation of the singleton construction
    it = Interp(prog, model)
    out: Dict[str, Optional[str]] = {}

    def run1(i: Interp) -> V:
        g = make_visitor(i, "Generator")
        rg = g.attrs.get("_regex_generator")
        assert isinstance(rg, Inst)
        al = rg.attrs.get("_alphabet")
        if al is not None and hasattr(al, "pairs"):
            for k, v in al.pairs():  # type: ignore
                if isinstance(k, Const):
                    out[k.value] = v.value if isinstance(v, Const) and isinstance(v.value, str) else None
        return Const(None)
    it.run_paths(run1)
    init = cls.methods.get("__init__")
    site = init.loc if init else cls.loc
    if not out:
        run.undecided("ALPHABET", "RegexGenerator._alphabet", site, "alphabet table could not be constant-folded")
        return
    # the alphabet each supported category is answered with (value returned by the category dispatcher)
    for cn, chars in sorted(cat_alpha.items()):
        c = f"alphabet for {cn}"
        rx = CAT_REGEX.get(cn)
        if chars is None or rx is None:
            run.undecided("ALPHABET", c, site, "not a constant / unknown category")
            continue
        bad = sorted({ch for ch in chars if re.fullmatch(rx, ch) is None})
        if not chars:
            run.violated("ALPHABET", c, site, "empty alphabet: random_choice raises IndexError", witness=f"generate(r'{rx}') raises")
        elif bad:
            run.violated("ALPHABET", c, site, f"characters {bad[:8]!r} are outside {rx}", witness=f"generate(r'{rx}') can return {bad[0]!r}")
        else:
            run.holds("ALPHABET", c, site, f"all {len(chars)} characters match {rx}", nontrivial=True)
    letters = out.get("letters")
    if letters is None:
        run.undecided("ALPHABET", "alphabet['letters'] for `.` and negated classes", site, "not a constant")
    else:
        probs = []
        if "\n" in letters:
            probs.append("contains a newline, which `.` does not match")
        if len(set(letters)) < 2:
            probs.append("fewer than two characters: a negated literal may have no candidate")
        # negated categories: removing the category alphabet must remove every letter the category matches
        for cn, ca in cat_alpha.items():
            rx = CAT_REGEX.get(cn)
            if rx and ca is not None:
                leak = sorted({ch for ch in letters if re.fullmatch(rx, ch) and ch not in ca})
                if leak:
                    probs.append(f"[^{rx}] can yield {leak[:5]!r}: matched by {rx} but missing from the alphabet of {cn}")
        if probs:
            run.violated("ALPHABET", "alphabet['letters'] for `.` and negated classes", site, "; ".join(probs),
                         witness="generate('.') / generate(r'[^\\d]') returns a non-matching character")
        else:
            run.holds("ALPHABET", "alphabet['letters'] for `.` and negated classes", site,
                      f"{len(letters)} characters, no newline, closed under removal of the category alphabets", nontrivial=True)
    run.floor("ALPHABET", 3)


X = "d42/generation/_regex_generator.py"
MUTANTS = [
    {"name": "fallback for an exhausted negated class removed (fix 30d0521 reverted)", "rule": "DRAW-NONEMPTY",
     "edits": [(X, "        if len(letters) == 0:\n            # the class excludes the whole alphabet: fall back to the first character it admits\n            categories = [val for opcode, val in value if opcode == CATEGORY]\n            letters = self._first_letter_not_in(exclude_letters, categories)\n", "")]},
    {"name": "validator rewrites a trailing `$` of the pattern into \\Z by string surgery (seeded C09-J)", "rule": "VALIDATOR-PATTERN",
     "edits": [("d42/validation/_validator.py", "            match_object = re.search(schema.props.pattern, value)", "            pattern = schema.props.pattern\n            if pattern.endswith(\"$\"):\n                pattern = pattern[:-1] + r\"\\Z\"\n            match_object = re.search(pattern, value)")]},
    {"name": "neutral: validator searches through a compiled pattern object", "expect": "SILENT",
     "edits": [("d42/validation/_validator.py", "            match_object = re.search(schema.props.pattern, value)", "            match_object = re.compile(schema.props.pattern).search(value)")]},
    {"name": "open-bound test also compares with the MAX_REPEAT opcode (fix fb5f5e2 reverted)", "rule": "OPEN-SENTINEL",
     "edits": [(X, "        if max_count == MAXREPEAT:", "        if max_count in (MAX_REPEAT, MAXREPEAT):")]},
    {"name": "open-bound test compares with a literal small number", "rule": "OPEN-SENTINEL",
     "edits": [(X, "        if max_count == MAXREPEAT:", "        if max_count == MAXREPEAT or max_count == 64:")]},
    {"name": "neutral: open-bound test written with `in (MAXREPEAT,)`", "expect": "SILENT",
     "edits": [(X, "        if max_count == MAXREPEAT:", "        if max_count in (MAXREPEAT,):")]},
    {"name": "negated class: per-letter test returns at the first range", "rule": "CHILDREN",
     "edits": [(X, "        letters = \"\".join(set(self._alphabet[\"letters\"]) - set(exclude_letters))",
                "        first = value[0] if value else None\n        if first is not None and first[0] == RANGE:\n            exclude_letters = \"\".join(chr(x) for x in range(first[1][0], first[1][1] + 1))\n        letters = \"\".join(set(self._alphabet[\"letters\"]) - set(exclude_letters))")]},
    {"name": "dispatch default returns ''", "rule": "DISPATCH",
     "edits": [(X, "        else:\n            raise ValueError(f\"Unknown opcode {opcode}\")", "        else:\n            return \"\"")]},
    {"name": "category default returns letters", "rule": "DISPATCH",
     "edits": [(X, "        else:\n            raise ValueError(f\"Unknown category {value}\")", "        else:\n            return self._alphabet[\"letters\"]")]},
    {"name": "open repeat capped at self._max_repeat", "rule": "CHILDREN",
     "edits": [(X, "            max_count = max(self._max_repeat, min_count)", "            max_count = self._max_repeat")]},
    {"name": "newline added to letters", "rule": "ALPHABET",
     "edits": [(X, "string.punctuation + \" \",", "string.punctuation + \" \\n\",")]},
    {"name": "underscore dropped from the word alphabet (negated \\w leaks '_')", "rule": "ALPHABET",
     "edits": [(X, "\"word\": string.ascii_letters + string.digits + \"_\",", "\"word\": string.ascii_letters + string.digits,")]},
    {"name": "dash added to the word alphabet", "rule": "ALPHABET",
     "edits": [(X, "\"word\": string.ascii_letters + string.digits + \"_\",", "\"word\": string.ascii_letters + string.digits + \"_-\",")]},
    {"name": "subpattern generates the flags component", "rule": "CHILDREN",
     "edits": [(X, "        group, add_flags, del_flags, subpattern = value\n        return self._generate_pattern(subpattern)", "        group, add_flags, subpattern, del_flags = value\n        return self._generate_pattern(subpattern)")]},
    {"name": "lookahead silently generated as its body", "rule": "DISPATCH",
     "edits": [(X, "        elif opcode == BRANCH:\n            return self._generate_branch(value)", "        elif opcode == BRANCH:\n            return self._generate_branch(value)\n        elif opcode == ASSERT:\n            return self._generate_pattern(value[1])"),
               (X, "        ANY,\n        AT,\n        BRANCH,", "        ANY,\n        ASSERT,\n        AT,\n        BRANCH,")]},
    {"name": "refusal swallowed in _generate_pattern", "rule": "NO-SWALLOW",
     "edits": [(X, "        return \"\".join(self._generate(*x) for x in value)", "        out = \"\"\n        for x in value:\n            try:\n                out += self._generate(*x)\n            except ValueError:\n                pass\n        return out")]},
    {"name": "repeat lower bound starts at zero", "rule": "CHILDREN",
     "edits": [(X, "        count = self._random.random_int(min_count, max_count)", "        count = self._random.random_int(0, max_count)")]},
    {"name": "negated range expanded without its upper end", "rule": "CHILDREN",
     "edits": [(X, "max_ord + 1))", "max_ord))")]},
    {"name": "neutral: negated range expanded by an explicit loop", "expect": "SILENT",
     "edits": [(X, "                exclude_letters += \"\".join(self._generate_literal(x) for x in range(min_ord,\n                                                                                    max_ord + 1))",
                "                for x in range(min_ord, max_ord + 1):\n                    exclude_letters += self._generate_literal(x)")]},
    {"name": "neutral: elif chain turned into `in` tests", "expect": "SILENT",
     "edits": [(X, "        elif opcode == MIN_REPEAT:\n            return self._generate_min_repeat(value)", "        elif opcode in (MIN_REPEAT,):\n            return self._generate_min_repeat(value)")]},
    {"name": "neutral: count drawn into a differently named local", "expect": "SILENT",
     "edits": [(X, "        count = self._random.random_int(min_count, max_count)\n        return \"\".join(self._generate_pattern(val) for _ in range(count))",
                "        times = self._random.random_int(min_count, max_count)\n        return \"\".join(self._generate_pattern(val) for _ in range(times))")]},
]

MUTANTS += [
    {"name": "negated-class complement memoised by id(node)", "rule": "NO-HIDDEN-STATE",
     "edits": [(X, "        letters = \"\".join(set(self._alphabet[\"letters\"]) - set(exclude_letters))\n        if len(letters) == 0:",
                "        key = id(value)\n        if key not in self._alphabet:\n            self._alphabet[key] = \"\".join(set(self._alphabet[\"letters\"]) - set(exclude_letters))\n        letters = self._alphabet[key]\n        if len(letters) == 0:")]},
]

# round 7: the seeded changes that were missed on first contact, replayed against the current tree
MUTANTS += [
    {"name": 'seeded C09-N', "rule": 'FALLBACK-EXACT',
     "edits": [('d42/generation/_regex_generator.py', '        exclude_letters = ""\n        for opcode, val in value:\n            if opcode == RANGE:\n                min_ord, max_ord = val\n                exclude_letters += "".join(self._generate_literal(x) for x in range(min_ord,\n                                                                                    max_ord + 1))\n            elif opcode == CATEGORY:\n                exclude_letters += self._get_category_alphabet(val)\n            else:\n', '        exclude_letters = ""\n        for opcode, val in value:\n            if opcode == RANGE:\n                # only the letters that can be drawn matter: do not materialise the whole range\n                # ([^\\x00-\\U0010ffff] would build a string of 1.1M characters on every call)\n                min_ord, max_ord = val\n                exclude_letters += "".join(x for x in self._alphabet["letters"]\n                                           if min_ord <= ord(x) <= max_ord)\n            elif opcode == CATEGORY:\n                exclude_letters += self._get_category_alphabet(val)\n            else:\n')]},
]

MUTANTS += [
    {"name": "the fallback for an exhausted negated class ignores categories outside the alphabet (fix d2d2014 reverted)", "rule": "FALLBACK-EXACT",
     "edits": [(X, "            if any(self._is_in_category(category, letter) for category in categories):\n                continue\n", "")]},
    {"name": "neutral: the fallback tests the category before the excluded letters", "expect": "SILENT",
     "edits": [(X, "            if letter in excluded:\n                continue\n            if any(self._is_in_category(category, letter) for category in categories):\n                continue\n",
                "            if any(self._is_in_category(category, letter) for category in categories):\n                continue\n            if letter in excluded:\n                continue\n")]},
    {"name": "neutral: a negated range is tested by its bounds instead of being expanded", "expect": "SILENT",
     "edits": [(X, "            if letter in excluded:\n                continue\n", "            if letter in excluded or any(lo <= ord(letter) <= hi for lo, hi in ranges):\n                continue\n"),
               (X, "    def _first_letter_not_in(self, exclude_letters: str, categories: List[Any]) -> str:\n", "    def _first_letter_not_in(self, exclude_letters: str, categories: List[Any],\n                             ranges: Any = ()) -> str:\n"),
               (X, "            letters = self._first_letter_not_in(exclude_letters, categories)\n", "            ranges = [val for opcode, val in value if opcode == RANGE]\n            letters = self._first_letter_not_in(exclude_letters, categories, ranges)\n")]},
]

MUTANTS += [
    {"name": 'seeded C09-O', "rule": 'ITERATOR-REUSE',
     "edits": [('d42/generation/_regex_generator.py', '        SUBPATTERN,\n    )\n\nfrom typing import Any, Dict, List, Optional, Tuple\n\nfrom ._random import Random\n\n', '        SUBPATTERN,\n    )\n\nfrom typing import Any, Dict, Iterable, List, Optional, Tuple\n\nfrom ._random import Random\n\n'),
               ('d42/generation/_regex_generator.py', '        letters = "".join(set(self._alphabet["letters"]) - set(exclude_letters))\n        if len(letters) == 0:\n            # the class excludes the whole alphabet: fall back to the first character it admits\n            categories = [val for opcode, val in value if opcode == CATEGORY]\n            letters = self._first_letter_not_in(exclude_letters, categories)\n        return self._random.random_choice(letters)\n\n', '        letters = "".join(set(self._alphabet["letters"]) - set(exclude_letters))\n        if len(letters) == 0:\n            # the class excludes the whole alphabet: fall back to the first character it admits\n            categories = (val for opcode, val in value if opcode == CATEGORY)\n            letters = self._first_letter_not_in(exclude_letters, categories)\n        return self._random.random_choice(letters)\n\n'),
               ('d42/generation/_regex_generator.py', '        else:\n            raise ValueError(f"Unknown category {category}")\n\n    def _first_letter_not_in(self, exclude_letters: str, categories: List[Any]) -> str:\n        excluded = set(exclude_letters)\n        for code in range(sys.maxunicode + 1):\n            letter = chr(code)\n            if letter in excluded:\n                continue\n            if any(self._is_in_category(category, letter) for category in categories):\n', '        else:\n            raise ValueError(f"Unknown category {category}")\n\n    def _first_letter_not_in(self, exclude_letters: str, categories: Iterable[Any]) -> str:\n        excluded = frozenset(exclude_letters)\n        for letter in map(chr, range(sys.maxunicode + 1)):\n            if letter in excluded:\n                continue\n            if any(self._is_in_category(category, letter) for category in categories):\n')]},
]
