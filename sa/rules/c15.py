"""C15 - schema equality is structural; schema == value means the value validates.

REGISTRY-BOTH-WAYS (every key of both registries is compared, missing = Nil, class first), NE-NEGATION,
CLASS-SYMMETRY, OPTIONAL-EQ-HASH, EQ-FALLBACK (non-schema operand -> validate), KIND-CONFUSION (markers that
can reach the validate fallback from inside a structural comparison).
"""
from __future__ import annotations

import ast
from typing import Any, Dict, List, Optional, Set, Tuple

from ..automaton import build
from ..engine import Interp
from ..interp import Path
from ..loader import AnalysisError, ClassInfo, FuncInfo, Program
from ..model import Model
from ..report import Run
from ..values import (ELL, NIL, Const, DictV, ExcV, Inst, ListV, PropsV, SchemaV, Sym, Term, TupleV, V, is_ell, is_nil)
from ..visits import Config, run_visit, validator_ctx


def check(run: Run, prog: Program, model: Model, tier: str) -> None:
    run.explanation = (
        "Props.__eq__ is evaluated abstractly on two registries with overlapping and disjoint keys: on the path that "
        "returns True every key of both sides must have been compared with the other side's value (Nil when absent), "
        "and a different Props class must short-circuit to False. Schema.__ne__ must be the negation of __eq__, the "
        "import-time override must install the structural/validating `eq`, no two instantiable schema (or Props) "
        "classes may be in a subclass relation (symmetry of the class test), optional's __eq__ and __hash__ must use "
        "the same field. Kind-confusion: from the declaration code it is derived which prop values can hold a non-"
        "schema marker at a position where the other side holds a schema; such a pair sends the generic != into "
        "eq()'s validate fallback and is reported with a counterexample when some schema accepts the marker."
        " The fixed-value row of the validator must be the plain `!=` comparison, so that schemas equal under Props.__eq__ give identical verdicts.")
    run.explanation += ' KIND-CONFUSION also derives the absent-prop (Nil) construct: two unequal accept-everything schemas each equal `absent`.'
    run.explanation += ' NE-NEGATION is decided path by path: every returning path of Schema.__ne__ has consulted the installed eq and none answers NotImplemented.'
    run.rule_text = ("one obligation per compared key / structural clause / marker pair; non-trivial = derived on interpreter paths")
    from ..entry import entry_transparent
    entry_transparent(run, prog, model, "validate", "VALIDATE-ENTRY")
    pb = model.props_base
    eqm = pb.methods.get("__eq__")
    if eqm is None:
        raise AnalysisError("Props.__eq__ not found")
    st = model.schemas["StrSchema"]

    # ---------------------------------------------------------------- REGISTRY-BOTH-WAYS
    it = Interp(prog, model, unroll=1)

    def run1(i: Interp) -> V:
        a = PropsV(st.props_cls, {"p": Sym("a_p"), "q": Sym("a_q")}, "schema")
        b = PropsV(st.props_cls, {"q": Sym("b_q"), "r": Sym("b_r")}, "schema")
        return i.call_function(eqm, [b], {}, self_val=a)
    paths = it.run_paths(run1)
    true_paths = [p for p in paths if p.outcome == "return" and isinstance(p.value, Const) and p.value.value is True]
    want = {"p": {"a_p", "<niltype.Nil>"}, "q": {"a_q", "b_q"}, "r": {"b_r", "<niltype.Nil>"}}
    if not true_paths:
        run.violated("REGISTRY-BOTH-WAYS", "Props.__eq__: returns True", eqm.loc, "no path returns True for equal registries",
                     witness="schema.int == schema.int is False")
    else:
        for key, pair in want.items():
            ok = True
            for p in true_paths:
                pairs = [{e.data["a"].key(), e.data["b"].key()} for e in p.events if e.kind == "compare"]
                if pair not in pairs:
                    ok = False
            side = "only on the left" if key == "p" else "only on the right" if key == "r" else "on both sides"
            c = f"Props.__eq__: key present {side}"
            if ok:
                run.holds("REGISTRY-BOTH-WAYS", c, eqm.loc, f"compared as {sorted(pair)} on every True path", nontrivial=True)
            else:
                run.violated("REGISTRY-BOTH-WAYS", c, eqm.loc,
                             f"equality can return True without comparing a prop that is present {side}",
                             witness="schema.str.len(1) == schema.str (or the reverse) is True although they accept different values")
    it2 = Interp(prog, model, unroll=1)
    other_cls = model.schemas["IntSchema"].props_cls

    def run2(i: Interp) -> V:
        a = PropsV(st.props_cls, {}, "schema")
        b = PropsV(other_cls, {}, "schema")
        return i.call_function(eqm, [b], {}, self_val=a)
    ps2 = it2.run_paths(run2)
    if ps2 and all(p.outcome == "return" and isinstance(p.value, Const) and p.value.value is False for p in ps2):
        run.holds("REGISTRY-BOTH-WAYS", "Props.__eq__: different Props class", eqm.loc, "short-circuits to False", nontrivial=True)
    else:
        run.violated("REGISTRY-BOTH-WAYS", "Props.__eq__: different Props class", eqm.loc,
                     "props of different classes can compare equal", witness="schema.int.props == schema.str.props")
    run.floor("REGISTRY-BOTH-WAYS", 4)

    # all schema state lives in _props: Schema subclasses assign no other instance attribute
    extra_state = []
    for s in model.schemas.values():
        for m in s.cls.methods.values():
            for n in ast.walk(m.node):
                if isinstance(n, ast.Attribute) and isinstance(n.ctx, ast.Store) and isinstance(n.value, ast.Name) and n.value.id == "self" \
                        and n.attr != "_props":
                    extra_state.append((s.cls.name, m.name, n.attr, n.lineno))
    if extra_state:
        for cn, mn, attr, ln in extra_state:
            run.violated("STATE-IN-PROPS", f"{cn}.{mn}: self.{attr}", f"line {ln}",
                         "schema state kept outside props does not take part in ==", witness="two schemas differing in that attribute are equal")
    else:
        run.holds("STATE-IN-PROPS", "Schema subclasses", model.schema_base.loc, "no instance attribute besides _props", nontrivial=False)

    # ---------------------------------------------------------------- NE-NEGATION + override
    ne = model.schema_base.methods.get("__ne__")
    ov = model.overrides.get("__eq__")
    if ov is None or not isinstance(ov[0], FuncInfo):
        run.violated("NE-NEGATION", "Schema.__eq__ override", model.schema_base.loc, "`==` is not overridden by validation.eq at import",
                     witness="schema.int == 1 is False")
    else:
        run.holds("NE-NEGATION", "Schema.__eq__ override", ov[0].loc, f"installed on the base class: {ov[0].qualname}", nontrivial=False)
    if ne is None:
        run.violated("NE-NEGATION", "Schema.__ne__", model.schema_base.loc, "no __ne__ defined on Schema", witness="a != b is not (a == b)")
    else:
        ok = False

        def _is_eq_expr(x: Any) -> bool:
            return (isinstance(x, ast.Call) and isinstance(x.func, ast.Attribute) and x.func.attr == "__eq__"
                    and isinstance(x.func.value, ast.Name) and x.func.value.id == "self") or \
                   (isinstance(x, ast.Compare) and len(x.ops) == 1 and isinstance(x.ops[0], ast.Eq))
        eq_locals = {t.id for n in ast.walk(ne.node) if isinstance(n, (ast.Assign, ast.AnnAssign)) and n.value is not None
                     and _is_eq_expr(n.value) for t in (n.targets if isinstance(n, ast.Assign) else [n.target]) if isinstance(t, ast.Name)}
        for n in ast.walk(ne.node):
            if isinstance(n, ast.Return) and isinstance(n.value, ast.UnaryOp) and isinstance(n.value.op, ast.Not):
                inner = n.value.operand
                if isinstance(inner, ast.Name) and inner.id in eq_locals:
                    ok = True           # is_equal = self.__eq__(other); return not is_equal
                if isinstance(inner, ast.Call) and isinstance(inner.func, ast.Attribute) and inner.func.attr == "__eq__" \
                        and isinstance(inner.func.value, ast.Name) and inner.func.value.id == "self":
                    ok = True
                if isinstance(inner, ast.Compare) and isinstance(inner.ops[0], ast.Eq):
                    ok = True
        # path by path: every returning path of `schema != other` has consulted the installed eq; none answers NotImplemented
        # (both operands answering it makes `!=` fall back to identity: `schema != value` is then always True)
        from ..engine import Interp as _I
        st0 = model.schemas.get("IntSchema")
        escapes_ne: List[str] = []
        if st0 is not None:
            it0 = _I(prog, model, unroll=1)

            def run_ne(i: Any) -> Any:
                return i.call_function(ne, [Sym("other", None, ("param", "other"))], {}, self_val=i.make_schema(st0, (), {}))
            try:
                for p0 in it0.run_paths(run_ne, max_paths=300):
                    if p0.outcome != "return":
                        continue
                    cond0 = ", ".join(("" if b else "not ") + k[:40] for k, _, b in p0.facts[:2])
                    called = any(e.kind == "call" and str(e.data.get("callee", "")).endswith((".eq", "__eq__")) for e in p0.events)
                    if p0.value is not None and "NotImplemented" in p0.value.key():
                        escapes_ne.append(f"returns NotImplemented when {cond0}")
                    elif not called:
                        escapes_ne.append(f"answers without consulting __eq__ when {cond0}")
            except Exception:
                pass
        if escapes_ne:
            run.violated("NE-NEGATION", "Schema.__ne__", ne.loc, "; ".join(sorted(set(escapes_ne)))[:300] + ": `!=` is then not the negation of `==`",
                         witness="schema.none != None and schema.none == None are both True")
        elif ok:
            run.holds("NE-NEGATION", "Schema.__ne__", ne.loc, "returns not self.__eq__(other) (dispatches to the installed eq)", nontrivial=False)
        else:
            run.violated("NE-NEGATION", "Schema.__ne__", ne.loc, "__ne__ is not the negation of __eq__", witness="a != b and a == b can both hold")
    # subclasses must not define their own __eq__/__ne__
    for s in model.schemas.values():
        for nm in ("__eq__", "__ne__", "__hash__"):
            if nm in s.cls.methods and s.cls.qualname != model.schema_base.qualname:
                run.violated("NE-NEGATION", f"{s.cls.name}.{nm}", s.cls.methods[nm].loc,
                             "a schema subclass overrides equality, bypassing the installed structural eq",
                             witness=f"{s.cls.name} instances compare by a different rule")
    run.floor("NE-NEGATION", 2)

    # ---------------------------------------------------------------- CLASS-SYMMETRY
    inst = [s for s in model.facade_instantiable()]
    bad = []
    for a in inst:
        for b in inst:
            if a.cls.qualname != b.cls.qualname and a.cls.is_subclass_of(b.cls):
                bad.append((a.cls.name, b.cls.name))
            if a.props_cls and b.props_cls and a.cls.qualname != b.cls.qualname and a.props_cls.qualname != b.props_cls.qualname \
                    and a.props_cls.is_subclass_of(b.props_cls):
                bad.append((a.props_cls.name, b.props_cls.name))
    if bad:
        for x, y in bad:
            run.violated("CLASS-SYMMETRY", f"{x} < {y}", model.schema_base.loc,
                         f"{x} is a subclass of the instantiable {y}: isinstance-based class test is asymmetric",
                         witness=f"a == b differs from b == a for a: {y}, b: {x}")
    else:
        run.holds("CLASS-SYMMETRY", f"{len(inst)} instantiable schema classes", model.schema_base.loc,
                  "no two instantiable Schema/Props classes are in a subclass relation", nontrivial=True)

    # ---------------------------------------------------------------- OPTIONAL-EQ-HASH
    oc = prog.cls("declaration.types._optional.optional")
    oe, oh = oc.methods.get("__eq__"), oc.methods.get("__hash__")
    if oe is None or oh is None:
        run.violated("OPTIONAL-EQ-HASH", "optional", oc.loc, "optional lacks __eq__ or __hash__", witness="optional('a') != optional('a') / unhashable")
    else:
        def fields_of(fi: Any, who: str = "self", depth: int = 0) -> Set[str]:
            """attributes of the marker that the method reads - also through a helper it hands the marker to"""
            out = {n.attr for n in ast.walk(fi.node) if isinstance(n, ast.Attribute) and isinstance(n.value, ast.Name) and n.value.id == who}
            if depth < 2:
                for n in ast.walk(fi.node):
                    if isinstance(n, ast.Call) and any(isinstance(a, ast.Name) and a.id == who for a in n.args):
                        callee = prog.resolve_expr(fi.module, n.func) if isinstance(n.func, ast.Name) else (
                            oc.lookup(n.func.attr) if isinstance(n.func, ast.Attribute) and isinstance(n.func.value, ast.Name)
                            and n.func.value.id == who else None)
                        if isinstance(callee, FuncInfo):
                            params = [a.arg for a in callee.node.args.posonlyargs + callee.node.args.args]
                            pos = [i for i, a in enumerate(n.args) if isinstance(a, ast.Name) and a.id == who]
                            off = 1 if (callee.cls is not None and params and params[0] == "self") else 0
                            for i in pos:
                                if i + off < len(params):
                                    out |= fields_of(callee, params[i + off], depth + 1)
            return out - {"__class__"}
        fe = fields_of(oe)
        fh = fields_of(oh)
        norm = lambda s: {x.lstrip("_") for x in s}  # noqa
        if norm(fe) == norm(fh) and fe:
            run.holds("OPTIONAL-EQ-HASH", "optional.__eq__/__hash__", oc.loc, f"both use {sorted(fe)}", nontrivial=False)
        else:
            run.violated("OPTIONAL-EQ-HASH", "optional.__eq__/__hash__", oc.loc, f"__eq__ uses {sorted(fe)}, __hash__ uses {sorted(fh)}",
                         witness="equal optional keys hash differently: duplicate dict keys")

    # ---------------------------------------------------------------- PURE-EQ: equality depends on the registries only
    from .c17 import hidden_state
    hidden_state(run, prog, pb, "PURE-EQ")
    for fn_ in [eqm] + ([ov[0]] if ov and isinstance(ov[0], FuncInfo) else []):
        for n in ast.walk(fn_.node):
            if isinstance(n, ast.Call) and isinstance(n.func, ast.Name) and n.func.id in ("id", "hash"):
                run.violated("PURE-EQ", f"{fn_.qualname}: {n.func.id}()", f"{fn_.module.path}:{n.lineno}",
                             "equality consults object identity / hashes: the verdict for structurally equal operands depends on "
                             "which objects happen to be alive", witness="ref == build(3) followed by ref == build(4) is True after the first operand is collected")
    run.floor("PURE-EQ", 1)

    # ---------------------------------------------------------------- EQ-FALLBACK + KIND-CONFUSION
    _kind_confusion(run, prog, model, ov[0] if ov and isinstance(ov[0], FuncInfo) else None, eqm)


def _kind_confusion(run: Run, prog: Program, model: Model, eqf: Optional[FuncInfo], eqm: FuncInfo) -> None:
    if eqf is None:
        return
    # (a) eq(schema, <non-schema>) goes to the validate fallback; eq(schema, schema) is structural
    st = model.schemas["IntSchema"]

    def run_eq(other_mk: Any, setprops: Any = ()) -> List[Path]:
        it = Interp(prog, model, unroll=1)
        it.accept_summary = lambda recv, v: True   # type: ignore

        def r(i: Interp) -> V:
            return i.call_function(eqf, [i.make_schema(st, list(setprops)), other_mk(i)], {})
        return it.run_paths(r)
    ps = run_eq(lambda i: Sym("v", "object", ("param", "value"), exact=True)) + \
        run_eq(lambda i: Sym("v", "object", ("param", "value"), exact=True), st.props)
    fb = bool(ps) and all(any(e.kind == "accept" for e in p.events) and isinstance(p.value, Term) and p.value.op == "not"
                          and "has_errors" in p.value.key() for p in ps if p.outcome == "return")
    if fb:
        run.holds("EQ-FALLBACK", "eq(schema, <non-schema value>)", eqf.loc, "true exactly when validate(schema, value) has no errors", nontrivial=True)
    else:
        run.violated("EQ-FALLBACK", "eq(schema, <non-schema value>)", eqf.loc, "comparison with a plain value does not validate it",
                     witness="schema.int == 1 is not validate(schema.int, 1)")
    other_st = model.schemas["AnySchema"]
    ps_s = run_eq(lambda i: i.make_schema(st, [])) + run_eq(lambda i: i.make_schema(other_st, []))
    structural = bool(ps_s) and all(not any(e.kind == "accept" for e in p.events) for p in ps_s)
    if structural:
        run.holds("EQ-FALLBACK", "eq(schema, schema)", eqf.loc, "structural (class test + props ==), never validates", nontrivial=True)
    else:
        run.violated("EQ-FALLBACK", "eq(schema, schema)", eqf.loc, "two schemas are compared by validating one against the other",
                     witness="schema.any == schema.int")
    marker_paths = run_eq(lambda i: ELL)
    marker_validates = any(any(e.kind == "accept" for e in p.events) for p in marker_paths)
    run.floor("EQ-FALLBACK", 2)
    # VALUE-EQ-AGREE: two schemas are equal when their declared values compare equal with `!=` (Props.__eq__); "equal
    # schemas give identical verdicts" then needs the validator to identify exactly the same values: its fixed-value row
    # must be the plain comparison `value != declared` (floats: the documented tolerance) - a kind test added there
    # separates schema.int(1) from schema.int(True) although they are ==
    from ..vtable import extract
    for hook in ("visit_int", "visit_str", "visit_bool", "visit_bytes"):
        st_ = model.by_hook.get(hook)
        if st_ is None or "value" not in st_.props:
            continue
        rows, _ = extract(prog, model, "Validator", hook, Config(("value",)))
        vrows = [r for r in rows if r.error == "ValueValidationError"]
        c = f"Validator.{hook}: fixed value compared with !="
        site_ = model.visitors["Validator"].lookup(hook).loc
        odd = []
        for r in vrows:
            t = r.term
            plain = isinstance(t, Term) and t.op == "eq" and {a.key() for a in t.args if isinstance(a, V)} == {"value", "props.value"}
            if not plain:
                odd.append(r.pred_key[:80])
            extra = [k for k, tt, b in r.all_facts if isinstance(tt, Term) and tt.op == "isinstance"
                     and "props.value" in k]
            if extra:
                odd.append(extra[0][:80])
        if not vrows:
            run.undecided("VALUE-EQ-AGREE", c, site_, "no fixed-value row")
        elif odd:
            run.violated("VALUE-EQ-AGREE", c, site_,
                         f"the fixed-value error is also raised on `{odd[0]}`: values that `!=` identifies get different verdicts",
                         witness="schema.int(1) == schema.int(True), yet only one of them accepts 1")
        else:
            run.holds("VALUE-EQ-AGREE", c, site_, "ValueValidationError iff value != declared value", nontrivial=True)

    # (b) which props can hold a marker where the other side holds a schema?  derive from the declaration automaton
    ls = model.schemas["ListSchema"]
    ta = build(prog, model, ls, "quick")
    ell_in_elements = False
    for (state, key), outs in ta.trans.items():
        for o in outs:
            if o.kind == "ACCEPT" and o.path is not None and isinstance(o.path.value, SchemaV) and isinstance(o.path.value.props, PropsV):
                el = o.path.value.props.vals.get("elements")
                if isinstance(el, ListV) and any(is_ell(x) for x in el.items) and any(not is_ell(x) for x in el.items):
                    ell_in_elements = True
    # (c) does Props.__eq__ treat markers specially?  (any is_ellipsis / type test on the compared values)
    special = any(isinstance(n, ast.Call) and isinstance(n.func, ast.Name) and n.func.id in ("is_ellipsis", "isinstance") and
                  any(isinstance(a, ast.Name) and a.id in ("val", "other_val") for a in n.args) for n in ast.walk(eqm.node))
    # (d) is there a schema whose validator accepts any value?  any() without alternatives
    anyst = model.schemas["AnySchema"]
    vps = run_visit(prog, model, "Validator", "visit_any", Config(()), validator_ctx)
    accepts_all = bool(vps) and all(p.outcome == "return" and not any(
        e.kind == "construct" and e.data.get("cls") is not None and e.data["cls"].name.endswith("ValidationError") for e in p.events) for p in vps)
    construct = "Props.__eq__: `elements` Schema vs `...` at the same index"
    if ell_in_elements and not special and marker_validates and accepts_all:
        run.violated("KIND-CONFUSION", construct, eqm.loc,
                     "an element list may hold `...` where the other list holds a schema; the generic != hands the marker to "
                     "Schema.__ne__ -> eq(), whose validate fallback accepts it for a schema that accepts everything",
                     witness="schema.list([schema.any]) == schema.list([...]) is True although one accepts exactly one element and the other any list")
    else:
        why = []
        if not ell_in_elements:
            why.append("no declaration path stores `...` next to schemas")
        if special:
            why.append("Props.__eq__ treats markers explicitly")
        if not marker_validates:
            why.append("eq() does not validate a `...` operand")
        if not accepts_all:
            why.append("no schema accepts every value")
        run.holds("KIND-CONFUSION", construct, eqm.loc, "; ".join(why), nontrivial=True)
    # a schema-valued prop missing on one side reaches the same fallback with Nil.  Only schemas that accept everything
    # validate Nil - which is what the missing prop means - so the two compared schemas do accept the same values; but there
    # are several UNEQUAL accept-everything schemas (schema.any and an alias of it), and each of them equals "absent":
    # == is then not transitive
    c_nil = "Props.__eq__: schema-valued prop vs Nil"
    has_alias = "TypeAliasSchema" in model.schemas
    if not special and accepts_all and has_alias:
        run.violated("KIND-CONFUSION", c_nil, eqm.loc,
                     "a schema-valued prop that is absent on one side is compared as Nil through Schema.__ne__ -> eq() -> validate: every "
                     "accept-everything schema equals `absent`, and two of them (schema.any, an alias of it) are not equal to each other",
                     witness="a = schema.list(schema.alias('a', schema.any)); b = schema.list; c = schema.list(schema.any): a == b and b == c but a != c")
    else:
        run.holds("KIND-CONFUSION", c_nil, eqm.loc, "Props.__eq__ treats absent props explicitly / no two unequal accept-everything schemas",
                  nontrivial=True)


P = "d42/declaration/_props.py"
MUTANTS = [
    {"name": "validator tells bool and int apart in the fixed-value comparison", "rule": "VALUE-EQ-AGREE",
     "edits": [("d42/validation/_validator.py", "        if value != expected_val:\n            return ValueValidationError(path, value, expected_val)",
                "        if (isinstance(value, bool) != isinstance(expected_val, bool)) or (value != expected_val):\n            return ValueValidationError(path, value, expected_val)")]},
    {"name": "second loop of Props.__eq__ deleted", "rule": "REGISTRY-BOTH-WAYS",
     "edits": [(P, "        for key, other_val in other._registry.items():\n            val = self.get(key)\n            if other_val != val:\n                return False\n\n", "")]},
    {"name": "alias `name` skipped in equality", "rule": "REGISTRY-BOTH-WAYS",
     "edits": [(P, "        for key, val in self._registry.items():\n            other_val = other.get(key)", "        for key, val in self._registry.items():\n            if key == \"p\":\n                continue\n            other_val = other.get(key)")]},
    {"name": "__ne__ ignores class (compares props only)", "rule": "NE-NEGATION",
     "edits": [("d42/declaration/types/_schema.py", "        return not self.__eq__(other)", "        return self.props != getattr(other, \"props\", None)")]},
    {"name": "class check dropped from Props.__eq__", "rule": "REGISTRY-BOTH-WAYS",
     "edits": [(P, "        if not isinstance(other, self.__class__):\n            return False\n", "        if not isinstance(other, Props):\n            return False\n")]},
    {"name": "optional hash uses id", "rule": "OPTIONAL-EQ-HASH",
     "edits": [("d42/declaration/types/_optional.py", "        return hash((self._key,))", "        return id(self)")]},
    {"name": "eq validates schemas against each other", "rule": "EQ-FALLBACK",
     "edits": [("d42/validation/__init__.py", "    if isinstance(value, Schema):\n        return isinstance(value, schema.__class__) and (schema.props == value.props)\n", "")]},
    {"name": "override of == not installed", "rule": "NE-NEGATION",
     "edits": [("d42/validation/__init__.py", "Schema.__override__(Schema.__eq__.__name__, eq)", "pass")]},
    {"name": "neutral: loops merged over the key union", "expect": "SILENT",
     "edits": [(P, "        for key, val in self._registry.items():\n            other_val = other.get(key)\n            if val != other_val:\n                return False\n\n        for key, other_val in other._registry.items():\n            val = self.get(key)\n            if other_val != val:\n                return False\n",
                "        for key, val in self._registry.items():\n            if val != other.get(key):\n                return False\n\n        for key, other_val in other._registry.items():\n            if other_val != self.get(key):\n                return False\n")]},
]

MUTANTS += [
    {"name": "comparison results cached by id(other)", "rule": "PURE-EQ",
     "edits": [(P, "        if not isinstance(other, self.__class__):\n            return False\n", "        if not isinstance(other, self.__class__):\n            return False\n        if id(other) in self._seen:\n            return self._seen[id(other)]\n"),
               (P, "        self._registry = registry if (registry is not Nil) else {}", "        self._registry = registry if (registry is not Nil) else {}\n        self._seen: dict = {}"),
               (P, "        return True\n", "        self._seen[id(other)] = True\n        return True\n")]},
]

MUTANTS += [
    {"name": "eq() short-circuits on a declared constant equal to the value", "rule": "EQ-FALLBACK",
     "edits": [("d42/validation/__init__.py", "    return not validate(schema, value=value).has_errors()", "    if getattr(schema.props, \"value\", None) == value and value is not None:\n        return True\n    return not validate(schema, value=value).has_errors()")]},
]

MUTANTS += [
    {"name": "eq() tests the operand against the schema's own class first", "rule": "EQ-FALLBACK",
     "edits": [("d42/validation/__init__.py", "    if isinstance(value, Schema):\n        return isinstance(value, schema.__class__) and (schema.props == value.props)", "    if isinstance(value, schema.__class__):\n        return bool(schema.props == value.props)")]},
]

# round 8: the seeded changes that were missed on first contact, replayed against the current tree
MUTANTS += [
    {"name": 'seeded C15-P', "rule": 'NE-NEGATION',
     "edits": [('d42/declaration/types/_schema.py', '        return f"{self.__class__.__name__}({self.props!r})"\n\n    def __eq__(self, other: Any) -> bool:\n        return isinstance(other, self.__class__) and (self.props == other.props)\n\n    def __ne__(self, other: Any) -> bool:\n        return not self.__eq__(other)\n\n    def __or__(self, other: Any) -> Any:\n', '        return f"{self.__class__.__name__}({self.props!r})"\n\n    def __eq__(self, other: Any) -> bool:\n        if not isinstance(other, Schema):\n            return NotImplemented\n        return isinstance(other, self.__class__) and (self.props == other.props)\n\n    def __ne__(self, other: Any) -> bool:\n        if not isinstance(other, Schema):\n            return NotImplemented\n        return not self.__eq__(other)\n\n    def __or__(self, other: Any) -> Any:\n')]},
]
