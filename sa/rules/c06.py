"""C06 - repr(schema) is DSL source that rebuilds an equal schema.

EMIT: Representor.visit_T is evaluated abstractly under every reachable state of the declaration automaton;
the f-string pieces are reassembled with placeholders and parsed as a Python call chain.
REPLAY: the chain is replayed on the automaton from the empty schema: every step must be accepted, every
argument must land in the prop whose value it prints, the final state must equal the printed state.
Container payloads (elements / keys / types) must be emitted token by token in order.
"""
from __future__ import annotations

import ast
import re
from typing import Any, Dict, FrozenSet, List, Optional, Set, Tuple

from ..automaton import TypeAutomaton, build
from ..interp import Path
from ..loader import AnalysisError, Program
from ..model import Model, SchemaType
from ..report import Run
from ..engine import Interp
from ..values import Const, DictV, Inst, ListV, PropsV, SchemaV, StrV, Sym, Term, TupleV, V, is_ell
from ..visits import Config, configs_for, key_tables, list_shapes, member, representor_ctx, run_visit
from .c17 import order_taint

REPR_NEUTRAL = {"int", "float", "bool"}      # str(x) == repr(x) for these payload kinds


class EmitError(Exception):
    pass


def to_text(v: V, st: SchemaType, problems: List[str]) -> str:
    """Reassemble the emitted text with placeholders."""
    if isinstance(v, Const) and isinstance(v.value, str):
        return v.value
    if not isinstance(v, StrV):
        raise EmitError(f"representation is not a string expression: {v.key()[:80]}")
    out: List[str] = []
    absorb_paren = False
    for p in v.pieces:
        if isinstance(p, str):
            if absorb_paren and p.startswith(")"):
                p = p[1:]           # the `)` that closed float(
            absorb_paren = False
            out.append(p)
            continue
        x, conv = p
        if isinstance(x, Term) and x.op == "bin" and x.args[0] == "*" and any(
                isinstance(a, Const) and isinstance(a.value, str) and a.value.strip() == "" for a in x.args[1:]):
            out.append(" ")
            continue
        if isinstance(x, Sym) and x.origin and x.origin[0] == "prop":
            prop = x.origin[1]
            if conv.endswith("%"):
                conv = conv[:-1]
                if x.kind in (None, "tuple"):
                    problems.append(f"prop `{prop}` is formatted with the % operator: a tuple value is unpacked")
            if conv != "r" and (x.kind not in REPR_NEUTRAL):
                problems.append(f"prop `{prop}` (kind {x.kind}) is printed with str() instead of repr()")
            out.append(f"__P_{prop}__")
            continue
        # float(repr(str(X))) for a float payload X: `float('inf')` - an expression whose value is X (non-finite floats
        # have no literal); the surrounding "float(" ... ")" text is absorbed into the placeholder
        if isinstance(x, StrV) and conv == "r" and len(x.pieces) == 1 and not isinstance(x.pieces[0], str) \
                and isinstance(x.pieces[0][0], Sym) and x.pieces[0][0].origin and x.pieces[0][0].origin[0] == "prop" \
                and x.pieces[0][0].kind == "float" and out and out[-1].endswith("float("):
            out[-1] = out[-1][:-len("float(")]
            out.append(f"__P_{x.pieces[0][0].origin[1]}__")
            absorb_paren = True
            continue
        if isinstance(x, Sym) and x.origin and x.origin[0] == "accept":
            out.append(f"__M_{_ident(x.origin[1].key())}__")
            continue
        if isinstance(x, Sym) and x.origin and x.origin[0] == "member":
            out.append(f"__M_{_ident(x.key())}__")
            continue
        if isinstance(x, Sym) and x.origin and x.origin[0] == "dictkey":
            if conv.endswith("%"):
                problems.append(f"dict key `{x.key()}` is formatted with the % operator: a tuple key is unpacked instead of printed")
                conv = conv[:-1]
            if conv != "r":
                problems.append(f"dict key `{x.key()}` is printed with str() instead of repr()")
            out.append(f"__K_{_ident(x.key())}__")
            continue
        if isinstance(x, Sym) and x.origin and x.origin[0] == "param" and x.origin[1] == "indent":
            out.append(" ")
            continue
        raise EmitError(f"unrecognised piece {x.key()[:60]}")
    return "".join(out)


def _ident(s: str) -> str:
    return re.sub(r"\W", "_", s)


def parse_chain(text: str) -> Tuple[str, List[Tuple[str, List[ast.expr]]]]:
    """`schema.str(__P_value__).len(1, ...)` -> ('str', [('__call__', [..]), ('len', [..])])."""
    try:
        tree = ast.parse(text.strip(), mode="eval").body
    except SyntaxError as e:
        raise EmitError(f"emitted text is not a Python expression: {e.msg}: {text!r}")
    steps: List[Tuple[str, List[ast.expr]]] = []
    node = tree
    while True:
        if isinstance(node, ast.Call):
            if node.keywords:
                raise EmitError("keyword arguments in emitted call")
            f = node.func
            if isinstance(f, ast.Attribute) and not (isinstance(f.value, ast.Name) and f.value.id == "schema"):
                steps.append((f.attr, list(node.args)))
                node = f.value
            else:
                steps.append(("__call__", list(node.args)))
                node = f
        elif isinstance(node, ast.Attribute) and isinstance(node.value, ast.Name) and node.value.id == "schema":
            steps.reverse()
            return node.attr, steps
        else:
            raise EmitError(f"emitted text is not a call chain on `schema.<type>`: {text!r}")


def arg_label(a: ast.expr) -> str:
    if isinstance(a, ast.Constant) and a.value is Ellipsis:
        return "..."
    if isinstance(a, ast.Name) and a.id.startswith("__P_"):
        return "P:" + a.id[4:-2]
    if isinstance(a, ast.Name) and a.id.startswith("__M_"):
        return "M:" + a.id[4:-2]
    return "?" + ast.unparse(a)[:30]


def check(run: Run, prog: Program, model: Model, tier: str) -> None:
    run.explanation = (
        "Representor.visit_* is evaluated abstractly under every reachable state of the declaration automaton (and "
        "every element-list shape / key table / alternative tuple); the emitted pieces are reassembled with "
        "placeholders for prop values, keys and member representations and parsed with Python's own parser into a "
        "DSL call chain, which is then replayed on the automaton from the empty schema: each step must be accepted in "
        "the state reached so far, each printed value must be bound to the prop it was read from, and the final state "
        "must be exactly the represented state. Container payloads must be printed token by token (members, `...`, "
        "optional(key) flags, relaxed marker) in order. Determinism: no set-order dependence in the representor."
        " The emitted order must accept under every value condition under which any other order of the same refinements accepts; every constructor of a union stores a flat tuple.")
    run.explanation += ' REPR-PURE: no write event on the schema, the visitor or a module global, and no path fact over remembered state, on any rendering path (decorators defined in the program are applied).'
    run.rule_text = ("one obligation per (type, reachable state/shape); non-trivial = states with >= 2 props or a container "
                     "payload, i.e. where order/argument-shape matter")
    from ..entry import entry_transparent
    entry_transparent(run, prog, model, "represent", "REPRESENT-ENTRY")
    run.trusted += ["eval(repr(x)) == x for int, str, bytes, bool, None, finite float, UUID, datetime, date",
                    "whitespace inside brackets is insignificant", "Python's ast.parse (stdlib) on the emitted text"]
    run.assumptions += ["equality of the rebuilt schema follows from equal state + equal bindings (Props.__eq__ is structural: C15)"]
    n_states = 0
    pure_bad: Dict[str, Tuple[str, Set[str]]] = {}
    pure_ok: Set[str] = set()
    float_bad: Set[str] = set()
    float_ok: Set[str] = set()
    rep_loc = model.visitors["Representor"].loc
    for st in sorted(model.concrete_builtin_schemas(), key=lambda s: s.name):
        if st.name in ("TypeAliasSchema",):
            continue
        hook = st.hook
        assert hook
        ta = build(prog, model, st, tier)
        f = model.visitors["Representor"].lookup(hook)
        if f is None:
            raise AnalysisError(f"Representor.{hook} not found")
        if st.name in ("ListSchema", "DictSchema", "AnySchema"):
            cfgs = configs_for(st, tier)
        else:
            cfgs = [Config(tuple(sorted(s))) for s in ta.states]
        for cfg in cfgs:
            n_states += 1
            construct = f"{st.name} {cfg.label}"
            paths = run_visit(prog, model, "Representor", hook, cfg, representor_ctx)
            paths = [p for p in paths if p.outcome != "limit"]
            if not paths:
                run.undecided("EMIT-REPLAY", construct, f.loc, "no path")
                continue
            for p in paths:
                _check_emission(run, prog, model, st, ta, cfg, p, construct, f.loc)
            # FLOAT-LITERAL: repr() of a float is a Python expression only when the float is finite (`inf`, `-inf` and `nan`
            # are bare names): a float payload emitted with !r must be on a path that tested its finiteness
            if st.name == "FloatSchema":
                for p in paths:
                    for e in p.events:
                        if e.kind == "format" and e.data.get("conv") == "r":
                            v_ = e.data.get("value")
                            if isinstance(v_, Sym) and v_.origin and v_.origin[0] == "prop" and v_.kind == "float":
                                pk = v_.key()
                                tested = any(("isfinite" in fk or "isinf" in fk or "isnan" in fk) and pk in fk for fk, _, _ in p.facts)
                                (float_ok if tested else float_bad).add(f"Representor.{hook}: {pk}")
            # REPR-PURE: the text is a function of the schema and the indent only - nothing is remembered on the schema,
            # the visitor or the module between two renderings (a remembered text is replayed at another depth / for
            # another flavour: "same repr", "nesting level not altered")
            impure: List[str] = []
            for p in paths:
                for e in p.events:
                    if e.kind == "write" and not (e.func or "").endswith(".__init__"):
                        tgt = e.data.get("target")
                        tk = tgt.key() if isinstance(tgt, V) else str(tgt)
                        root = tgt
                        while isinstance(root, Term) and root.args and root.op in ("attr", "getitem", "mcall", "getattr"):
                            root = next((a for a in root.args if isinstance(a, V)), None)
                        if isinstance(root, (SchemaV, PropsV)) or (isinstance(root, Inst) and root.origin == "visitor") or (
                                isinstance(root, Sym) and root.origin and root.origin[0] == "global"):
                            impure.append(f"{e.data.get('how')} on {tk[:50]} @ {e.loc(prog)}")
                for fk, t, b in p.facts:
                    if "__dict__" in fk or "global " in fk:
                        impure.append(f"the rendering depends on remembered state ({fk[:60]})")
            key_pure = f"Representor.{hook}: rendering is pure"
            if impure:
                pure_bad.setdefault(key_pure, (f.loc, set()))[1].update(impure)
            else:
                pure_ok.add(key_pure)
    for k_ in sorted(float_bad):
        run.violated("FLOAT-LITERAL", k_ + " is emitted as a Python expression", rep_loc, "the float is printed with !r on a path that never tested "
                     "whether it is finite: repr(float('inf')) is `inf`, which is not an expression over the allowed names",
                     witness="eval(repr(schema.float(float('inf')))) raises NameError (also .min(float('-inf')), .max(float('inf')))")
    for k_ in sorted(float_ok - float_bad):
        run.holds("FLOAT-LITERAL", k_ + " is emitted as a Python expression", rep_loc, "printed with !r only after a finiteness test", nontrivial=True)
    for k_, (loc_, msgs) in sorted(pure_bad.items()):
        run.violated("REPR-PURE", k_, loc_, "; ".join(sorted(msgs))[:300],
                     witness="the same container rendered on its own and then inside a parent is printed at the wrong depth: repr(eval(repr(s))) != repr(s)")
    for k_ in sorted(pure_ok - set(pure_bad)):
        run.holds("REPR-PURE", k_, "", "no write to the schema, the visitor or a module global; no read of remembered state", nontrivial=True)
    run.floor("REPR-PURE", 8)
    run.analysed["represented_states"] = n_states
    run.floor("EMIT-REPLAY", 80)

    # determinism of the representor (C17's taint rule applied to representation/)
    _canonical_any(run, prog, model)
    rep = model.visitors["Representor"]
    bad = 0
    for m in rep.methods.values():
        for status, node, c, detail in order_taint(prog, model, m):
            if status == "VIOLATED":
                bad += 1
                run.violated("DETERMINISTIC", c, f"{m.module.path}:{getattr(node, 'lineno', 0)}", detail,
                             witness="repr of the same schema differs between interpreter runs")
            elif status == "UNDECIDED":
                run.undecided("DETERMINISTIC", c, f"{m.module.path}:{getattr(node, 'lineno', 0)}", detail)
        for n in ast.walk(m.node):
            if isinstance(n, ast.Call) and isinstance(n.func, ast.Name) and n.func.id in ("id", "hash"):
                run.violated("DETERMINISTIC", f"{m.qualname}: {n.func.id}()", f"{m.module.path}:{n.lineno}",
                             "address/hash dependent value in the representation", witness="repr differs between runs")
                bad += 1
    if not bad:
        run.holds("DETERMINISTIC", "Representor (all methods)", rep.loc, "no set-order / id / hash dependence", nontrivial=False)


_SIM_CACHE: Dict[Any, Any] = {}


def _canonical_any(run: Run, prog: Program, model: Model) -> None:
    """CANONICAL-ANY: the representor prints the members of a union one by one, and evaluating `schema.any(...)`
    flattens typed unions among them; the round trip therefore needs every constructor of a union (`schema.any(..)` and
    `a | b`) to store a FLAT tuple - a typed union kept as a member prints as nested text that evaluates to another schema."""
    from ..values import PropsV, SchemaV, TupleV
    from ..loader import FuncInfo
    from .c13 import _PLAIN, plain as member        # members of a concrete non-any class: class tests on them are decided
    _PLAIN["cls"] = model.schemas["IntSchema"].cls
    st = model.schemas["AnySchema"]

    def anyu(*tokens: V) -> V:
        return SchemaV(st.cls, PropsV(st.props_cls, {"types": TupleV(list(tokens))}, "schema"), "param")
    ov = model.overrides.get("__or__")
    ctors = [("schema.any(any(a1, a2), any(b1, b2))", st.cls.methods.get("__call__"), True)]
    if ov is not None and isinstance(ov[0], FuncInfo):
        ctors.append(("any(a1, a2) | any(b1, b2)", ov[0], False))
    for label, fn, is_method in ctors:
        if fn is None:
            continue
        it = Interp(prog, model, unroll=2, max_depth=14)
        it.max_recursion = 4            # type: ignore[attr-defined]

        def run1(i: Interp) -> V:
            a, b = anyu(member("A1"), member("A2")), anyu(member("B1"), member("B2"))
            if is_method:
                return i.call_function(fn, [a, b], {}, self_val=SchemaV(st.cls, PropsV(st.props_cls, {}, "schema"), "self"))
            return i.call_function(fn, [a, b], {})
        nested = flat = 0
        for p in it.run_paths(run1):
            v = p.value
            if p.outcome != "return" or not isinstance(v, SchemaV) or not isinstance(v.props, PropsV):
                continue
            t = v.props.vals.get("types")
            if not isinstance(t, TupleV):
                continue
            if any(isinstance(x, SchemaV) and x.cls is not None and x.cls.name == "AnySchema" and isinstance(x.props, PropsV)
                   and "types" in x.props.vals for x in t.items):
                nested += 1
            else:
                flat += 1
        if nested:
            run.violated("CANONICAL-ANY", label, fn.loc,
                         "a typed union is stored as a member of the union: repr prints `schema.any(.., schema.any(..))`, whose "
                         "evaluation flattens it into a different (unequal) schema",
                         witness="s = (a | b) | (c | d); eval(repr(s)) != s")
        elif flat:
            run.holds("CANONICAL-ANY", label, fn.loc, "members are flattened on construction", nontrivial=True)
        else:
            run.undecided("CANONICAL-ANY", label, fn.loc, "no returning path with a types tuple")


def _check_emission(run: Run, prog: Program, model: Model, st: SchemaType, ta: TypeAutomaton, cfg: Config,
                    p: Path, construct: str, site: str) -> None:
    if p.outcome != "return" or p.value is None:
        run.violated("EMIT-REPLAY", construct, site, f"representation raises {p.value.key() if p.value else '?'}",
                     witness=f"repr(schema.{st.facade_name} with {cfg.label})")
        return
    problems: List[str] = []
    try:
        text = to_text(p.value, st, problems)
        tname, steps = parse_chain(text)
    except EmitError as e:
        msg = str(e)
        if "not a Python expression" in msg or "not a call chain" in msg:
            run.violated("EMIT-REPLAY", construct, site, msg[:300], witness=f"eval(repr(schema.{st.facade_name} with {cfg.label})) fails")
        else:
            run.undecided("EMIT-REPLAY", construct, site, msg[:300])
        return
    if tname != st.facade_name:
        run.violated("EMIT-REPLAY", construct, site, f"text starts with schema.{tname}, expected schema.{st.facade_name}",
                     witness="the evaluated text builds a schema of another type")
        return
    want = frozenset(cfg.setprops)
    state: FrozenSet[str] = frozenset()
    binds: Dict[str, str] = {}
    shown = re.sub(r"\s+", " ", text)[:120]
    cfg_vals = cfg.build()
    replayed: List[str] = []
    by_key = {sh.key: sh for sh in ta.shapes}
    for mname, args in steps:
        labels = [arg_label(a) for a in args]
        meth = st.cls.methods.get(mname)
        if meth is None:
            run.violated("EMIT-REPLAY", construct, site, f"emitted method `{mname}` does not exist on {st.name}: {shown}",
                         witness=f"eval(repr(...)) raises AttributeError")
            return
        disp = "call" if mname == "__call__" else mname
        if mname == "__call__" and st.name in ("ListSchema", "DictSchema", "AnySchema"):
            ok, why, newp = _container_payload(st, args, cfg_vals, cfg)
            if ok is None:
                run.undecided("EMIT-REPLAY", construct, site, why)
                return
            if not ok:
                run.violated("EMIT-REPLAY", construct, site, f"{why}: {shown}", witness="the rebuilt schema differs from the original")
                return
            if newp & state:
                run.violated("EMIT-REPLAY", construct, site, f"payload emitted twice: {shown}", witness="eval raises DeclarationError")
                return
            if state:
                run.violated("EMIT-REPLAY", construct, site, f"container payload emitted after {sorted(state)}, which the DSL rejects: {shown}",
                             witness="eval(repr(...)) raises DeclarationError")
                return
            state = state | newp
            continue
        params = [a.arg for a in (list(meth.node.args.posonlyargs) + list(meth.node.args.args))[1:]]
        if len(args) > len(params):
            run.violated("EMIT-REPLAY", construct, site, f"{mname} emitted with {len(args)} arguments: {shown}", witness="eval raises TypeError")
            return
        lab = f"{disp}(" + ", ".join("..." if l == "..." else params[i] for i, l in enumerate(labels)) + ")"
        replayed.append(lab)
        outs = ta.trans.get((state, lab))
        if outs is None:
            run.undecided("EMIT-REPLAY", construct, site, f"step {lab} in state {sorted(state)} is not in the extracted automaton")
            return
        acc = [o for o in outs if o.kind == "ACCEPT" and o.new_state is not None]
        if not acc:
            run.violated("EMIT-REPLAY", construct, site,
                         f"step `.{lab}` is rejected by the DSL in state {{{','.join(sorted(state))}}}: {shown}",
                         witness=f"eval(repr(...)) raises DeclarationError ({shown})")
            return
        o = acc[0]
        bmap = dict(o.bindings)
        for i, l in enumerate(labels):
            if l.startswith("P:"):
                prop = l[2:]
                target = [k for k, v in bmap.items() if v == f"{disp}.{params[i]}"]
                if prop not in target:
                    run.violated("EMIT-REPLAY", construct, site,
                                 f"value of `{prop}` is printed as argument {i} of `{lab}`, which declares {target or 'nothing'}: {shown}",
                                 witness="the rebuilt schema carries the value in a different constraint")
                    return
                binds[prop] = l
            elif l.startswith("?") or l.startswith("M:"):
                run.undecided("EMIT-REPLAY", construct, site, f"argument {l} of {lab} not recognised")
                return
        state = o.new_state  # type: ignore
    if state != want:
        lost = sorted(want - state)
        extra = sorted(state - want)
        run.violated("EMIT-REPLAY", construct, site,
                     f"replaying `{shown}` reaches {{{','.join(sorted(state))}}}: lost {lost}, invented {extra}",
                     witness=f"eval(repr(s)) != s for s with {cfg.label}")
        return
    if problems:
        run.violated("EMIT-REPLAY", construct, site, "; ".join(problems) + f": {shown}", witness="the text does not evaluate to the same value")
        return
    # the text replays the refinements in the representor's order; the schema may have been declared in any other order:
    # whatever value conditions another order accepts under, the emitted order must accept under too
    if len(replayed) >= 2 and len(replayed) <= 4 and all(k in by_key for k in replayed):
        import itertools as _it
        from .c11 import describe, simulate
        pi = tuple(by_key[k] for k in replayed)

        def sim(order: Any) -> Any:
            ck = (id(ta), tuple(s_.key for s_ in order))
            if ck not in _SIM_CACHE:
                _SIM_CACHE[ck] = simulate(ta, frozenset(), order)
            return _SIM_CACHE[ck]
        mine = sim(pi)
        for sigma in _it.permutations(pi):
            if sigma == pi:
                continue
            other = sim(sigma)
            lost = [o for o in other if o not in mine and "<limit>" not in o[0]]
            if lost:
                run.violated("EMIT-REPLAY", construct, site,
                             f"declared as {' -> '.join(s_.label for s_ in sigma)} the schema exists under [{describe(frozenset(lost))[:150]}], "
                             f"but its repr replays {' -> '.join(s_.label for s_ in pi)}, which accepts only under [{describe(mine)[:150]}]",
                             witness=f"eval(repr(s)) raises DeclarationError for an s declared in the other order ({shown})")
                return
    run.holds("EMIT-REPLAY", construct, site, f"`{shown}` replays to exactly {{{','.join(sorted(want))}}}",
              nontrivial=len(want) >= 2 or bool(cfg.overrides))


def _container_payload(st: SchemaType, args: List[ast.expr], vals: Dict[str, V], cfg: Config) -> Tuple[Optional[bool], str, FrozenSet[str]]:
    if st.name == "ListSchema":
        if len(args) != 1:
            return False, f"list payload emitted with {len(args)} arguments", frozenset()
        a = args[0]
        if "type" in cfg.setprops:
            if isinstance(a, ast.Name) and a.id.startswith("__M_"):
                return True, "", frozenset({"type"})
            return False, "typed list does not print its element type", frozenset()
        if "elements" not in vals:
            return False, "an element list is printed although none is declared", frozenset()
        if not isinstance(a, ast.List):
            return False, "element list is not printed as a list display", frozenset()
        want = ["..." if is_ell(x) else "M:" + _ident(x.key()) for x in vals["elements"].items]  # type: ignore
        got = [arg_label(x) for x in a.elts]
        if want != got:
            return False, f"element tokens {got} differ from the declared {want}", frozenset()
        return True, "", frozenset({"elements"})
    if st.name == "DictSchema":
        if len(args) != 1 or not isinstance(args[0], ast.Dict):
            return False, "key table is not printed as a dict display", frozenset()
        if "keys" not in vals:
            return False, "a key table is printed although none is declared", frozenset()
        want = []
        for k, tv in vals["keys"].pairs():  # type: ignore
            if is_ell(k):
                want.append(("...", "..."))
            else:
                flag = tv.items[1].value
                want.append((("optional:" if flag else "") + "K:" + _ident(k.key()), "M:" + _ident(tv.items[0].key())))
        got = []
        for k, v in zip(args[0].keys, args[0].values):
            if k is None:
                return False, "dict unpacking in emitted key table", frozenset()
            if isinstance(k, ast.Constant) and k.value is Ellipsis:
                kl = "..."
            elif isinstance(k, ast.Name) and k.id.startswith("__K_"):
                kl = "K:" + k.id[4:-2]
            elif isinstance(k, ast.Call) and isinstance(k.func, ast.Name) and k.func.id == "optional" and len(k.args) == 1 \
                    and isinstance(k.args[0], ast.Name) and k.args[0].id.startswith("__K_"):
                kl = "optional:K:" + k.args[0].id[4:-2]
            else:
                return None, f"unrecognised key expression {ast.unparse(k)[:40]}", frozenset()
            got.append((kl, arg_label(v)))
        if want != got:
            return False, f"key table tokens {got} differ from the declared {want}", frozenset()
        return True, "", frozenset({"keys"})
    if st.name == "AnySchema":
        if "types" not in vals:
            return False, "alternatives printed although none declared", frozenset()
        want = ["M:" + _ident(x.key()) for x in vals["types"].items]  # type: ignore
        got = [arg_label(x) for x in args]
        if want != got:
            return False, f"alternatives {got} differ from the declared {want}", frozenset()
        return True, "", frozenset({"types"})
    return None, "unknown container", frozenset()


R = "d42/representation/_representor.py"
MUTANTS = [
    {"name": "float max printed with !r again (fix 86cdc4e reverted at one site)", "rule": "FLOAT-LITERAL",
     "edits": [("d42/representation/_representor.py", "            r += f\".max({self._repr_float(schema.props.max)})\"", "            r += f\".max({schema.props.max!r})\"")]},
    {"name": "neutral: finiteness tested with isinf/isnan instead of isfinite", "expect": "SILENT",
     "edits": [("d42/representation/_representor.py", "        if isfinite(value):\n            return repr(value)\n", "        if not (isinf(value) or isnan(value)):\n            return repr(value)\n"),
               ("d42/representation/_representor.py", "from math import isfinite\n", "from math import isinf, isnan\n")]},
    {"name": "container text memoised on the schema instance by a decorator (seeded C06-L)", "rule": "REPR-PURE",
     "edits": [("d42/representation/_representor.py", "class Representor(", "def _memoized(visit: Any) -> Any:\n    def wrapper(self: Any, schema: Any, *, indent: int = 0, **kwargs: Any) -> str:\n        memo = schema.__dict__.get(\"_memo\")\n        if memo is not None:\n            return cast(str, memo)\n        text = visit(self, schema, indent=indent, **kwargs)\n        schema.__dict__[\"_memo\"] = text\n        return cast(str, text)\n    return wrapper\n\n\nclass Representor("),
               ("d42/representation/_representor.py", "    def visit_list(self, schema: ListSchema", "    @_memoized\n    def visit_list(self, schema: ListSchema")]},
    {"name": "`|` appends its right operand to an existing union without flattening it", "rule": "CANONICAL-ANY",
     "edits": [("d42/declaration/__init__.py", "    return schema.any(self, other)\n",
                "    if isinstance(self, AnySchema) and self.props.types is not Nil and isinstance(other, Schema):\n        return self.__class__(self.props.update(types=self.props.types + (other,)))\n    return schema.any(self, other)\n"),
               ("d42/declaration/__init__.py", "def union(self: GenericSchema, other: Any) -> AnySchema:", "from niltype import Nil  # noqa: E402\n\n\ndef union(self: GenericSchema, other: Any) -> AnySchema:")]},
    {"name": "int max() rejects a maximum equal to the declared minimum, min() accepts the mirror case", "rule": "EMIT-REPLAY",
     "edits": [("d42/declaration/types/_int_schema.py", "        if (self.props.value is not Nil) and (value > self.props.value):\n            raise make_incorrect_min_error(self, self.props.value, value)\n", "        if (self.props.value is not Nil) and (value > self.props.value):\n            raise make_incorrect_min_error(self, self.props.value, value)\n        if (self.props.max is not Nil) and (value > self.props.max):\n            raise make_incorrect_min_error(self, self.props.max, value)\n"),
               ("d42/declaration/types/_int_schema.py", "        if (self.props.value is not Nil) and (value < self.props.value):\n            raise make_incorrect_max_error(self, self.props.value, value)\n", "        if (self.props.value is not Nil) and (value < self.props.value):\n            raise make_incorrect_max_error(self, self.props.value, value)\n        if (self.props.min is not Nil) and (value <= self.props.min):\n            raise make_incorrect_max_error(self, self.props.min, value)\n")]},
    {"name": "neutral: int min()/max() cross-check each other consistently", "expect": "SILENT",
     "edits": [("d42/declaration/types/_int_schema.py", "        if (self.props.value is not Nil) and (value > self.props.value):\n            raise make_incorrect_min_error(self, self.props.value, value)\n", "        if (self.props.value is not Nil) and (value > self.props.value):\n            raise make_incorrect_min_error(self, self.props.value, value)\n        if (self.props.max is not Nil) and (value > self.props.max):\n            raise make_incorrect_min_error(self, self.props.max, value)\n"),
               ("d42/declaration/types/_int_schema.py", "        if (self.props.value is not Nil) and (value < self.props.value):\n            raise make_incorrect_max_error(self, self.props.value, value)\n", "        if (self.props.value is not Nil) and (value < self.props.value):\n            raise make_incorrect_max_error(self, self.props.value, value)\n        if (self.props.min is not Nil) and (value < self.props.min):\n            raise make_incorrect_max_error(self, self.props.min, value)\n")]},
    {"name": "int emits .min() before the value", "rule": "EMIT-REPLAY",
     "edits": [(R, "        r = f\"{self._name}.int\"\n\n        if schema.props.value is not Nil:\n            r += f\"({schema.props.value!r})\"\n\n        if schema.props.min is not Nil:\n            r += f\".min({schema.props.min!r})\"\n",
                "        r = f\"{self._name}.int\"\n\n        if schema.props.min is not Nil:\n            r += f\".min({schema.props.min!r})\"\n\n        if schema.props.value is not Nil:\n            r += f\"({schema.props.value!r})\"\n")]},
    {"name": ".contains() omitted when an alphabet is set", "rule": "EMIT-REPLAY",
     "edits": [(R, "        if schema.props.substr is not Nil:\n            r += f\".contains", "        if schema.props.substr is not Nil and schema.props.alphabet is Nil:\n            r += f\".contains")]},
    {"name": "min-only length printed as .len(n)", "rule": "EMIT-REPLAY",
     "edits": [(R, "        elif schema.props.min_len is not Nil:\n            r += f\".len({schema.props.min_len!r}, ...)\"\n        elif schema.props.max_len is not Nil:\n            r += f\".len(..., {schema.props.max_len!r})\"\n\n        return r\n\n    def visit_list",
                "        elif schema.props.min_len is not Nil:\n            r += f\".len({schema.props.min_len!r})\"\n        elif schema.props.max_len is not Nil:\n            r += f\".len(..., {schema.props.max_len!r})\"\n\n        return r\n\n    def visit_list")]},
    {"name": "str value printed without repr", "rule": "EMIT-REPLAY",
     "edits": [(R, "        r = f\"{self._name}.str\"\n\n        if schema.props.value is not Nil:\n            r += f\"({schema.props.value!r})\"", "        r = f\"{self._name}.str\"\n\n        if schema.props.value is not Nil:\n            r += f\"({schema.props.value})\"")]},
    {"name": "optional flag dropped for the second and later keys", "rule": "EMIT-REPLAY",
     "edits": [(R, "                key_repr = f\"optional({key!r})\" if is_optional else repr(key)", "                key_repr = f\"optional({key!r})\" if (is_optional and not pairs) else repr(key)")]},
    {"name": "list elements + len: len omitted when elements are printed", "rule": "EMIT-REPLAY",
     "edits": [(R, "            r += \"\\n\" + \" \" * indent + \"])\"\n\n        if schema.props.len is not Nil:", "            r += \"\\n\" + \" \" * indent + \"])\"\n            return r\n\n        if schema.props.len is not Nil:")]},
    {"name": "float precision and max swapped arguments", "rule": "EMIT-REPLAY",
     "edits": [(R, "            r += f\".precision({schema.props.precision!r})\"", "            r += f\".precision({schema.props.max!r})\"")]},
    {"name": "relaxed marker printed only for single-key tables", "rule": "EMIT-REPLAY",
     "edits": [(R, "            if is_ellipsis(key):\n                key_repr = val_repr = \"...\"", "            if is_ellipsis(key):\n                continue")]},
    {"name": "trailing `...` of a list dropped", "rule": "EMIT-REPLAY",
     "edits": [(R, "            for element in schema.props.elements:\n                if is_ellipsis(element):\n                    elem = \"...\"", "            for element in schema.props.elements:\n                if is_ellipsis(element) and elems:\n                    continue\n                if is_ellipsis(element):\n                    elem = \"...\"")]},
    {"name": "neutral: regex printed after len (the two can never co-exist)", "expect": "SILENT",
     "edits": [(R, "        if schema.props.pattern is not Nil:\n            r += f\".regex({schema.props.pattern!r})\"\n\n        if schema.props.len is not Nil:\n            r += f\".len({schema.props.len!r})\"",
                "        if schema.props.len is not Nil:\n            r += f\".len({schema.props.len!r})\"\n\n        if schema.props.pattern is not Nil:\n            r += f\".regex({schema.props.pattern!r})\"\n\n        if False:\n            pass")]},
    {"name": "bool value printed after the type with a method-style call", "rule": "EMIT-REPLAY",
     "edits": [(R, "        r = f\"{self._name}.bool\"\n\n        if schema.props.value is not Nil:\n            r += f\"({schema.props.value!r})\"", "        r = f\"{self._name}.bool\"\n\n        if schema.props.value is not Nil:\n            r += f\".value({schema.props.value!r})\"")]},
    {"name": "neutral: float precision emitted before min/max", "expect": "SILENT",
     "edits": [(R, "        if schema.props.min is not Nil:\n            r += f\".min({self._repr_float(schema.props.min)})\"\n\n        if schema.props.max is not Nil:\n            r += f\".max({self._repr_float(schema.props.max)})\"\n\n        if schema.props.precision is not Nil:\n            r += f\".precision({schema.props.precision!r})\"\n",
                "        if schema.props.precision is not Nil:\n            r += f\".precision({schema.props.precision!r})\"\n\n        if schema.props.min is not Nil:\n            r += f\".min({self._repr_float(schema.props.min)})\"\n\n        if schema.props.max is not Nil:\n            r += f\".max({self._repr_float(schema.props.max)})\"\n")]},
    {"name": "neutral: repr() call instead of !r", "expect": "SILENT",
     "edits": [(R, "            r += f\".contains({schema.props.substr!r})\"", "            r += \".contains(\" + repr(schema.props.substr) + \")\"")]},
    {"name": "neutral: contains printed before alphabet", "expect": "SILENT",
     "edits": [(R, "        if schema.props.alphabet is not Nil:\n            r += f\".alphabet({schema.props.alphabet!r})\"\n\n        if schema.props.substr is not Nil:\n            r += f\".contains({schema.props.substr!r})\"\n",
                "        if schema.props.substr is not Nil:\n            r += f\".contains({schema.props.substr!r})\"\n\n        if schema.props.alphabet is not Nil:\n            r += f\".alphabet({schema.props.alphabet!r})\"\n")]},
]

MUTANTS += [
    {"name": "dict keys printed with printf-style formatting", "rule": "EMIT-REPLAY",
     "edits": [(R, "                key_repr = f\"optional({key!r})\" if is_optional else repr(key)", "                key_repr = (\"optional(%r)\" if is_optional else \"%r\") % key")]},
]
