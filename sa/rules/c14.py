"""C14 - from_native(value) denotes exactly that value.

Per exact input kind the whole function (with the schema __call__ it invokes) is evaluated abstractly:
ARM (schema class = the kind's class; pins the same value), 3-WAY KIND (arm kind = declaration guard kind =
validator guard kind), RECURSE (list/dict arms recurse over every member, no filter, keys preserved),
FINAL (other kinds are refused with ValueError), ONLY-VALUEERROR (nothing else escapes).
Ladder order is a NOTE only (True == 1 exemption).
"""
from __future__ import annotations

from typing import Any, Dict, List, Optional, Set, Tuple

from ..engine import Interp
from ..interp import Event, Path
from ..loader import AnalysisError, Program
from ..model import Model
from ..partial import escapes
from ..report import Run
from ..values import Const, DictV, ExcV, ListV, PropsV, SchemaV, Sym, Term, TupleV, V, is_nil
from ..visits import Config
from ..vtable import extract

# exact runtime kind -> (expected schema class, plain?)   plain kinds come from the property statement
KINDS: List[Tuple[str, Optional[str]]] = [
    ("NoneType", "NoneSchema"), ("bool", "BoolSchema"), ("int", "IntSchema"), ("float", "FloatSchema"),
    ("str", "StrSchema"), ("bytes", "BytesSchema"), ("UUID", "UUID4Schema"), ("datetime", "DateTimeSchema"),
    ("date", "DateSchema"), ("list", "ListSchema"), ("dict", "DictSchema"),
    ("tuple", None), ("set", None), ("bytearray", None), ("object", None),
]


def check(run: Run, prog: Program, model: Model, tier: str) -> None:
    run.explanation = (
        "from_native is evaluated abstractly once per exact runtime kind of its argument (None, bool, int, float, str, "
        "bytes, UUID, datetime, date, list, dict and four non-plain kinds), with the schema __call__ of the chosen arm "
        "inlined. Decided: the arm builds the schema class of that kind and pins the very value it was given; the "
        "arm's kind agrees with the declaration guard (otherwise the inlined __call__ raises) and with the "
        "validator's type guard; list/dict arms recurse over every member through an unfiltered comprehension and "
        "keep keys; every other kind reaches the final `raise ValueError`; no other exception class can escape "
        "(explicit raises of inlined callees and partial operations under the established kinds)."
        " Two members deep, the schema of member j is the conversion of member j; a plain value is refused only for a documented trait; the float validator keeps the documented tolerance.")
    run.explanation += ' The fixed-value comparison of the produced schema class must be on the value and the prop themselves (no image such as value.date()).'
    run.explanation += ' MEMBER-VISITED (shared with C02).'
    run.rule_text = ("one obligation per (input kind, clause); non-trivial = needed inlining of the schema constructor / "
                     "element-fact propagation through the comprehension")
    from ..entry import entry_transparent
    entry_transparent(run, prog, model, "validate", "VALIDATE-ENTRY")
    run.trusted += ["partial-operation table", "uuid.UUID.version exists on every UUID"]
    fn = prog.func("d42.utils._from_native.from_native")
    # "rejects every value that differs in kind" at any position: the container validators dispatch every member
    from .c02 import _member_visited
    _member_visited(run, prog, model, "Validator")
    results: Dict[str, List[Path]] = {}
    for kind, want in KINDS:
        it = Interp(prog, model, unroll=1, max_depth=7)

        def run1(i: Interp) -> V:
            v: V = Const(None) if kind == "NoneType" else Sym("value", kind, ("param", "value"), exact=True)
            return i.call_function(fn, [v], {})
        ps = it.run_paths(run1)
        results[kind] = ps
        site = fn.loc
        rets = [p for p in ps if p.outcome == "return"]
        raises = [p for p in ps if p.outcome == "raise"]
        limit = [p for p in ps if p.outcome == "limit"]
        if limit:
            run.undecided("ARM", f"from_native(<{kind}>)", site, "path limit")
            continue
        # ---------------- ONLY-VALUEERROR
        bad: List[str] = []
        for p in raises:
            exc = p.value
            assert isinstance(exc, ExcV)
            if exc.cls is not ValueError:
                line = getattr(p.exc_node, "lineno", 0)
                bad.append(f"{exc.cls_name} raised at line {line}" + (" (implicit)" if p.implicit else ""))
        for p in ps:
            for e in p.events:
                if e.kind == "partial":
                    for x, why in escapes(p, e, value_kinds={"value": kind}):
                        if why == "arity":
                            continue
                        bad.append(f"{getattr(x, '__name__', x)} may escape: {why} @ line {getattr(e.node, 'lineno', 0)}")
        c = f"from_native(<{kind}>)"
        if bad:
            run.violated("ONLY-VALUEERROR", c, site, "; ".join(sorted(set(bad)))[:300],
                         witness=f"from_native(<a {kind}>) raises something else than ValueError")
        else:
            run.holds("ONLY-VALUEERROR", c, site, f"{len(ps)} paths; raises: {sorted({p.value.cls_name for p in raises}) or 'none'}",  # type: ignore
                      nontrivial=True)
        # ---------------- ARM / FINAL
        if want is None:
            if rets:
                run.violated("FINAL", c, site, f"a non-plain {kind} is converted to {rets[0].value.key()[:50]} instead of being refused",  # type: ignore
                             witness=f"from_native(<a {kind}>) returns a schema")
            elif raises and all(p.value.cls is ValueError for p in raises):  # type: ignore
                run.holds("FINAL", c, site, "refused with ValueError", nontrivial=False)
            else:
                run.undecided("FINAL", c, site, "neither returns nor raises ValueError")
            continue
        if not rets:
            run.violated("ARM", c, site, f"a plain {kind} is never converted (all paths raise)", witness=f"from_native(<a {kind}>) raises")
            continue
        probs: List[str] = []
        notes: List[str] = []
        seen_entry = False
        for p in rets:
            v = p.value
            if not isinstance(v, SchemaV) or v.cls is None:
                probs.append(f"returns {v.key()[:40] if v else None}, not a schema")
                continue
            if v.cls.name != want:
                st = model.schemas.get(v.cls.name)
                notes.append(f"{kind} handled by {v.cls.name} (expected {want}): an earlier arm tests a supertype")
            if kind == "NoneType":
                continue
            pv = v.props.vals if isinstance(v.props, PropsV) else {}
            if kind in ("list", "dict"):
                for e in p.events:
                    if e.kind == "comp_iter" and e.func == fn.qualname and e.data.get("conds"):
                        probs.append("members are filtered (comprehension has a condition): some members are dropped")
                _check_recursion(kind, pv, probs)
                if kind == "dict" and isinstance(pv.get("_entries"), Const) and pv["_entries"].value > 0:
                    seen_entry = True
                if kind == "dict" and isinstance(pv.get("_entries"), Const):
                    its = [e.data["iterations"] for e in p.events if e.kind == "loop" and e.func == fn.qualname
                           and "value" in e.data["iterable"].key()]
                    if its and pv["_entries"].value < max(its):
                        cond = [("" if b else "not ") + k for k, _, b in p.facts if "@value" in k or "@items(value)" in k][-1:]
                        probs.append(f"a member of the value is iterated but gets no entry (when {cond[0][:60] if cond else '?'}): members are dropped")
            else:
                val = pv.get("value")
                if val is None or val.key() != "value":
                    probs.append(f"pins {val.key()[:40] if val is not None else 'nothing'} instead of the given value")
            # validator guard of the produced class accepts this kind
            st = model.schemas.get(v.cls.name)
            if st is not None and st.hook:
                rows, _ = extract(prog, model, "Validator", st.hook, Config(()))
                labels = {str(r.term.args[1]) for r in rows if r.error == "TypeValidationError" and isinstance(r.term, Term) and r.term.op == "isinstance"}
                if kind == "float" and "value" in st.props:
                    from .c02 import loose_isclose
                    vr, _ = extract(prog, model, "Validator", st.hook, Config(("value",)))
                    for r in vr:
                        why = loose_isclose(r.term) if r.error == "ValueValidationError" else None
                        if why:
                            probs.append(f"validator of {v.cls.name} compares the pinned float with a widened tolerance ({why}): "
                                         "values differing from it are accepted")
                            break
                if kind not in ("float", "NoneType", "list", "dict") and "value" in st.props:
                    vr, _ = extract(prog, model, "Validator", st.hook, Config(("value",)))
                    vrows = [r for r in vr if r.error == "ValueValidationError"]
                    if vrows and not all(isinstance(r.term, Term) and r.term.op == "eq" and r.polarity is False for r in vrows):
                        probs.append(f"validator of {v.cls.name} does not compare the pinned value exactly ({vrows[0].pred_key[:60]}): "
                                     "values differing from it are accepted")
                    else:
                        # ... and what is compared is the validated value itself, not an image of it (value.date(),
                        # str(value), ...): two values with the same image would both be accepted
                        for r in vrows:
                            ops = {a.key() for a in r.term.args if isinstance(a, V)}      # type: ignore[union-attr]
                            img = sorted(o for o in ops if o not in ("value", "props.value"))
                            if img:
                                probs.append(f"validator of {v.cls.name} compares an image of the value ({img[0][:50]}) instead of the "
                                             "value itself: values of another kind with the same image are accepted")
                                break
                from ..values import kind_is
                if labels and not any(kind_is(kind, lab) or (kind == "UUID" and lab == "UUID") for l in labels for lab in l.split("|")):
                    probs.append(f"validator of {v.cls.name} guards on {sorted(labels)}, which rejects a {kind}")
        if kind == "dict" and not seen_entry:
            probs.append("no path stores an entry for a member of the value: members are dropped")
        if kind == "UUID":
            # version-4 only: the non-v4 branch must be refused
            v4 = [k for p in ps for k, _, b in p.facts if "version" in k]
            if not v4:
                probs.append("UUID arm does not test version == 4 (validator requires it)")
        if probs:
            run.violated("ARM", c, site, "; ".join(sorted(set(probs)))[:300],
                         witness=f"validate(from_native(v), v) has errors / fake(from_native(v)) != v for a {kind} v")
        else:
            run.holds("ARM", c, site, f"-> {want}()(value) pinning the given value; kinds agree with declaration and validator", nontrivial=True)
        for nmsg in sorted(set(notes)):
            run.note("LADDER", c, site, nmsg)
    # ---------------- CROSS-MEMBER: the schema of member j is the conversion of member j, whatever came before it
    # (two members deep, comprehensions evaluated as the loops they are: a table keyed by the bare value hands the
    # schema of an earlier EQUAL member - 1 / 1.0 / True - to a later one)
    for kind in ("list", "dict"):
        it = Interp(prog, model, unroll=2, max_depth=9)
        it.max_recursion = 2            # type: ignore[attr-defined]
        it.comp_as_loop = True          # type: ignore[attr-defined]

        def run2(i: Interp) -> V:
            # a container of exactly two members of different scalar kinds that may be EQUAL (an int and a float)
            tag = "elem" if kind == "list" else "val"
            m0 = Sym(f"{tag}0@value", "int", ("elem", Sym("value", kind), 0), exact=True)
            m1 = Sym(f"{tag}1@value", "float", ("elem", Sym("value", kind), 1), exact=True)
            if kind == "list":
                arg: V = ListV([m0, m1])
            else:
                arg = DictV([(Sym("key0@value", "str", ("key", Sym("value", kind), 0), exact=True), m0),
                             (Sym("key1@value", "str", ("key", Sym("value", kind), 1), exact=True), m1)])
            return i.call_function(fn, [arg], {})
        ps2 = it.run_paths(run2, max_paths=2000)
        c = f"from_native(<{kind}>): member j converted from member j"
        probs: List[str] = []
        seen = 0
        for p in ps2:
            if p.outcome != "return" or not isinstance(p.value, SchemaV) or not isinstance(p.value.props, PropsV):
                continue
            pv = p.value.props.vals
            members: List[V] = []
            if kind == "list" and isinstance(pv.get("elements"), ListV):
                members = [x for x in pv["elements"].items if isinstance(x, V)]
            elif kind == "dict" and isinstance(pv.get("keys"), DictV):
                members = [tv.items[0] for _, tv in pv["keys"].pairs() if isinstance(tv, TupleV) and tv.items]
            if len(members) != 2:
                continue
            seen += 1
            tag = "elem" if kind == "list" else "val"
            for j, m in enumerate(members):
                mk, other = m.key(), f"{tag}{1 - j}@"
                mine_ = f"{tag}{j}@"
                if isinstance(m, Term) and m.op == "getitem" and isinstance(m.args[0], DictV) and isinstance(m.args[1], V) \
                        and not isinstance(m.args[1], TupleV):
                    probs.append(f"the schema of member {j} is looked up in a table keyed by the bare value ({m.args[1].key()[:40]}): "
                                 "an earlier equal member of another kind (1 / 1.0 / True) answers for it")
                elif other in mk and mine_ not in mk:
                    probs.append(f"the schema of member {j} is the one built for member {1 - j} ({mk[:50]})")
        if probs:
            run.violated("CROSS-MEMBER", c, fn.loc, "; ".join(sorted(set(probs)))[:300],
                         witness="from_native([1, 1.0]) == schema.list([schema.int(1), schema.int(1)]), which rejects [1, 1.0]")
        elif seen:
            run.holds("CROSS-MEMBER", c, fn.loc, f"on {seen} two-member paths each member schema derives from its own member", nontrivial=True)
        else:
            run.undecided("CROSS-MEMBER", c, fn.loc, "no two-member return path")
    run.floor("ARM", 9)
    run.floor("ONLY-VALUEERROR", 11)
    run.floor("FINAL", 4)
    _memo(run, prog, model, fn)
    _refuses_plain.model = model  # type: ignore
    _refuses_plain(run, prog, fn, results)
    _key_identity(run, prog, model, fn, results.get("dict", []))



def native_contract(run: Run, prog: Program, model: Model, tier: str, why: str,
                    rules: Tuple[str, ...] = ("ARM", "FINAL")) -> None:
    """The substitution analyses summarise from_native by its contract (returns a schema that accepts the very value it
    was given, or raises ValueError).  The properties that lean on that summary re-derive it here, so a change of the
    conversion that breaks the contract is reported under the property whose clause it breaks too."""
    from ..report import HOLDS, UNDECIDED, VIOLATED
    sub = Run("C14", tier)
    check(sub, prog, model, tier)
    n = 0
    for o in sub.obs:
        rule = o.rule.split(".", 1)[1]
        if rule not in rules:
            continue
        n += 1
        c = f"{o.construct}: conversion contract" + ("" if rule in ("ARM", "FINAL") else f" ({rule})")
        if o.status == VIOLATED:
            run.violated("NATIVE-CONTRACT", c, o.site, f"{o.detail} - {why}", witness=o.witness)
        elif o.status == UNDECIDED:
            run.undecided("NATIVE-CONTRACT", c, o.site, o.detail)
        elif o.status == HOLDS:
            run.holds("NATIVE-CONTRACT", c, o.site, o.detail, nontrivial=o.nontrivial)
    run.floor("NATIVE-CONTRACT", 10)

def _memo(run: Run, prog: Program, model: Model, fn: Any, rule: str = "MEMO", roots: Optional[List[Any]] = None,
          prefixes: Tuple[str, ...] = ("d42.utils",), typed_ok: bool = True) -> None:
    """MEMO: the conversion depends on the *kind* of its argument (isinstance ladder; True/1/1.0 are equal and hash
    alike), so no function on the from_native path may be memoised by equality: lru_cache / cache without
    typed=True, or a dict keyed by the value."""
    import ast as _ast
    from ..flow import call_closure, dotted, function_local_imports
    funcs = call_closure(prog, [fn] + list(roots or []))
    funcs = [f for f in funcs if f.module.name.startswith(prefixes)]
    if roots:
        # only what lies on a path from a root to the conversion (the roots' other callees are not conversions)
        reach = {f.qualname for f in call_closure(prog, [fn])}
        def leads(f: Any) -> bool:
            return f.qualname in reach or any(g.qualname in reach for g in call_closure(prog, [f]))
        funcs = [f for f in funcs if leads(f)]
    bad = 0
    for f in funcs:
        for d in f.node.decorator_list:
            name = dotted(prog, f.module, d.func if isinstance(d, _ast.Call) else d, function_local_imports(f.node)) or _ast.unparse(d)
            if name.split(".")[-1] in ("lru_cache", "cache"):
                typed = isinstance(d, _ast.Call) and any(k.arg == "typed" and isinstance(k.value, _ast.Constant) and k.value.value is True for k in d.keywords)
                if typed and not typed_ok:
                    # purity (C07): typed=True separates kinds, not equal-but-distinguishable values of ONE kind - 0.0 and -0.0,
                    # aware datetimes of one instant in different zones: the stored payload (props.value, repr, what is
                    # generated) is then that of whichever was converted first
                    bad += 1
                    run.violated(rule, f"{f.qualname}: @{name.split('.')[-1]}(typed=True)", f.loc,
                                 "the conversion is memoised by equality/hash: equal values of one kind that are still distinguishable "
                                 "(0.0 / -0.0, one instant in two time zones) share a cache slot, so the result depends on what was converted before",
                                 witness="from_native(0.0); from_native(-0.0) returns schema.float(0.0): repr and props.value differ from a fresh interpreter's")
                elif not typed:
                    bad += 1
                    run.violated(rule, f"{f.qualname}: @{name.split('.')[-1]}", f.loc,
                                 "a kind-sensitive conversion is memoised by equality/hash: True, 1 and 1.0 share one cache slot",
                                 witness="from_native(True); from_native(1.0) returns schema.bool(True), which rejects 1.0")
        # value-keyed module-level dict caches
        for n in _ast.walk(f.node):
            if isinstance(n, _ast.Subscript) and isinstance(n.value, _ast.Name) and n.value.id in f.module.bindings \
                    and f.module.bindings[n.value.id].kind == "assign" and isinstance(n.ctx, _ast.Store):
                idx = n.slice
                params = {a.arg for a in f.node.args.args}
                if isinstance(idx, _ast.Name) and idx.id in params:
                    bad += 1
                    run.violated(rule, f"{f.qualname}: {n.value.id}[{idx.id}] cache", f"{f.module.path}:{n.lineno}",
                                 "converted values are cached in a module-level dict keyed by the value itself: equal values of "
                                 "different kinds (3 and 3.0, True and 1) share one slot",
                                 witness="from_native(3) then from_native(3.0) returns schema.int(3), which rejects 3.0")
    if not bad:
        run.holds(rule, "from_native call closure", fn.loc, f"no equality-keyed memoisation in {len(funcs)} functions", nontrivial=False)
    run.floor(rule, 1)


def _refuses_plain(run: Run, prog: Program, fn: Any, results: Dict[str, List[Path]]) -> None:
    """A plain value may be refused (ValueError) only for a documented non-plain trait of the value itself.
    Containers are evaluated one recursion level deep, so a refusal that needs a nested member is visible."""
    ok_markers = ("optional|ellipsis", "ellipsis|optional", "version")
    plain_kinds = {k for k, w in KINDS if w is not None}
    model = _refuses_plain.model  # type: ignore
    for kind, want in KINDS:
        if want is None or kind not in results:
            continue
        paths = results[kind]
        if kind in ("list", "dict"):
            it = Interp(prog, model, unroll=1, max_depth=9)
            it.max_recursion = 2   # type: ignore

            def run1(i: Interp) -> V:
                return i.call_function(fn, [Sym("value", kind, ("param", "value"), exact=True)], {})
            paths = it.run_paths(run1, max_paths=1500)
        odd = []
        for p in paths:
            if p.outcome == "raise" and isinstance(p.value, ExcV) and p.value.cls is ValueError and not p.implicit:
                conds = [("" if b else "not ") + k for k, _, b in p.facts]
                if any(any(m in c for m in ok_markers) or ("optional" in c and "ellipsis" in c and "isinstance(" in c) for c in conds):
                    continue        # (the two marker kinds may be tested by one isinstance or by two, in any Boolean arrangement)
                inst = [(t, b) for _, t, b in p.facts if isinstance(t, Term) and t.op == "isinstance"
                        and not any(m in str(t.args[1]) for m in ("optional", "ellipsis"))]
                # the last kind test that SUCCEEDED on this path tells what the refused (member) value is
                pos = [t for t, b in inst if b]
                if inst and inst[-1][1] is False and not (pos and inst.index((pos[-1], True)) == len(inst) - 1):
                    if not pos or any(alt not in plain_kinds for alt in str(pos[-1].args[1]).split("|")):
                        continue    # fell off the end of the ladder: a member of a non-plain kind
                    # a plain kind was established for the refused value after which no arm fired
                    last_pos_at = max(i for i, (t, b) in enumerate(inst) if b)
                    if any(not b for _, b in inst[last_pos_at + 1:]) and str(inst[-1][0].args[0].key()) != str(pos[-1].args[0].key()):
                        continue    # the later negative tests concern another value
                if pos and any(alt not in plain_kinds for alt in str(pos[-1].args[1]).split("|")) and kind not in ("list", "dict"):
                    continue
                odd.append(", ".join(c for c in conds if not c.startswith(("isinstance(value", "not isinstance(value")))[:300] or "unconditionally")
        c = f"from_native(<{kind}>): refusal"
        if odd:
            run.violated("REFUSES-PLAIN", c, fn.loc, f"a plain {kind} is refused with ValueError when {odd[0]}",
                         witness=f"from_native(<plain {kind}>) raises ValueError (e.g. a container referenced twice inside one value)")
        else:
            run.holds("REFUSES-PLAIN", c, fn.loc, "refused only for `...`/optional keys or a non-v4 UUID", nontrivial=False)
    run.floor("REFUSES-PLAIN", 8)


def _check_recursion(kind: str, pv: Dict[str, V], probs: List[str]) -> None:
    if kind == "list":
        el = pv.get("elements")
        t = el
        if isinstance(el, ListV) and len(el.items) == 1 and hasattr(el.items[0], "value"):
            t = el.items[0].value      # list(<comprehension>) copy made by ListSchema.__call__
        if not (isinstance(t, Term) and t.op == "listcomp"):
            probs.append(f"elements are {el.key()[:50] if el is not None else None}, not a comprehension over the value")
            return
        elt = t.args[0]
        if len(t.args) > 2:
            probs.append("members are filtered (comprehension has a condition): some members are dropped")
        if "src(value)" not in t.key():
            probs.append("comprehension does not range over the whole value")
        if not (isinstance(elt, Term) and elt.op == "call" and "from_native" in str(elt.args[0]) and "elem@value" in elt.key()):
            probs.append(f"member schema is {elt.key()[:50]}, not from_native(<member>)")
    else:
        ks = pv.get("keys")
        if ks is None:
            probs.append("no key table built")
            return
        if isinstance(ks, DictV):
            for k, v in ks.pairs():
                ok = "key" in k.key() and "@value" in k.key() and isinstance(v, TupleV) and len(v.items) == 2 \
                    and "from_native" in v.items[0].key() and "@value" in v.items[0].key() \
                    and isinstance(v.items[1], Const) and v.items[1].value is False
                if not ok:
                    probs.append(f"entry {k.key()[:30]}: {v.key()[:50]} is not (key, (from_native(member), required))")
            pv["_entries"] = Const(len(ks.pairs()))
        else:
            probs.append(f"key table {ks.key()[:60]} is not a table built from the value's items")


def _key_identity(run: Run, prog: Program, model: Model, fn: Any, paths: List[Path]) -> None:
    """Keys must be stored as given: DictSchema.__call__ unwraps optional(...) keys and special-cases `...`,
    so the dict arm has to exclude those key kinds (two cooperating sites)."""
    rets = [p for p in paths if p.outcome == "return"]
    site = fn.loc
    if not rets:
        run.undecided("KEY-IDENTITY", "from_native(<dict>): keys", site, "no returning path")
        return
    probs = []
    for p in rets:
        # any path on which a key of the value could be optional / ellipsis when it reaches DictSchema.__call__
        for k, t, b in p.facts:
            if isinstance(t, Term) and t.op == "isinstance" and b and "key" in t.args[0].key() and \
                    any(lab in ("optional", "ellipsis") for lab in str(t.args[1]).split("|")):
                probs.append(f"a key of kind {t.args[1]} reaches the schema constructor, which rewrites it")
    if probs:
        run.violated("KEY-IDENTITY", "from_native(<dict>): keys", site, "; ".join(sorted(set(probs))),
                     witness="from_native({optional('a'): 1}) silently builds {'a': optional} / from_native({...: 1}) raises DeclarationError")
    else:
        run.holds("KEY-IDENTITY", "from_native(<dict>): keys", site,
                  "optional(...) and `...` keys are excluded before DictSchema.__call__ sees them", nontrivial=True)
    run.floor("KEY-IDENTITY", 1)


FN = "d42/utils/_from_native.py"
MUTANTS = [
    {"name": "date validator compares calendar dates through a helper (seeded C14-J)", "rule": "ARM",
     "edits": [("d42/validation/_validator.py", "        if error := self._validate_type(path, value, date):\n            return result.add_error(error)\n\n        if schema.props.value is not Nil:\n            if error := self._validate_value(path, value, schema.props.value):",
                "        if error := self._validate_type(path, value, date):\n            return result.add_error(error)\n\n        if schema.props.value is not Nil:\n            actual = value.date() if isinstance(value, datetime) else value\n            if error := self._validate_value(path, actual, schema.props.value):")]},
    {"name": "members interned per conversion in a dict keyed by the bare value", "rule": "CROSS-MEMBER",
     "edits": [(FN, "def from_native(value: Any) -> GenericSchema:\n    if value is None:", "def from_native(value: Any) -> GenericSchema:\n    return _convert(value, {})\n\n\ndef _convert(value: Any, interned: Any) -> GenericSchema:\n    if value is None:"),
               (FN, "    elif isinstance(value, int):\n        return IntSchema()(value)\n    elif isinstance(value, float):\n        return FloatSchema()(value)\n",
                "    elif isinstance(value, (int, float)):\n        if value not in interned:\n            interned[value] = IntSchema()(value) if isinstance(value, int) else FloatSchema()(value)\n        return interned[value]\n"),
               (FN, "        return ListSchema()([from_native(x) for x in value])", "        return ListSchema()([_convert(x, interned) for x in value])"),
               (FN, "        return DictSchema()({key: from_native(val) for key, val in value.items()})", "        return DictSchema()({key: _convert(val, interned) for key, val in value.items()})")]},
    {"name": "list arm drops the last member", "rule": "ARM",
     "edits": [(FN, "[from_native(x) for x in value]", "[from_native(x) for x in value[:-1]]")]},
    {"name": "dict arm filters None members", "rule": "ARM",
     "edits": [(FN, "{key: from_native(val) for key, val in value.items()}", "{key: from_native(val) for key, val in value.items() if val is not None}")]},
    {"name": "final arm returns a schema", "rule": "FINAL",
     "edits": [(FN, "    else:\n        raise ValueError(value)", "    else:\n        return NoneSchema()")]},
    {"name": "UUID arm loses version == 4", "rule": "ONLY-VALUEERROR",
     "edits": [(FN, "    elif isinstance(value, UUID) and (value.version == 4):", "    elif isinstance(value, UUID):")]},
    {"name": "key guard removed (F14 reverted)", "rule": "ONLY-VALUEERROR",
     "edits": [(FN, "        if any(isinstance(key, (optional, type(...))) for key in value):\n            raise ValueError(value)\n", "")]},
    {"name": "float arm builds an IntSchema", "rule": "ONLY-VALUEERROR",
     "edits": [(FN, "        return FloatSchema()(value)", "        return IntSchema()(value)")]},
    {"name": "str arm pins a stripped copy", "rule": "ARM",
     "edits": [(FN, "        return StrSchema()(value)", "        return StrSchema()(value.strip())")]},
    {"name": "tuples accepted as lists", "rule": "FINAL",
     "edits": [(FN, "    elif isinstance(value, list):", "    elif isinstance(value, (list, tuple)):")]},
    {"name": "bytes arm forgets the value", "rule": "ARM",
     "edits": [(FN, "        return BytesSchema()(value)", "        return BytesSchema()")]},
    {"name": "date arm tested before datetime with DateSchema (drops the time)", "rule": "ONLY-VALUEERROR", "expect": "SILENT",
     "edits": [(FN, "    elif isinstance(value, datetime):\n        return DateTimeSchema()(value)\n    elif isinstance(value, date):\n        return DateSchema()(value)",
                "    elif isinstance(value, date):\n        return DateSchema()(value)\n    elif isinstance(value, datetime):\n        return DateTimeSchema()(value)")]},
    {"name": "neutral: value bound to a local", "expect": "SILENT",
     "edits": [(FN, "    elif isinstance(value, str):\n        return StrSchema()(value)", "    elif isinstance(value, str):\n        text = value\n        return StrSchema()(text)")]},
    {"name": "neutral: explicit loop guard for keys", "expect": "SILENT",
     "edits": [(FN, "        if any(isinstance(key, (optional, type(...))) for key in value):\n            raise ValueError(value)\n",
                "        if any(isinstance(key, (optional, type(...))) for key in value):\n            raise ValueError(f\"bad key in {value!r}\")\n")]},
]

MUTANTS += [
    {"name": "scalar conversion behind functools.lru_cache", "rule": "MEMO",
     "edits": [(FN, "def from_native(value: Any) -> GenericSchema:\n    if value is None:", "def from_native(value: Any) -> GenericSchema:\n    if isinstance(value, (bool, int, float, str)):\n        return _scalar(value)\n    return _convert(value)\n\n\n@functools.lru_cache(maxsize=256)\ndef _scalar(value: Any) -> GenericSchema:\n    return _convert(value)\n\n\ndef _convert(value: Any) -> GenericSchema:\n    if value is None:"),
               (FN, "from datetime import date, datetime\n", "import functools\nfrom datetime import date, datetime\n")]},
    {"name": "lists longer than a limit refused", "rule": "REFUSES-PLAIN",
     "edits": [(FN, "    elif isinstance(value, list):\n", "    elif isinstance(value, list):\n        if len(value) > 1000:\n            raise ValueError(\"too long\")\n")]},
]
