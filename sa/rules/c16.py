"""C16 - custom schema types behave like built-ins in every position.

(1) ONLY-ACCEPT: in the visitors a member schema is used only as the receiver of __accept__ (no
    class-specific branch, no direct visit_* call) - so a forwarding custom member cannot be told apart;
(2) DISPATCH-CHAIN: Schema.__accept__ fallback -> visitor.visit -> schema.__d42_*__ -> user hook passes the
    named context (value, path, indent) unchanged and agrees on hook names, in all four visitors;
(3) ENTRY: validate / generate / substitute / represent hand their arguments to __accept__ unchanged.
"""
from __future__ import annotations

import ast
from typing import Any, Dict, List, Optional, Set, Tuple

from ..engine import Interp, kwargs_spread
from ..interp import Event, Path
from ..loader import AnalysisError, ClassInfo, FuncInfo, Program
from ..model import Model
from ..report import Run
from ..values import (ExcV, NIL, Const, FuncV, Inst, SchemaV, Sym, Term, V, is_nil)
from ..visits import (configs_for, make_visitor, representor_ctx, run_visit, substitutor_ctx, validator_ctx)

FAMILIES = {
    "Validator": (validator_ctx, ("value", "path"), "__d42_validate__", "__validate__"),
    "SubstitutorValidator": (validator_ctx, ("value", "path"), "__d42_validate__", "__validate__"),
    "Substitutor": (substitutor_ctx, ("value",), "__d42_substitute__", "__substitute__"),
    "Representor": (representor_ctx, ("indent",), "__d42_represent__", "__represent__"),
    "Generator": (None, (), "__d42_generate__", "__generate__"),
}


def _is_member(v: Any) -> bool:
    return isinstance(v, Sym) and bool(v.origin) and v.origin[0] == "member"


def check(run: Run, prog: Program, model: Model, tier: str) -> None:
    run.explanation = (
        "A forwarding custom type and the built-in it forwards to are reached through the same call "
        "member.__accept__(visitor, ...), so they can differ only where dispatch differs. Decided: on every "
        "interpreter path of every visit method of the five visitor classes a member schema is never the operand "
        "of a class test against a schema class nor passed to a visit_* method directly; the fallback chain "
        "Schema.__accept__ -> visit -> __d42_*__ -> user hook forwards value/path/indent unchanged and uses the "
        "hook names CustomSchema defines; the four entry functions pass their arguments through."
        " No function of the dispatch chain answers from instance or module-level state that the chain itself fills.")
    run.explanation += " TRANSPARENT: on every path through Schema.__accept__ -> visit -> hook, the visitor returns exactly the hook call's result and nothing raises after the hook returned."
    run.explanation += " DISPATCH-STATE also covers CustomSchema's own @final hooks (state kept on the instance)."
    run.explanation += " DISPATCH-CHAIN also compares the keyword set that reaches the user's hook with the caller's (an overriding visit() that adds a keyword is a violation); TRANSPARENT has three links: fallback -> visit, visit -> __d42_*__, __d42_*__ -> user hook (the hook's answer is returned on every path)."
    run.explanation += ' ONLY-ACCEPT also refuses a branch decided by the truth value of a member schema (a custom type may define __len__ / __bool__; no built-in does).'
    run.rule_text = ("one obligation per member-descent site (ONLY-ACCEPT), per link of the dispatch chain and per entry "
                     "function; non-trivial = established on interpreter paths through inlined helpers")
    unroll = 1
    sites: Dict[str, Tuple[str, str, str]] = {}
    bad: Dict[str, Tuple[str, str]] = {}
    notes: Dict[str, Tuple[str, str]] = {}
    for vis, (ctx, names, d42hook, userhook) in FAMILIES.items():
        for hook, f in model.visit_methods(vis).items():
            st = model.by_hook[hook]
            for cfg in configs_for(st, "quick"):
                for p in run_visit(prog, model, vis, hook, cfg, ctx, unroll=unroll):
                    for e in p.events:
                        if e.kind == "accept" and _is_member(e.data.get("recv")):
                            key = f"{vis}.{(e.func or '').split('.')[-1]}: {e.data['recv'].key()[0]}-member @accept"
                            k2 = f"{(e.func or '')}:{getattr(e.node, 'lineno', 0)}"
                            sites[k2] = (f"{(e.func or '').split('.')[-2]}.{(e.func or '').split('.')[-1]}", e.loc(prog), vis)
                        elif e.kind == "cond":
                            t = e.data.get("term")
                            if _is_member(t):
                                # the truth value of a schema object is its class's __bool__ / __len__: no built-in schema
                                # defines either, a custom type may (a record type with no fields has length 0)
                                bad[f"{e.func}: truth value of a member schema"] = (
                                    e.loc(prog), "a branch is decided by the truth value of a member schema (`if member:` instead of "
                                    "`is not Nil`): a custom type that defines __len__ / __bool__ takes the other branch")
                            if isinstance(t, Term) and t.op == "isinstance" and _is_member(t.args[0]):
                                label = str(t.args[1])
                                if any(l.endswith("Schema") for l in label.split("|")):
                                    notes[f"{e.func}: isinstance(member, {label})"] = (
                                        e.loc(prog), f"a member schema is tested against schema class {label}; not a violation by itself: "
                                        "both branches may still dispatch through __accept__ (a bypass is reported separately)")
                        elif e.kind == "call" and e.data.get("resolved") and isinstance(e.data.get("callee"), str):
                            callee = e.data["callee"].split(".")[-1]
                            if callee.startswith("visit_") and any(_is_member(a) for a in e.data.get("args", [])):
                                bad[f"{e.func}: {callee}(member)"] = (
                                    e.loc(prog), f"member schema passed to {callee} directly instead of through __accept__: a custom "
                                    "member is handled as if it were the built-in class")
    done: Set[str] = set()
    for k2, (where, site, vis) in sorted(sites.items()):
        c = f"{where}: member descent"
        n = sum(1 for d in done if d.startswith(c))
        c2 = f"{c} #{n + 1}"
        done.add(c2)
        run.holds("ONLY-ACCEPT", c2, site, "member reached through member.__accept__(self, ...)", nontrivial=True)
    for c, (site, why) in sorted(notes.items()):
        run.note("ONLY-ACCEPT", c, site, why)
    for c, (site, why) in sorted(bad.items()):
        run.violated("ONLY-ACCEPT", c, site, why,
                     witness="a CustomSchema forwarding to that built-in, placed as this member, behaves differently from the built-in")
    run.floor("ONLY-ACCEPT", 10)
    run.floor("TRANSPARENT", 4)

    _dispatch_chain(run, prog, model)
    _entries(run, prog, model)


def _dispatch_chain(run: Run, prog: Program, model: Model) -> None:
    custom = prog.cls("custom_type._custom_type.CustomSchema")
    accept = model.schema_base.methods.get("__accept__")
    if accept is None:
        raise AnalysisError("Schema.__accept__ not found")
    for vis in ("Validator", "SubstitutorValidator", "Substitutor", "Representor", "Generator"):
        ctxf, names, d42hook, userhook = FAMILIES[vis]
        if d42hook not in custom.methods:
            run.violated("DISPATCH-CHAIN", f"CustomSchema.{d42hook}", custom.loc,
                         f"CustomSchema defines no {d42hook}", witness=f"{vis} on a custom member raises NotImplementedError")
            continue
        # ---- link 1+2: Schema.__accept__ (fallback) -> visitor.visit -> getattr(schema, "<d42hook>")(visitor, ctx...)
        it = Interp(prog, model, unroll=1)
        ctx_syms: Dict[str, V] = {}

        def run1(i: Interp) -> V:
            v = make_visitor(i, vis)
            s = Sym("custom", "Schema", ("param", "schema"))
            kw: Dict[str, V] = {}
            for n in names:
                ctx_syms[n] = Sym(n, "PathHolder" if n == "path" else ("int" if n == "indent" else None), ("param", n))
                kw[n] = ctx_syms[n]
            kw.update(kwargs_spread("extra"))
            return i.call_function(accept, [v], kw, self_val=s)
        paths = it.run_paths(run1)
        construct = f"{vis}: Schema.__accept__ -> visit -> {d42hook}"
        found = None
        partial_ctx: List[str] = []
        for p in paths:
            for e in p.events:
                if e.kind == "call" and not e.data.get("resolved") and isinstance(e.data.get("callee"), Term) \
                        and e.data["callee"].op == "getattr":
                    if found is None or any(e.data["kwargs"].get(n) is None for n in names):
                        found = (p, e)      # prefer a path that drops part of the context
        bypass = [p for p in paths if p.outcome == "return" and not any(
            e.kind == "call" and not e.data.get("resolved") and isinstance(e.data.get("callee"), Term) and e.data["callee"].op == "getattr"
            for e in p.events)]
        if found is not None and bypass:
            cond = [("" if b else "not ") + k for k, _, b in bypass[0].facts][-2:]
            run.violated("DISPATCH-CHAIN", construct + ": bypass", accept.loc,
                         f"a custom member can be answered without calling {d42hook} (when {', '.join(cond)[:120] or 'always'}): "
                         "the built-in it forwards to would have been consulted",
                         witness="a forwarding custom member accepts/produces something the built-in member does not (e.g. a `...` placeholder)")
        if found is None:
            # was `visit` even called?
            run.violated("DISPATCH-CHAIN", construct, accept.loc,
                         f"no call of getattr(schema, ...) reachable from the fallback for {vis}",
                         witness=f"a custom member under {vis} raises NotImplementedError / is skipped")
        else:
            p, e = found
            hook_name = e.data["callee"].args[1]
            kw = e.data["kwargs"]
            probs = []
            if hook_name != d42hook:
                probs.append(f"{vis}.visit looks up {hook_name!r} but CustomSchema defines {d42hook!r}")
            for n in names:
                got = kw.get(n)
                if got is None or got.key() != ctx_syms[n].key():
                    probs.append(f"`{n}` is not forwarded unchanged to {hook_name} (got {got.key() if got is not None else 'nothing'})")
            # ... and nothing is added: a keyword of the visitor's own invention travels down through **kwargs and meets
            # itself at the next custom member (TypeError: multiple values), which a built-in member never sees
            extra_kw = sorted(k for k in kw if not k.startswith("**") and k not in names)
            if extra_kw:
                probs.append(f"{vis}.visit adds the keyword(s) {extra_kw} to the call of {hook_name}: nested custom members receive them twice")
            if probs:
                run.violated("DISPATCH-CHAIN", construct, e.loc(prog), "; ".join(probs),
                             witness=_witness(vis, probs))
            else:
                run.holds("DISPATCH-CHAIN", construct, e.loc(prog),
                          f"{hook_name}(visitor, {', '.join(n + '=' + n for n in names)}, **kwargs)", nontrivial=True)
            if not any(k.startswith("**") for k in kw):
                run.note("KWARGS", construct, e.loc(prog), "extra **kwargs not forwarded (built-ins ignore them as well)")
            # ---- TRANSPARENT: what the hook answered is the visitor's answer - nothing is checked, changed or refused after it
            tprobs: List[str] = []
            for p2 in paths:
                calls = [(i, e2) for i, e2 in enumerate(p2.events) if e2.kind == "call" and not e2.data.get("resolved")
                         and isinstance(e2.data.get("callee"), Term) and e2.data["callee"].op == "getattr"]
                if not calls:
                    continue
                i0, e0 = calls[-1]
                res_key = "call(" + e0.data["callee"].key()
                if p2.outcome == "return":
                    if p2.value is None or not p2.value.key().startswith(res_key):
                        tprobs.append(f"{vis}.visit returns {p2.value.key()[:40] if p2.value is not None else None}, not what {d42hook} returned")
                elif p2.outcome == "raise" and any(e3.kind == "raise" for e3 in p2.events[i0 + 1:]):
                    cond = [("" if b else "not ") + k for k, _, b in p2.facts[e0.nfacts:]][-1:]
                    exc = p2.value.cls_name if isinstance(p2.value, ExcV) else "an exception"
                    tprobs.append(f"after {d42hook} has returned, {vis}.visit may still raise {exc}"
                                  + (f" (when {cond[0][:70]})" if cond else "") + ": a built-in member in the same place gets no such second check")
            c2 = f"{vis}: the answer of {d42hook} is the visitor's answer"
            if tprobs:
                run.violated("TRANSPARENT", c2, e.loc(prog), "; ".join(sorted(set(tprobs)))[:400],
                             witness="a custom type forwarding to schema.dict: S % {'id': 1} (partial) fails for the custom member and succeeds for the built-in one")
            else:
                run.holds("TRANSPARENT", c2, e.loc(prog), "returned unchanged on every path; no raise after the hook", nontrivial=True)
        # ---- link 3: CustomSchema.__d42_*__ -> user hook
        if vis == "SubstitutorValidator":
            continue
        m = custom.methods[d42hook]
        it2 = Interp(prog, model, unroll=1)
        ctx2: Dict[str, V] = {}

        def run2(i: Interp) -> V:
            v = make_visitor(i, vis)
            s = SchemaV(custom, NIL, origin="param")
            kw: Dict[str, V] = {}
            for n in names:
                ctx2[n] = Sym(n, "PathHolder" if n == "path" else ("int" if n == "indent" else None), ("param", n))
                kw[n] = ctx2[n]
            kw.update(kwargs_spread("extra"))
            return i.call_function(m, [v], kw, self_val=s)
        paths2 = it2.run_paths(run2)
        construct = f"{vis}: CustomSchema.{d42hook} -> {userhook}"
        found_all = []
        for p in paths2:
            for e in p.events:
                if e.kind == "call" and not e.data.get("resolved") and isinstance(e.data.get("callee"), Term) \
                        and e.data["callee"].op == "getattr":
                    found_all.append((p, e))
        if not found_all:
            run.violated("DISPATCH-CHAIN", construct, m.loc, f"{d42hook} never calls a user hook",
                         witness="the user's hook is ignored")
            continue
        probs = []
        for p, e in found_all:           # EVERY path that reaches the hook must hand it the context
            hook_name = e.data["callee"].args[1]
            kw = e.data["kwargs"]
            if hook_name != userhook:
                probs.append(f"looks up {hook_name!r}, documented hook is {userhook!r}")
            if not e.data["args"] or not isinstance(e.data["args"][0], Inst):
                probs.append("visitor is not passed to the user hook")
            for n in names:
                got = kw.get(n)
                if got is None:
                    # may travel inside **kwargs after `kwargs[n] = n`
                    for kk, vv in kw.items():
                        if kk.startswith("**") and n in vv.key():
                            got = ctx2[n]
                if got is None or got.key() != ctx2[n].key():
                    cond = [("" if b else "not ") + k for k, _, b in p.facts][-1:]
                    probs.append(f"`{n}` is not forwarded unchanged on the path where {cond[0][:80] if cond else 'the hook is called'}")
        if probs:
            run.violated("DISPATCH-CHAIN", construct, e.loc(prog), "; ".join(probs), witness=_witness(vis, probs))
        else:
            run.holds("DISPATCH-CHAIN", construct, e.loc(prog),
                      f"{hook_name}(visitor, {', '.join(n + '=' + n for n in names)}, **kwargs)", nontrivial=True)
        # TRANSPARENT (link 3): what the user hook answered is what CustomSchema's own hook answers
        t3: List[str] = []
        for p3, e3 in found_all:
            res_key = "call(" + e3.data["callee"].key()
            idx3 = p3.events.index(e3)
            if p3.outcome == "return":
                if p3.value is None or not p3.value.key().startswith(res_key):
                    t3.append(f"{d42hook} returns {p3.value.key()[:40] if p3.value is not None else None}, not what {userhook} returned")
            elif p3.outcome == "raise" and any(ev3.kind == "raise" for ev3 in p3.events[idx3 + 1:]):
                cond3 = [("" if b else "not ") + k for k, _, b in p3.facts[e3.nfacts:]][-1:]
                exc3 = p3.value.cls_name if isinstance(p3.value, ExcV) else "an exception"
                t3.append(f"after {userhook} has returned, {d42hook} may still raise {exc3}" + (f" (when {cond3[0][:70]})" if cond3 else ""))
        c3 = f"{vis}: the answer of {userhook} is the answer of CustomSchema.{d42hook}"
        if t3:
            run.violated("TRANSPARENT", c3, m.loc, "; ".join(sorted(set(t3)))[:300],
                         witness="a custom type forwarding to schema.none: fake() raises where the built-in yields None")
        else:
            run.holds("TRANSPARENT", c3, m.loc, "returned unchanged on every path; no raise after the hook", nontrivial=True)
    # the fallback `visit` of a shared visitor singleton must not answer from state left by earlier calls
    from .c17 import hidden_state
    from ..report import Run as _Run
    for vis in ("Validator", "Substitutor", "Representor", "Generator"):
        sub = _Run(run.prop, "sub")
        hidden_state(sub, prog, model.visitors[vis], "DISPATCH-STATE")
        hits = [o for o in sub.obs if o.status == "VIOLATED" and f".visit:" in o.construct]
        for o in hits:
            run.violated("DISPATCH-STATE", o.construct, o.site, o.detail + " - a custom member can be answered from a cache instead of its hook",
                         witness="a freed custom schema's printed form / result is returned for a new custom schema at the same address or key")
        if not hits:
            run.holds("DISPATCH-STATE", f"{vis}.visit", model.visitors[vis].loc, "no state consulted before dispatching to the hook", nontrivial=False)
    # ... nor may CustomSchema's own @final hooks keep anything on the instance between two calls: what they hand to the
    # user hook and what they return is a function of the arguments of that call (indent, path, value, ...)
    subc = _Run(run.prop, "sub")
    hidden_state(subc, prog, custom, "DISPATCH-STATE")
    hitsc = [o for o in subc.obs if o.status == "VIOLATED"]
    for o in hitsc:
        run.violated("DISPATCH-STATE", o.construct, o.site, o.detail + " - a custom member is answered from what an earlier call "
                     "(at another depth / path) left on the instance",
                     witness="the same custom instance printed at two nesting depths replays the text of the first depth")
    if not hitsc:
        run.holds("DISPATCH-STATE", "CustomSchema.__d42_*__", custom.loc, "no state kept on the instance", nontrivial=False)
    # ... nor may any function of the dispatch chain answer from module-level state that the chain itself fills
    import ast as _ast
    chain = []
    sb = model.schema_base
    for nm in ("__accept__",):
        m = sb.lookup(nm)
        if m is not None:
            chain.append(m)
    for nm in ("visit", "__getattr__"):
        m = model.visitor_base.lookup(nm)
        if m is not None:
            chain.append(m)
    for vis in ("Validator", "Substitutor", "Representor", "Generator"):
        m = model.visitors[vis].lookup("visit")
        if m is not None and m not in chain:
            chain.append(m)
    cs = [c for c in prog.subclasses(sb) if c.name == "CustomSchema"]
    for c in cs:
        for nm, m in c.methods.items():
            if nm.startswith("__d42_"):
                chain.append(m)
    for m in chain:
        mod = m.module
        written: Dict[str, int] = {}
        read: Dict[str, int] = {}
        for n in _ast.walk(m.node):
            if isinstance(n, _ast.Subscript) and isinstance(n.value, _ast.Name) and n.value.id in mod.bindings \
                    and mod.bindings[n.value.id].kind == "assign" and not any(n.value.id == a.arg for a in m.node.args.args):
                (written if isinstance(n.ctx, (_ast.Store, _ast.Del)) else read).setdefault(n.value.id, n.lineno)
            if isinstance(n, _ast.Call) and isinstance(n.func, _ast.Attribute) and isinstance(n.func.value, _ast.Name) \
                    and n.func.value.id in mod.bindings and mod.bindings[n.func.value.id].kind == "assign":
                if n.func.attr in ("setdefault", "update", "append", "add", "pop", "clear", "__setitem__"):
                    written.setdefault(n.func.value.id, n.lineno)
                if n.func.attr in ("get", "setdefault", "pop", "__getitem__"):
                    read.setdefault(n.func.value.id, n.lineno)
            if isinstance(n, _ast.Compare) and any(isinstance(op, (_ast.In, _ast.NotIn)) for op in n.ops):
                for cmp_ in n.comparators:
                    if isinstance(cmp_, _ast.Name) and cmp_.id in mod.bindings and mod.bindings[cmp_.id].kind == "assign":
                        read.setdefault(cmp_.id, n.lineno)
        both = sorted(set(written) & set(read))
        c_ = f"{m.qualname.split('.')[-2]}.{m.name}: module-level state"
        if both:
            run.violated("DISPATCH-STATE", c_ + f" `{both[0]}`", f"{mod.path}:{read[both[0]]}",
                         f"the dispatch consults the module-level table `{both[0]}` that it fills itself (line {written[both[0]]}): "
                         "what a later visitor / schema gets depends on which one came first",
                         witness="two differently configured instances of one visitor class: custom members of the second are handled by the first")
        else:
            run.holds("DISPATCH-STATE", c_, m.loc, "no module-level table is both filled and consulted here", nontrivial=False)
    run.floor("DISPATCH-CHAIN", 8)


def _witness(vis: str, probs: List[str]) -> str:
    t = " ".join(probs)
    if "indent" in t:
        return "a custom member nested in a dict/list prints at column 0 while the built-in is indented"
    if "path" in t:
        return "errors of a nested custom member are rooted at `_` instead of the member's path"
    if "value" in t:
        return "a nested custom member validates/substitutes Nil instead of the member value"
    return f"custom members are not dispatched under {vis}"


def _entries(run: Run, prog: Program, model: Model) -> None:
    entries = [("d42.validation.validate", "Validator", ("value",)),
               ("d42.generation.generate", "Generator", ()),
               ("d42.substitution.substitute", "Substitutor", ("value",)),
               ("d42.representation.represent", "Representor", ())]
    for q, vis, names in entries:
        f = prog.func(q)
        it = Interp(prog, model, unroll=1)
        syms: Dict[str, V] = {}

        def runx(i: Interp) -> V:
            s = Sym("schema", "Schema", ("param", "schema"))
            s.cls = None
            syms["schema"] = s
            args: List[V] = [s]
            for n in names:
                syms[n] = Sym(n, None, ("param", n))
                args.append(syms[n])
            return i.call_function(f, args, kwargs_spread("extra"))
        paths = it.run_paths(runx)
        acc = [(p, e) for p in paths for e in p.events if e.kind == "accept"]
        construct = f"{q.split('.')[-1]}()"
        if not acc:
            run.violated("ENTRY", construct, f.loc, "entry function never calls schema.__accept__",
                         witness="custom and built-in schemas are not dispatched at the top level")
            continue
        p, e = acc[-1]
        probs = []
        if e.data["recv"].key() != syms["schema"].key():
            probs.append("receiver of __accept__ is not the given schema")
        v = e.data.get("visitor")
        if not (isinstance(v, Inst) and v.cls.is_subclass_of(model.visitors[vis])):
            probs.append(f"visitor is not the module-level {vis}")
        for n in names:
            got = e.data["kwargs"].get(n)
            if got is None or got.key() != syms[n].key():
                probs.append(f"`{n}` not passed through unchanged")
        if probs:
            run.violated("ENTRY", construct, e.loc(prog), "; ".join(probs), witness="top-level call differs from nested dispatch")
        else:
            run.holds("ENTRY", construct, e.loc(prog), f"schema.__accept__(<{vis} singleton>, {', '.join(names)})", nontrivial=True)
    run.floor("ENTRY", 4)


REP = "d42/representation/_representor.py"
VAL = "d42/validation/_validator.py"
SUB = "d42/substitution/_substitutor.py"
CT = "d42/custom_type/_custom_type.py"
MUTANTS = [
    {"name": "custom represent hook result cached on the instance regardless of indent (seeded C16-L)", "rule": "DISPATCH-STATE",
     "edits": [(CT, "            return cast(str, represent_method(visitor, indent=indent, **kwargs))\n", "            try:\n                return cast(str, self.__cached)\n            except AttributeError:\n                self.__cached = represent_method(visitor, indent=indent, **kwargs)\n            return cast(str, self.__cached)\n")]},
    {"name": "custom validate hook gets `path or make_path()` again (fix 51c1bdc reverted)", "rule": "DISPATCH-CHAIN",
     "edits": [("d42/custom_type/_custom_type.py", "            root = visitor.make_path() if path is Nil else path\n", "            root = path or visitor.make_path()\n")]},
    {"name": "Substitutor.visit re-validates what a custom hook returned (seeded C16-J)", "rule": "TRANSPARENT",
     "edits": [("d42/substitution/_substitutor.py", "            return cast(GenericSchema, substitute_method(self, value=value, **kwargs))", "            substituted = substitute_method(self, value=value, **kwargs)\n            result = substituted.__accept__(Validator(), value=value)\n            if result.has_errors():\n                raise make_substitution_error(result, self._formatter)\n            return cast(GenericSchema, substituted)")]},
    {"name": "neutral: hook result bound to a local before it is returned", "expect": "SILENT",
     "edits": [("d42/substitution/_substitutor.py", "            return cast(GenericSchema, substitute_method(self, value=value, **kwargs))", "            substituted = substitute_method(self, value=value, **kwargs)\n            return cast(GenericSchema, substituted)")]},
    {"name": "Representor.visit drops indent", "rule": "DISPATCH-CHAIN",
     "edits": [(REP, "            return cast(str, represent_method(self, indent=indent, **kwargs))", "            return cast(str, represent_method(self, **kwargs))")]},
    {"name": "__d42_validate__ always makes a new path", "rule": "DISPATCH-CHAIN",
     "edits": [(CT, "            root = visitor.make_path() if path is Nil else path\n", "            root = visitor.make_path()\n")]},
    {"name": "typed list fast-paths IntSchema members", "rule": "ONLY-ACCEPT",
     "edits": [(VAL, "            for index, elem in enumerate(value):\n                nested_path = deepcopy(path)[index]\n                res = type_schema.__accept__(self, value=elem, path=nested_path, **kwargs)",
                "            for index, elem in enumerate(value):\n                nested_path = deepcopy(path)[index]\n                if isinstance(type_schema, IntSchema):\n                    res = self.visit_int(type_schema, value=elem, path=nested_path)\n                else:\n                    res = type_schema.__accept__(self, value=elem, path=nested_path, **kwargs)")]},
    {"name": "Validator.visit drops path for custom types", "rule": "DISPATCH-CHAIN",
     "edits": [(VAL, "validate_method(self, value=value, path=path, **kwargs))", "validate_method(self, value=value, **kwargs))")]},
    {"name": "Substitutor.visit looks up a misspelt hook", "rule": "DISPATCH-CHAIN",
     "edits": [(SUB, 'getattr(schema, "__d42_substitute__", None)', 'getattr(schema, "__d42_substitude__", None)')]},
    {"name": "__d42_substitute__ forgets the value", "rule": "DISPATCH-CHAIN",
     "edits": [(CT, "substitute_method(visitor, value=value, **kwargs)", "substitute_method(visitor, **kwargs)")]},
    {"name": "dict generation handles DictSchema members natively", "rule": "ONLY-ACCEPT",
     "edits": [("d42/generation/_generator.py", "            generated[key] = val.__accept__(self, **kwargs)",
                "            generated[key] = self.visit_dict(val) if isinstance(val, DictSchema) else val.__accept__(self, **kwargs)")]},
    {"name": "validate() drops kwargs and value name", "rule": "ENTRY",
     "edits": [("d42/validation/__init__.py", "    return schema.__accept__(_validator, value=value, **kwargs)", "    return schema.__accept__(Validator(), **kwargs)")]},
    {"name": "neutral: hook bound to a local first", "expect": "SILENT",
     "edits": [(REP, "        if represent_method := getattr(schema, \"__d42_represent__\", None):\n            return cast(str, represent_method(self, indent=indent, **kwargs))",
                "        represent_method = getattr(schema, \"__d42_represent__\", None)\n        if represent_method:\n            return cast(str, represent_method(self, indent=indent, **kwargs))")]},
    {"name": "neutral: is_ellipsis replaced by an explicit type test on the marker", "expect": "SILENT",
     "edits": [("d42/generation/_generator.py", "                if is_ellipsis(elem):\n                    continue", "                if isinstance(elem, type(...)):\n                    continue")]},
]

MUTANTS += [
    {"name": "generic visit looked up once per visitor TYPE in a module-level table", "rule": "DISPATCH-STATE",
     "edits": [("d42/declaration/types/_schema.py", "        if visit_method := getattr(visitor, \"visit\", None):\n            return cast(ReturnType, visit_method(self, **kwargs))",
                "        if type(visitor) not in _VISIT:\n            _VISIT[type(visitor)] = getattr(visitor, \"visit\", None)\n        visit_method = _VISIT[type(visitor)]\n        if visit_method:\n            return cast(ReturnType, visit_method(self, **kwargs))"),
               ("d42/declaration/types/_schema.py", "class Schema(", "_VISIT: Any = {}\n\n\nclass Schema(")]},
    {"name": "indent forwarded only when the hook's signature names it", "rule": "DISPATCH-CHAIN",
     "edits": [(CT, "            return cast(str, represent_method(visitor, indent=indent, **kwargs))",
                "            if \"indent\" in getattr(represent_method, \"__code__\", represent_method).co_varnames:\n                return cast(str, represent_method(visitor, indent=indent, **kwargs))\n            return cast(str, represent_method(visitor, **kwargs))")]},
]

MUTANTS += [
    {"name": "SubstitutorValidator answers `...` for custom members itself", "rule": "DISPATCH-CHAIN",
     "edits": [("d42/substitution/_validator.py", "class SubstitutorValidator(Validator):\n", "class SubstitutorValidator(Validator):\n    def visit(self, schema: Any, *, value: Any = Nil, path: Nilable[PathHolder] = Nil, **kwargs: Any) -> ValidationResult:\n        if is_ellipsis(value):\n            return self._validation_result_factory()\n        return super().visit(schema, value=value, path=path, **kwargs)\n\n")]},
]

MUTANTS += [
    {"name": "custom representations cached by id(schema)", "rule": "DISPATCH-STATE",
     "edits": [(REP, "            return cast(str, represent_method(self, indent=indent, **kwargs))", "            key = (id(schema), indent)\n            if key not in self._cache:\n                self._cache[key] = cast(str, represent_method(self, indent=indent, **kwargs))\n            return self._cache[key]"),
               (REP, "        self._indent = indent\n", "        self._indent = indent\n        self._cache: dict = {}\n")]},
]

# round 7: the seeded changes that were missed on first contact, replayed against the current tree
MUTANTS += [
    {"name": 'seeded C16-M', "rule": 'DISPATCH-CHAIN',
     "edits": [('d42/substitution/_validator.py', 'from niltype import Nil, Nilable\nfrom th import PathHolder\n\nfrom d42.declaration.types import DictSchema, ListSchema\nfrom d42.utils import is_ellipsis\nfrom d42.validation import ValidationResult, Validator\nfrom d42.validation.errors import (\n', 'from niltype import Nil, Nilable\nfrom th import PathHolder\n\nfrom d42.declaration.types import DictSchema, GenericSchema, ListSchema\nfrom d42.utils import is_ellipsis\nfrom d42.validation import ValidationResult, Validator\nfrom d42.validation.errors import (\n'),
               ('d42/substitution/_validator.py', '\n\nclass SubstitutorValidator(Validator):\n    def visit_list(self, schema: ListSchema, *,\n                   value: Any = Nil, path: Nilable[PathHolder] = Nil,\n                   **kwargs: Any) -> ValidationResult:\n', "\n\nclass SubstitutorValidator(Validator):\n    def visit(self, schema: GenericSchema, *, value: Any = Nil, path: Nilable[PathHolder] = Nil,\n              **kwargs: Any) -> ValidationResult:\n        # Types without a dedicated ``visit_*`` method (custom types) are validated by their\n        # own ``__validate__`` hook. While substituting, the value is a *pattern*: it may be\n        # partial and may contain ``...`` placeholders, which a hook written for real values\n        # does not expect. Tell the hook which kind of validation is going on, so that it\n        # can be lenient too (hooks that don't care simply ignore the extra keyword).\n        return super().visit(schema, value=value, path=path, substitution=True, **kwargs)\n\n    def visit_list(self, schema: ListSchema, *,\n                   value: Any = Nil, path: Nilable[PathHolder] = Nil,\n                   **kwargs: Any) -> ValidationResult:\n")]},
    {"name": 'seeded C16-N', "rule": 'TRANSPARENT',
     "edits": [('d42/custom_type/_custom_type.py', '    @final\n    def __d42_generate__(self, visitor: Generator, **kwargs: Any) -> Any:\n        if generate_method := getattr(self, "__generate__", None):\n            return generate_method(visitor, **kwargs)\n        raise NotImplementedError(\n            f"{self.__class__.__name__} has no method \'__generate__\'")\n\n', '    @final\n    def __d42_generate__(self, visitor: Generator, **kwargs: Any) -> Any:\n        if generate_method := getattr(self, "__generate__", None):\n            generated = generate_method(visitor, **kwargs)\n            if generated is None:\n                # a hook whose branches do not all end in `return` yields None silently, and the\n                # missing value only shows up much later, as a validation error far from its cause\n                raise ValueError(\n                    f"{self.__class__.__name__}.__generate__ returned no value")\n            return generated\n        raise NotImplementedError(\n            f"{self.__class__.__name__} has no method \'__generate__\'")\n\n')]},
]

# round 8: the seeded changes that were missed on first contact, replayed against the current tree
MUTANTS += [
    {"name": 'seeded C16-O', "rule": 'ONLY-ACCEPT',
     "edits": [('d42/generation/_generator.py', '                max_length = max(max_length, min_length)\n            length = self._random.random_int(min_length, max_length)\n\n        if schema.props.type is not Nil:\n            return [schema.props.type.__accept__(self, **kwargs) for _ in range(length)]\n\n        if is_length_specified:\n            return [[] for _ in range(length)]\n', '                max_length = max(max_length, min_length)\n            length = self._random.random_int(min_length, max_length)\n\n        if type_schema := schema.props.type:\n            return [type_schema.__accept__(self, **kwargs) for _ in range(length)]\n\n        if is_length_specified:\n            return [[] for _ in range(length)]\n'),
               ('d42/validation/_validator.py', '                return result.add_error(\n                    MaxLengthValidationError(path, value, schema.props.max_len))\n\n        if (schema.props.type is Nil) and (schema.props.elements is Nil):\n            return result\n\n        if schema.props.type is not Nil:\n            type_schema = schema.props.type\n            for index, elem in enumerate(value):\n                nested_path = deepcopy(path)[index]\n                res = type_schema.__accept__(self, value=elem, path=nested_path, **kwargs)\n                result.add_errors(res.get_errors())\n            return result\n\n        elements = cast(List[GenericSchema], schema.props.elements)\n\n        # body\n', '                return result.add_error(\n                    MaxLengthValidationError(path, value, schema.props.max_len))\n\n        if type_schema := schema.props.type:\n            for index, elem in enumerate(value):\n                nested_path = deepcopy(path)[index]\n                res = type_schema.__accept__(self, value=elem, path=nested_path, **kwargs)\n                result.add_errors(res.get_errors())\n            return result\n\n        if schema.props.elements is Nil:\n            return result\n\n        elements = cast(List[GenericSchema], schema.props.elements)\n\n        # body\n')]},
]
