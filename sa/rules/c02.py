"""C02 - validation verdict equals the declared constraints (each constraint as specified; verdict as a
function is not decided).

TYPE-FIRST, CONSTRAINT (decision table == frozen constraint table), PRESENT (no constraint dropped in a
combination), DICT, ANY, LIST-FORMS (partition, every concrete member validated, sibling agreement between
Validator and Substitutor), SIBLING (SubstitutorValidator == Validator minus the documented relaxations),
RESULT-ACC.
"""
from __future__ import annotations

from typing import Any, Dict, FrozenSet, List, Optional, Set, Tuple

from ..engine import Interp
from ..interp import Event, Path
from ..loader import AnalysisError, Program
from ..model import Model
from ..report import Run
from ..values import (ELL, Const, DictV, Inst, ListV, PropsV, SchemaV, Sym, Term, TupleV, V, is_ell)
from ..visits import (key_tables, Config, configs_for, list_shapes, member, run_visit, substitutor_ctx, validator_ctx)
from ..vtable import lossy_image, surplus_reported, Row, canonical, comparison_operands, dedupe, extract, relation

TYPE = {"visit_none": "NoneType", "visit_bool": "bool", "visit_int": "int", "visit_float": "float", "visit_str": "str",
        "visit_list": "list", "visit_dict": "dict", "visit_bytes": "bytes", "visit_datetime": "datetime",
        "visit_uuid4": "UUID", "visit_date": "date"}
# prop -> (error class, kind of spec)
REL = {"min": ("MinValueValidationError", "value", {"LT"}), "max": ("MaxValueValidationError", "value", {"GT"}),
       "len": ("LengthValidationError", "len(value)", {"LT", "GT"}),
       "min_len": ("MinLengthValidationError", "len(value)", {"LT"}),
       "max_len": ("MaxLengthValidationError", "len(value)", {"GT"}),
       "value": ("ValueValidationError", "value", {"LT", "GT"})}
CANON = {"pattern": ("RegexValidationError", ("SEARCH_NONE", "props.pattern", "value")),
         "substr": ("SubstrValidationError", ("NOT_IN", "props.substr", "value")),
         "alphabet": ("AlphabetValidationError", ("NOT_SUBSET", "value", "props.alphabet"))}
VALIDATORS = ("Validator", "SubstitutorValidator")
BOUNDARY = {"LT": "a value just below the bound", "EQ": "a value equal to the bound", "GT": "a value just above the bound",
            "LT_PART": "a value slightly below the bound", "GT_PART": "a value slightly above the bound"}


def check(run: Run, prog: Program, model: Model, tier: str) -> None:
    run.explanation = (
        "The validator's decision table is extracted by abstract interpretation of every visit method under every "
        "prop-set / shape: for each error construction the failing predicate is the last path fact before it. "
        "It is compared with the constraint table transcribed from the property statement (type guard first; value "
        "unequal; below min / above max; wrong / too short / too long length; regex search none; substring missing; "
        "character outside alphabet; UUID version; dict: missing iff absent and required, extra iff undeclared and "
        "not relaxed, member checked iff present; any: mismatch iff every alternative has errors). List forms: on "
        "every token shape exactly one form is taken, the slice handed to the member loop contains every concrete "
        "member and no `...`, and Validator and Substitutor compute the same slice and window start. "
        "SubstitutorValidator must equal Validator minus missing-key reporting and placeholder skipping. "
        "Window arithmetic and the verdict over nested values are not decided."
        " Also decided: the key table DictSchema.__call__ builds (flag per entry), the relation of every bound check in every prop combination (not on a lossy image of the value), surplus positions of an exact element list also when length props are carried, the documented float tolerance.")
    run.explanation += " DECL-STORES: on the declaration automaton every accepting path of a well-typed call shape reaches the shape's prop-set. MEMBER-VISITED: on every returning path of visit_list (exact lists) / visit_dict (keyed tables) each declared member is dispatched to, reported missing or absent by a fact. RESULT-ACC: all sequences (<= 3) of add_error / add_errors([]) / add_errors([x, y]), with and without initial errors."
    run.explanation += " MEMBER-CTX: a member schema is visited with value, path and the caller's own **kwargs - no keyword the enclosing visit added for itself."
    run.explanation += " TRUTH-GUARD: per single-prop configuration no error row has the bare truth value of the prop's payload among its path facts (a declared 0 / '' / False is a declaration), except for constraints that reject nothing at the falsy payload (min_len 0, substr '', pattern ''). TYPED-COVER counts a dispatch made in a helper the typed loop calls."
    run.rule_text = ("one obligation per (visitor, type, prop) row, per (prop-set, prop) presence, per key-table / shape / "
                     "alternative configuration; non-trivial = predicate extracted from interpreter paths and compared as a relation")
    from ..entry import entry_transparent
    entry_transparent(run, prog, model, "validate", "VALIDATE-ENTRY")
    run.trusted += ["the frozen constraint table (transcribed from the property statement)"]
    unroll = 1
    for vis in VALIDATORS:
        methods = model.visit_methods(vis)
        for hook, f in sorted(methods.items()):
            st = model.by_hook[hook]
            if hook in TYPE:
                _type_first(run, prog, model, vis, hook, f, st)
            # ---- CONSTRAINT rows under the singleton state {P}
            for prop in st.props:
                if prop not in REL and prop not in CANON:
                    continue
                if st.name in ("ListSchema",) and prop == "value":
                    continue
                rows, _ = extract(prog, model, vis, hook, Config((prop,)), unroll)
                rows = [r for r in dedupe(rows) if r.error != "TypeValidationError" and r.error != "InvalidUUIDVersionValidationError"]
                construct = f"{vis}.{hook}: {prop}"
                if st.name == "FloatSchema" and prop == "value":
                    ok = [r for r in rows if r.error == "ValueValidationError" and "value" in r.pred_key and "props.value" in r.pred_key]
                    loose = [(r, why) for r in ok for why in [loose_isclose(r.term)] if why]
                    if loose:
                        run.violated("CONSTRAINT", construct, loose[0][0].site,
                                     f"a fixed float value is compared with a wider tolerance than the documented one: {loose[0][1]}",
                                     witness="validate(schema.float(1e-12), 0.0) has no errors")
                    elif ok:
                        run.holds("CONSTRAINT", construct, ok[0].site, "float value compared with the documented tolerance (isclose)", nontrivial=True)
                    else:
                        run.violated("CONSTRAINT", construct, f.loc, "a fixed float value is never compared with the validated value",
                                     witness="validate(schema.float(1.0), 2.0) has no errors")
                    continue
                if not rows:
                    run.violated("CONSTRAINT", construct, f.loc, f"constraint `{prop}` produces no error on any path: it is not checked",
                                 witness=f"a value violating `{prop}` is accepted")
                    continue
                if prop == "value" and any(r.error == "ValueValidationError" and "isclose" in r.pred_key for r in rows):
                    bad_r = next(r for r in rows if "isclose" in r.pred_key)
                    run.violated("CONSTRAINT", construct, bad_r.site,
                                 f"a fixed {st.name[:-6].lower()} value is compared with a tolerance (isclose); only floats have a documented tolerance",
                                 witness="validate(schema.int(2**40), 2**40 - 1) has no errors")
                    continue
                if prop in REL:
                    err, xk, want = REL[prop]
                    mine = [r for r in rows if r.error == err]
                    others = [r for r in rows if r.error != err]
                    if others:
                        run.violated("CONSTRAINT", construct, others[0].site,
                                     f"violating `{prop}` is reported as {others[0].error} instead of {err}",
                                     witness="the reported fact is not the one that was checked")
                        continue
                    got: Set[str] = set()
                    und = False
                    for r in mine:
                        rr = relation(r.term, bool(r.polarity), xk, f"props.{prop}") if r.term is not None else None
                        if rr is None:
                            und = True
                        else:
                            got |= rr
                    if und and not got:
                        run.undecided("CONSTRAINT", construct, mine[0].site if mine else f.loc,
                                      f"predicate {mine[0].pred_key[:80] if mine else ''} is not a comparison of {xk} with props.{prop}")
                    elif got == want:
                        run.holds("CONSTRAINT", construct, mine[0].site, f"{err} iff ({xk} ? props.{prop}) in {sorted(want)}", nontrivial=True)
                    else:
                        wrongly_rejected = sorted(got - want)
                        wrongly_accepted = sorted(want - got)
                        w = []
                        if wrongly_rejected:
                            w.append("rejects " + " / ".join(BOUNDARY[x] for x in wrongly_rejected))
                        if wrongly_accepted:
                            w.append("accepts " + " / ".join(BOUNDARY[x] for x in wrongly_accepted))
                        run.violated("CONSTRAINT", construct, mine[0].site,
                                     f"{err} is raised when ({xk} ? props.{prop}) in {sorted(got)}, specified {sorted(want)}",
                                     witness="; ".join(w))
                else:
                    err, want_c = CANON[prop]
                    mine = [r for r in rows if r.error == err]
                    cs = {canonical(r.term, r.polarity) for r in mine}
                    if want_c in cs and len(cs) == 1:
                        run.holds("CONSTRAINT", construct, mine[0].site, f"{err} iff {want_c}", nontrivial=True)
                    elif not mine:
                        run.violated("CONSTRAINT", construct, f.loc, f"`{prop}` violations are reported as {sorted({r.error for r in rows})}",
                                     witness="wrong error kind")
                    elif None in cs:
                        run.undecided("CONSTRAINT", construct, mine[0].site, f"predicate {mine[0].pred_key[:90]} not in canonical form")
                    else:
                        run.violated("CONSTRAINT", construct, mine[0].site, f"{err} is raised on {sorted(c for c in cs if c)}, specified {want_c}",
                                     witness=f"a value conforming to `{prop}` is rejected or a violating one accepted")
            # ---- PRESENT in combination
            if st.name not in ("ListSchema", "DictSchema", "AnySchema", "TypeAliasSchema"):
                for cfg in configs_for(st, tier):
                    if len(cfg.setprops) < 2:
                        continue
                    rows, paths = extract(prog, model, vis, hook, cfg, unroll)
                    have = {r.error for r in rows}
                    for prop in cfg.setprops:
                        err = REL.get(prop, (None,))[0] or CANON.get(prop, (None,))[0]
                        if err is None:
                            continue
                        c = f"{vis}.{hook} {cfg.label}: {prop}"
                        if err in have and prop in REL and prop != "value":
                            # ... and still the specified relation of the value itself (a fixed float is compared at
                            # the declared precision by design: CONSTRAINT handles `value`)
                            _, xk, want = REL[prop]
                            mine = [r for r in dedupe(rows) if r.error == err and r.term is not None]
                            lossy = [(r, h) for r in mine if isinstance(r.term, Term) for a_ in r.term.args if isinstance(a_, V)
                                     for h in [lossy_image(a_, "value")] if h]
                            rels = [relation(r.term, bool(r.polarity), xk, f"props.{prop}") for r in mine]
                            if lossy:
                                r0, h0 = lossy[0]
                                run.violated("PRESENT", c, r0.site,
                                             f"in this combination `{prop}` is checked on {h0} of the value ({r0.pred_key[:70]}), not on the value",
                                             witness=f"a value on the wrong side of `{prop}` by less than the rounding step is accepted, one on the right side rejected")
                                continue
                            if rels and all(x is not None for x in rels):
                                got = set().union(*rels)        # type: ignore[arg-type]
                                if got != set(want):
                                    run.violated("PRESENT", c, mine[0].site,
                                                 f"in this combination {err} is raised when ({xk} ? props.{prop}) in {sorted(got)}, specified {sorted(want)}",
                                                 witness=f"schema with {cfg.label}: the `{prop}` boundary moves")
                                    continue
                        if err in have:
                            run.holds("PRESENT", c, f.loc, f"{err} still reachable in this combination", nontrivial=True)
                        else:
                            run.violated("PRESENT", c, f.loc, f"`{prop}` is not checked when declared together with {sorted(set(cfg.setprops) - {prop})}",
                                         witness=f"a value violating only `{prop}` is accepted by a schema with {cfg.label}")
        _dict_table(run, prog, model, vis)
        _any_table(run, prog, model, vis)
        _uuid(run, prog, model, vis)
    _list_forms(run, prog, model, tier)
    _dict_decl(run, prog, model)
    _decl_stores(run, prog, model, tier)
    _member_visited(run, prog, model, "Validator")
    _sibling(run, prog, model)
    _result_acc(run, prog, model)
    truth_guards(run, prog, model, tier, "TRUTH-GUARD")
    run.floor("CONSTRAINT", 30)
    run.floor("TYPE-FIRST", 14)
    run.floor("PRESENT", 40)


def _type_first(run: Run, prog: Program, model: Model, vis: str, hook: str, f: Any, st: Any, rule: str = "TYPE-FIRST") -> None:
    want = TYPE[hook]
    paths = run_visit(prog, model, vis, hook, Config(tuple(st.props[:2])) if st.name not in ("ListSchema", "DictSchema") else Config(()),
                      validator_ctx, unroll=1)
    construct = f"{vis}.{hook}: type guard"
    probs: List[str] = []
    ok = 0
    for p in paths:
        if not p.facts:
            probs.append("a path takes no decision on the value at all")
            continue
        k, t, b = p.facts[0]
        if not (isinstance(t, Term) and t.op == "isinstance" and t.args[0].key() == "value"):
            probs.append(f"first decision is `{k[:50]}`, not the type guard")
            continue
        if str(t.args[1]) != want:
            probs.append(f"type guard tests {t.args[1]} (specified: {want})")
        if not b:
            errs = [e for e in p.events if e.kind == "construct" and e.data.get("cls") is not None and e.data["cls"].name.endswith("ValidationError")]
            if len(errs) != 1 or errs[0].data["cls"].name != "TypeValidationError" or len(p.facts) != 1:
                probs.append("a wrongly typed value does not yield exactly one TypeValidationError and stop")
        ok += 1
    if probs:
        run.violated(rule, construct, f.loc, "; ".join(sorted(set(probs)))[:300],
                     witness=f"a value that is not a {want} is accepted or mis-reported")
    else:
        run.holds(rule, construct, f.loc, f"isinstance(value, {want}) decided first on all {ok} paths", nontrivial=True)


def _errs(p: Path) -> List[Event]:
    return [e for e in p.events if e.kind == "construct" and e.data.get("cls") is not None and e.data["cls"].name.endswith("ValidationError")]


def _dict_table(run: Run, prog: Program, model: Model, vis: str, only: Optional[str] = None, rule: str = "DICT") -> None:
    f = model.visitors[vis].lookup("visit_dict")
    st = model.by_hook["visit_dict"]
    for cfg in configs_for(st, "quick"):
        if not cfg.overrides:
            continue
        if only is not None and only not in cfg.label:
            continue
        tbl = cfg.build()["keys"]
        paths = run_visit(prog, model, vis, "visit_dict", cfg, validator_ctx, unroll=1)
        construct = f"{vis}.visit_dict {cfg.label}"
        probs: List[str] = []
        relaxed = any(is_ell(k) for k, _ in tbl.pairs())
        req = [k.key() for k, tv in tbl.pairs() if not is_ell(k) and tv.items[1].value is False]
        opt = [k.key() for k, tv in tbl.pairs() if not is_ell(k) and tv.items[1].value is True]
        seen_missing: Set[str] = set()
        seen_member: Set[str] = set()
        seen_extra = False
        for p in paths:
            if not p.facts or not p.facts[0][2]:
                continue
            facts = {k: b for k, _, b in p.facts}
            for e in _errs(p):
                cn = e.data["cls"].name
                if cn == "MissingKeyValidationError":
                    kk = e.data["args"][2].key()
                    seen_missing.add(kk)
                    if kk in opt:
                        probs.append(f"optional key {kk} reported missing")
                    if facts.get(f"in({kk}, value)") is not False:
                        probs.append(f"key {kk} reported missing although present")
                elif cn == "ExtraKeyValidationError":
                    seen_extra = True
                    if relaxed:
                        probs.append("extra key reported although the table is relaxed with `...: ...`")
            for e in p.events:
                if e.kind == "accept":
                    x = e.data["kwargs"].get("value")
                    if isinstance(x, Term) and x.op == "getitem":
                        kk = x.args[1].key()
                        seen_member.add(kk)
                        if facts.get(f"in({kk}, value)") is not True:
                            probs.append(f"member {kk} validated although absent")
            # a path where a required key is absent must carry the error (Validator only)
            if vis == "Validator":
                for kk in req:
                    if facts.get(f"in({kk}, value)") is False and kk not in {e.data["args"][2].key() for e in _errs(p) if e.data["cls"].name == "MissingKeyValidationError"}:
                        probs.append(f"required key {kk} absent without MissingKeyValidationError")
        if vis == "Validator" and req and not set(req) <= seen_missing:
            probs.append(f"required keys {sorted(set(req) - seen_missing)} are never reported missing")
        if vis == "SubstitutorValidator" and seen_missing:
            probs.append("SubstitutorValidator reports missing keys (partial values must be allowed)")
        if (req or opt) and not set(req + opt) <= seen_member:
            probs.append(f"members {sorted(set(req + opt) - seen_member)} are never validated")
        if not relaxed and not seen_extra:
            probs.append("undeclared keys are never reported although the table is not relaxed")
        if probs:
            run.violated(rule, construct, f.loc, "; ".join(sorted(set(probs)))[:300],
                         witness="a dict lacking a required key / carrying an undeclared key gets the wrong verdict")
        else:
            run.holds(rule, construct, f.loc, "missing iff absent&required, extra iff undeclared&not relaxed, member iff present", nontrivial=True)
    if only is None:
        run.floor("DICT", 8)


def _any_table(run: Run, prog: Program, model: Model, vis: str) -> None:
    f = model.visitors[vis].lookup("visit_any")
    st = model.by_hook["visit_any"]
    for cfg in configs_for(st, "quick"):
        paths = run_visit(prog, model, vis, "visit_any", cfg, validator_ctx, unroll=1)
        construct = f"{vis}.visit_any {cfg.label}"
        probs: List[str] = []
        n_alt = len(cfg.build()["types"].items) if cfg.overrides else 0
        for p in paths:
            errs = _errs(p)
            he = [(k, b) for k, _, b in p.facts if "has_errors" in k]
            if n_alt == 0:
                if errs:
                    probs.append("any() without alternatives reports an error")
                continue
            all_fail = len(he) == n_alt and all(b for _, b in he)
            if errs and not all_fail:
                probs.append("mismatch reported although an alternative had no errors")
            if not errs and all_fail:
                probs.append("every alternative has errors but no mismatch is reported")
            if errs and errs[0].data["cls"].name != "SchemaMismatchValidationError":
                probs.append(f"reports {errs[0].data['cls'].name}")
            acc = [e for e in p.events if e.kind == "accept"]
            if all_fail and len(acc) != n_alt:
                probs.append("not every alternative was tried before reporting a mismatch")
        if probs:
            run.violated("ANY", construct, f.loc, "; ".join(sorted(set(probs)))[:300], witness="any(a, b) disagrees with `a accepts or b accepts`")
        else:
            run.holds("ANY", construct, f.loc, "clean iff some alternative is clean; all alternatives tried", nontrivial=True)
    run.floor("ANY", 4)


def _uuid(run: Run, prog: Program, model: Model, vis: str) -> None:
    f = model.visitors[vis].lookup("visit_uuid4")
    rows, _ = extract(prog, model, vis, "visit_uuid4", Config(()), 1)
    rows = [r for r in rows if r.error == "InvalidUUIDVersionValidationError"]
    construct = f"{vis}.visit_uuid4: version"
    if not rows:
        run.violated("CONSTRAINT", construct, f.loc, "UUID version is not checked", witness="a version-1 UUID validates against schema.uuid4")
        return
    r = rows[0]
    ok = r.term is not None and isinstance(r.term, Term) and r.term.op == "eq" and r.polarity is False and \
        {a.key() for a in r.term.args} == {"4", "attr(value, version)"}
    if ok:
        run.holds("CONSTRAINT", construct, r.site, "InvalidUUIDVersion iff value.version != 4", nontrivial=True)
    else:
        run.violated("CONSTRAINT", construct, r.site, f"version error raised on `{r.pred_key[:60]}`", witness="wrong UUID versions accepted / v4 rejected")


def loose_isclose(t: Any) -> Optional[str]:
    """math.isclose(a, b, ...) with an absolute tolerance / a relative tolerance above the default 1e-09 (walks the term)."""
    if isinstance(t, Term):
        if t.op == "call" and t.args and t.args[0] == "math.isclose":
            for a in t.args[1:]:
                if isinstance(a, Term) and a.op == "kw" and len(a.args) == 2:
                    k, v = a.args
                    if k == "abs_tol" and not (isinstance(v, Const) and v.value == 0):
                        return f"abs_tol={v.key()[:20]} makes every two values closer than that equal, however small they are"
                    if k == "rel_tol" and not (isinstance(v, Const) and isinstance(v.value, (int, float)) and v.value <= 1e-09):
                        return f"rel_tol={v.key()[:20]} exceeds the default 1e-09"
        for a in t.args:
            r = loose_isclose(a)
            if r:
                return r
    return None



def _decl_stores(run: Run, prog: Program, model: Model, tier: str) -> None:
    """DECL-STORES: "meets every declared constraint" presupposes that a refinement call that is accepted stores its
    argument.  On the declaration automaton, from the empty state, every accepting path of a well-typed call shape must
    reach the same prop-set (the one the shape declares) with the prop bound to the argument: a path that accepts the
    call and returns the schema unchanged has silently dropped the constraint."""
    from ..automaton import build
    n = 0
    for st in model.concrete_builtin_schemas():
        if st.name in ("ListSchema", "DictSchema", "AnySchema", "TypeAliasSchema", "GenericTypeAliasSchema"):
            continue
        ta = build(prog, model, st, tier)
        for sh in ta.shapes:
            if not sh.well_typed:
                continue
            outs = [o for o in ta.trans.get((frozenset(), sh.key), []) if o.kind == "ACCEPT" and o.new_state is not None]
            if not outs:
                continue
            full = frozenset().union(*[o.new_state for o in outs])
            site = st.cls.methods[sh.method].loc
            c = f"{st.name}.{sh.label}: an accepted call stores what it was given"
            n += 1
            short = [o for o in outs if o.new_state != full]
            unbound = [o for o in outs if o.new_state == full and any(
                not any(a in v for a in (f"{sh.method}.", "call(")) and not v.startswith("'") for k, v in o.bindings if k in full)]
            if short:
                o = short[0]
                cond = [("" if b else "not ") + k for k, b in o.preds][-1:]
                run.violated("DECL-STORES", c, site, f"a path accepts the call and leaves {sorted(full - o.new_state)} undeclared"
                             + (f" (when {cond[0][:70]})" if cond else ""),
                             witness=f"schema.{st.facade_name or st.name}.{sh.label} returns a schema without that constraint; validate() never reports it")
            else:
                run.holds("DECL-STORES", c, site, f"every accepting path declares {sorted(full)}", nontrivial=len(outs) > 1)
    run.analysed["decl_stores_shapes"] = n
    run.floor("DECL-STORES", 15)

def _dict_decl(run: Run, prog: Program, model: Model) -> None:
    """DICT-DECL: the verdict on a dict rests on the key table that DictSchema.__call__ builds: `optional(k): S` is stored
    as k -> (S, True), every other key as k -> (S, False), `...: ...` as the relaxed marker - whatever the order of
    the entries (a flag that leaks from one entry to the next makes later required keys optional)."""
    st = model.schemas["DictSchema"]
    call = st.cls.methods.get("__call__")
    optc = prog.cls("declaration.types._optional.optional")
    if call is None:
        raise AnalysisError("DictSchema.__call__ not found")
    orders = [("optional first", ["o", "r"]), ("required first", ["r", "o"]), ("optional, marker, required", ["o", "...", "r"]),
              ("two required around an optional", ["r", "o", "r2"])]
    for label, order in orders:
        it = Interp(prog, model, unroll=1)

        def run1(i: Interp) -> V:
            items: List[Tuple[V, V]] = []
            for tok in order:
                if tok == "...":
                    items.append((ELL, ELL))
                elif tok == "o":
                    items.append((i._construct(optc, [Const("o1")], {}, None), member("O1")))
                else:
                    items.append((Const(tok + "1" if tok == "r" else tok), member(tok.upper())))
            s_ = SchemaV(st.cls, PropsV(st.props_cls, {}, "schema"), "self")
            return i.call_function(call, [DictV(items)], {}, self_val=s_)
        ps = it.run_paths(run1)
        construct = f"DictSchema.__call__: {label}"
        probs: List[str] = []
        rets = [p for p in ps if p.outcome == "return"]
        for p in rets:
            v = p.value
            tbl = v.props.vals.get("keys") if isinstance(v, SchemaV) and isinstance(v.props, PropsV) else None
            if not isinstance(tbl, DictV):
                probs.append("no key table in the result")
                continue
            for tok in order:
                if tok == "...":
                    if tbl.lookup(ELL) is None:
                        probs.append("the relaxed marker is lost")
                    continue
                key = Const("o1") if tok == "o" else Const(tok + "1" if tok == "r" else tok)
                got = tbl.lookup(key)
                want = tok == "o"
                if not (isinstance(got, TupleV) and len(got.items) == 2 and isinstance(got.items[1], Const)):
                    probs.append(f"entry of {key.key()} is {got.key()[:40] if got is not None else None}")
                elif bool(got.items[1].value) != want:
                    probs.append(f"key {key.key()} is stored as {'optional' if got.items[1].value else 'required'}, declared "
                                 f"{'optional' if want else 'required'}")
        if not rets:
            run.undecided("DICT-DECL", construct, call.loc, "no returning path")
        elif probs:
            run.violated("DICT-DECL", construct, call.loc, "; ".join(sorted(set(probs)))[:300],
                         witness="schema.dict({optional('name'): schema.str, 'id': schema.int}) accepts {}")
        else:
            run.holds("DICT-DECL", construct, call.loc, "flags follow the optional() wrapper entry by entry", nontrivial=True)
    run.floor("DICT-DECL", 3)


def _slice_tokens(v: V) -> Optional[List[str]]:
    if isinstance(v, ListV) and v.concrete():
        return ["..." if is_ell(x) else x.key() for x in v.items]
    return None


def _list_forms(run: Run, prog: Program, model: Model, tier: str) -> None:
    st = model.by_hook["visit_list"]
    vf = model.visitors["Validator"].lookup("visit_list")
    shapes = list_shapes(3 if tier == "quick" else 4)
    for name, mk in shapes:
        cfg = Config(("elements",), {"elements": mk}, label=f"elements={name}")
        members = [x.key() for x in mk().items if not is_ell(x)]
        forms: Dict[str, Set[Tuple[Tuple[str, ...], str]]] = {}
        for vis, ctx, callee in (("Validator", validator_ctx, "_validate_elements"), ("Substitutor", substitutor_ctx, "_substitute_elements")):
            paths = run_visit(prog, model, vis, "visit_list", cfg, ctx, unroll=1)
            got: Set[Tuple[Tuple[str, ...], str]] = set()
            for p in paths:
                for e in p.events:
                    if e.kind == "call" and isinstance(e.data.get("callee"), str) and e.data["callee"].endswith(callee) and e.data.get("inlined"):
                        args = e.data["args"]
                        kw = e.data["kwargs"]
                        idx = 2 if vis == "Validator" else 1
                        sl = _slice_tokens(args[idx]) if len(args) > idx else None
                        start = args[idx + 1].key() if len(args) > idx + 1 else (kw["start"].key() if "start" in kw else "0")
                        # loop-variable indices of the body form are all `window index`
                        if "i0@" in start or "i1@" in start or start.startswith("i@"):
                            start = "<window index>"
                        # `T if T > 0 else 0` is max(0, T): on the path where 0 < T holds the start T is the clamped one,
                        # on the other path the start 0 is
                        for fk, t_, b_ in p.facts[:e.nfacts]:
                            if isinstance(t_, Term) and t_.op == "lt" and len(t_.args) == 2 and isinstance(t_.args[0], Const) \
                                    and t_.args[0].value == 0 and isinstance(t_.args[1], V):
                                tk_ = t_.args[1].key()
                                if (b_ and start == tk_) or (not b_ and start == "0" and tk_.startswith("bin(-, len(value)")):
                                    start = f"max(0, {tk_})"
                        got.add((tuple(sl) if sl is not None else ("?",), start))
            forms[vis] = got
        construct = f"visit_list elements={name}"
        v = forms["Validator"]
        probs: List[str] = []
        slices = {s for s, _ in v}
        if not v:
            probs.append("no member loop is entered for this shape")
        if len(slices) > 1:
            probs.append(f"the shape is handled by more than one form (slices {sorted(slices)})")
        for s in slices:
            if "..." in s:
                probs.append("the `...` marker is handed to the member loop as if it were a schema")
            if list(s) != members and "?" not in s:
                probs.append(f"members validated {list(s)} differ from the declared concrete members {members}")
        # window start per form (spec): exact/head 0, tail max(0, len(value) - n), contains: a window index
        toks = ["..." if is_ell(x) else "S" for x in mk().items]
        n = len(members)
        starts = {b for _, b in v}
        if toks and toks[0] == "..." and (len(toks) == 1 or toks[-1] != "..."):
            want_start = {f"max(0, bin(-, len(value), {n}))"}
            form = "tail"
        elif len(toks) > 2 and toks[0] == "..." and toks[-1] == "...":
            want_start = {"0", "<window index>"}
            form = "contains"
        else:
            want_start = {"0"}
            form = "head" if toks and toks[-1] == "..." else "exact"
        if v and not (starts <= want_start and (form != "contains" or "<window index>" in starts)):
            probs.append(f"{form} form validates its members starting at {sorted(starts)}, specified {sorted(want_start)}")
        if form == "exact":
            # surplus elements must be reported - also when length props are carried next to the elements (that is what a
            # substituted list looks like)
            for ln in ((), ("max_len",), ("min_len", "max_len")):
                cfg_l = Config(("elements",) + ln, {"elements": mk}, label=f"elements={name}" + "".join("," + x for x in ln))
                rows, _ = extract(prog, model, "Validator", "visit_list", cfg_l, 1)
                okx, why = surplus_reported(rows, n)
                if not okx:
                    probs.append(why + (f" (with {', '.join(ln)} declared)" if ln else ""))
        else:
            rows, _ = extract(prog, model, "Validator", "visit_list", cfg, 1)
            if any(r.error == "ExtraElementValidationError" for r in rows):
                probs.append(f"{form} form reports extra elements although `...` allows them")
        if probs:
            run.violated("LIST-FORMS", construct, vf.loc, "; ".join(sorted(set(probs)))[:300],
                         witness=f"validate(schema.list({name}), <conforming list>) mis-validates")
        else:
            run.holds("LIST-FORMS", construct, vf.loc, f"one form; member loop gets {members} with start(s) {sorted({st_ for _, st_ in v})}", nontrivial=True)
        s_ = forms["Substitutor"]
        if s_:
            vs, ss = {x for x in v}, {x for x in s_}
            c2 = f"Validator vs Substitutor: elements={name}"
            if {a for a, _ in vs} != {a for a, _ in ss}:
                run.violated("SIBLING-FORMS", c2, vf.loc, f"validator handles slices {sorted({a for a, _ in vs})}, substitutor {sorted({a for a, _ in ss})}",
                             witness="a value the validator accepts is substituted at different positions")
            elif {b for _, b in vs} - {"0"} != {b for _, b in ss} - {"0"}:
                run.violated("SIBLING-FORMS", c2, vf.loc, f"window starts differ: validator {sorted({b for _, b in vs})}, substitutor {sorted({b for _, b in ss})}",
                             witness="the value is pinned at a different index than the one that was validated")
            else:
                run.holds("SIBLING-FORMS", c2, vf.loc, "same slice and window start", nontrivial=True)
    run.floor("LIST-FORMS", 10)
    run.floor("SIBLING-FORMS", 8)
    # TYPED-COVER: in the typed form every element of the value is handed to the element type (two iterations,
    # so that a decision depending on earlier elements is explored)
    for vis in VALIDATORS:
        f = model.visitors[vis].lookup("visit_list")
        cfg = Config(("type",), {"type": lambda: __import__("sa.visits", fromlist=["member"]).member("T")}, label="{type}")
        paths = run_visit(prog, model, vis, "visit_list", cfg, validator_ctx, unroll=2)
        probs: List[str] = []
        seen_iter = 0
        for p in paths:
            loops = [e for e in p.events if e.kind == "loop" and e.func == f.qualname and e.data["iterable"].key().startswith("enumerate(")
                     and "value" in e.data["iterable"].key()]
            if not loops:
                continue
            n = loops[-1].data["iterations"]
            seen_iter = max(seen_iter, n)
            # (the dispatch may sit in a helper the loop body calls: what counts is that it happens under visit_list)
            acc = [e for e in p.events if e.kind == "accept" and (e.func == f.qualname or any(q == f.qualname for q in (e.stack or ())))
                   and getattr(e.data.get("recv"), "key", lambda: "")() == "T"]
            skipped = n - len(acc)
            if skipped > 0:
                # documented relaxation of the substitution validator: `...` placeholders at the ends
                ell = sum(1 for k, _, b in p.facts if k.startswith("isinstance(elem") and "ellipsis" in k and b)
                if vis == "SubstitutorValidator" and ell >= skipped:
                    continue
                why = [k for k, _, b in p.facts if ("elem" in k and not k.startswith("isinstance(value"))][-1:]
                probs.append(f"{skipped} of {n} elements are not validated against the element type" + (f" (when {why[0][:70]})" if why else ""))
        c = f"{vis}.visit_list typed form: every element validated"
        if probs:
            run.violated("TYPED-COVER", c, f.loc, "; ".join(sorted(set(probs)))[:300],
                         witness="validate(schema.list(schema.int), [7, 7.0]) style: a later element escapes the element schema")
        elif seen_iter >= 2:
            run.holds("TYPED-COVER", c, f.loc, "each of the iterated elements reaches type_schema.__accept__", nontrivial=True)
        else:
            run.undecided("TYPED-COVER", c, f.loc, "typed loop not recognised")
    run.floor("TYPED-COVER", 1)



def _member_visited(run: Run, prog: Program, model: Model, vis: str) -> None:
    """MEMBER-VISITED: a container value conforms only if every present member conforms to ITS member schema.  On every
    returning path of visit_list (exact element lists) and visit_dict (keyed tables), each declared member is either
    dispatched to (member.__accept__(validator, ...)), reported missing, or absent by an established fact (optional key
    not in the value).  A path that skips the nested visit - e.g. because the member `==` some pinned value - skips the
    member's type check (1 == 1.0 == True)."""
    f_l = model.visitors[vis].lookup("visit_list")
    f_d = model.visitors[vis].lookup("visit_dict")
    st_l, st_d = model.by_hook["visit_list"], model.by_hook["visit_dict"]
    jobs: List[Tuple[str, Any, Config, List[str]]] = []
    for name, mk in list_shapes(2):
        toks = mk().items
        if not toks or any(is_ell(x) for x in toks):
            continue
        jobs.append(("visit_list", f_l, Config(("elements",), {"elements": mk}, label=f"elements={name}"), [x.key() for x in toks]))
    for name, mk in key_tables():
        tbl = mk()
        mem = [tv.items[0].key() for k, tv in tbl.pairs() if not is_ell(k)]
        if mem:
            jobs.append(("visit_dict", f_d, Config(("keys",), {"keys": mk}, label=f"keys={name}"), mem))
    ctx_only: Set[str] = set()
    for name, mk in list_shapes(2):
        toks = mk().items
        if toks and any(is_ell(x) for x in toks) and any(not is_ell(x) for x in toks):
            lab = f"elements={name}"
            ctx_only.add(lab)
            jobs.append(("visit_list", f_l, Config(("elements",), {"elements": mk}, label=lab), [x.key() for x in toks if not is_ell(x)]))
    for hook, f, cfg, mem in jobs:
        probs: List[str] = []
        ctx_bad: Set[str] = set()
        n = 0
        for p in run_visit(prog, model, vis, hook, cfg, validator_ctx, unroll=1):
            if p.outcome != "return":
                continue
            n += 1
            acc = {e.data["recv"].key() for e in p.events if e.kind == "accept"}
            # a path that reported a type / length error returned before looking at members
            early = any(e.kind == "construct" and e.data.get("cls") is not None and e.data["cls"].name in (
                "TypeValidationError", "LengthValidationError", "MinLengthValidationError", "MaxLengthValidationError") for e in p.events)
            if early:
                continue
            missing_reported = sum(1 for e in p.events if e.kind == "construct" and e.data.get("cls") is not None
                                   and e.data["cls"].name in ("MissingElementValidationError", "MissingKeyValidationError"))
            absent = sum(1 for fk, t, b in p.facts if isinstance(t, Term) and t.op == "in" and not b and len(t.args) == 2
                         and isinstance(t.args[1], V) and t.args[1].key() == "value")
            # ... and the member sees the caller's context only: value, path and the caller's own **kwargs.  A keyword the
            # container adds for its own bookkeeping (a window offset, say) travels on through **kwargs into the next
            # nested container, which then reads it as its own
            for e in p.events:
                if e.kind == "accept" and e.data["recv"].key() in mem:
                    for k_, v_ in (e.data.get("kwargs") or {}).items():
                        if k_ in ("value", "path"):
                            continue
                        if k_.startswith("**") and isinstance(v_, V) and v_.key() == "kwargs":
                            continue
                        ctx_bad.add(f"member {e.data['recv'].key()} is dispatched with {k_[:30]}={v_.key()[:30] if isinstance(v_, V) else v_}")
            unvisited = [m for m in mem if m not in acc]
            if hook == "visit_list" and missing_reported:
                continue            # the value ended: this and all later members are missing, one error says so
            if len(unvisited) > missing_reported + absent:
                cond = [("" if b else "not ") + k for k, _, b in p.facts][-1:]
                probs.append(f"{len(unvisited) - missing_reported - absent} of the members {unvisited} is neither validated nor reported missing "
                             f"on a returning path" + (f" (when {cond[0][:70]})" if cond else ""))
        cx = f"{vis}.{hook} {cfg.label}: members get the caller's context only"
        if ctx_bad:
            run.violated("MEMBER-CTX", cx, f.loc, "; ".join(sorted(ctx_bad))[:300],
                         witness="schema.list([..., schema.list([schema.int, schema.str])]) rejects [None, [1, 'a']]: the inner list is "
                                 "validated from the outer window's offset")
        elif n:
            run.holds("MEMBER-CTX", cx, f.loc, "value, path and **kwargs", nontrivial=True)
        if cfg.label in ctx_only:
            continue            # (window forms: which members are present is LIST-FORMS' business)
        c = f"{vis}.{hook} {cfg.label}: every present member is dispatched to"
        if probs:
            run.violated("MEMBER-VISITED", c, f.loc, "; ".join(sorted(set(probs)))[:300],
                         witness="validate(schema.list([schema.int(1)]), [1.0]) / validate(schema.dict({'id': schema.int(1)}), {'id': True}) has no errors")
        elif n:
            run.holds("MEMBER-VISITED", c, f.loc, f"{n} returning paths", nontrivial=True)
    run.floor("MEMBER-VISITED", 6)

def _sibling(run: Run, prog: Program, model: Model) -> None:
    """SubstitutorValidator.visit_list/visit_dict own rows == Validator's rows (minus MissingKey)."""
    for hook, props in (("visit_list", ("len", "min_len", "max_len")),):
        for prop in props:
            a, _ = extract(prog, model, "Validator", hook, Config((prop,)), 1)
            b, _ = extract(prog, model, "SubstitutorValidator", hook, Config((prop,)), 1)
            ka = {(r.error, r.pred_key) for r in a}
            kb = {(r.error, r.pred_key) for r in b}
            c = f"SubstitutorValidator.{hook} vs Validator.{hook}: {prop}"
            f = model.visitors["SubstitutorValidator"].lookup(hook)
            if ka == kb:
                run.holds("SIBLING", c, f.loc, f"identical rows {sorted(ka)}"[:200], nontrivial=True)
            else:
                run.violated("SIBLING", c, f.loc, f"validator rows {sorted(ka - kb)} vs substitution validator rows {sorted(kb - ka)}"[:300],
                             witness="schema % value accepts/rejects a value the schema itself rejects/accepts on that bound")
    run.floor("SIBLING", 3)


# constraints that reject nothing when their payload is the falsy value of its kind: `len(value) < 0`, `"" not in value`,
# `re.search("", value) is None` are never true, so skipping them for a falsy payload changes no verdict
VACUOUS_WHEN_FALSY = {"min_len", "substr", "pattern"}


def truth_guards(run: Run, prog: Program, model: Model, tier: str, rule: str, visitors: Tuple[str, ...] = VALIDATORS) -> None:
    """TRUTH-GUARD: a declared constraint is in force whatever its payload is: `len(0)`, `max(0)`, `alphabet("")`, a fixed value
    `0` / `""` / `False` are declarations like any other.  A check that is reached only when the payload is TRUTHY (`if
    props.len and ...`, `props.max or DEFAULT`) treats them as `not declared`.  Decided per single-prop configuration: no
    error row may have the bare truth value of the prop's payload among its path facts - except for the constraints that
    are vacuous at the falsy payload anyway (min_len 0, substr "", pattern "")."""
    from ..vtable import dedupe, extract
    for vis in visitors:
        if vis not in model.visitors:
            continue
        for hook, f in sorted(model.visit_methods(vis).items()):
            st = model.by_hook.get(hook)
            if st is None:
                continue
            for prop in st.props:
                if prop in ("type", "elements", "keys", "types", "name"):
                    continue            # schema-valued / container-valued props: their forms are LIST-FORMS / DICT / ANY
                rows, _ = extract(prog, model, vis, hook, Config((prop,)), 1)
                guarded = sorted({r.error for r in dedupe(rows) if any(k == f"props.{prop}" for k, _, _ in r.all_facts)})
                c = f"{vis}.{hook} {{{prop}}}: in force for a falsy payload"
                if guarded and prop not in VACUOUS_WHEN_FALSY:
                    run.violated(rule, c, f.loc, f"{', '.join(guarded)} is reported only on paths where `props.{prop}` is truthy: a declared "
                                 f"falsy payload (0, 0.0, '', b'', False) is treated as not declared",
                                 witness=f"validate(schema.<type>.{prop}(<falsy>), <violating value>) has no error")
                elif guarded:
                    run.holds(rule, c, f.loc, "guarded by truthiness, but the constraint rejects nothing at the falsy payload", nontrivial=True)
                else:
                    run.holds(rule, c, f.loc, "no error row depends on the payload's truth value", nontrivial=False)
    run.floor(rule, 20)


def prevalidation_forms(run: Run, prog: Program, model: Model, tier: str, rule: str) -> None:
    """The substitutor validates a list value with SubstitutorValidator before it pins anything.  `the value conforms to the
    original schema` is what every substitution property argues from, so for every element-list shape that validator has
    to be able to report every kind of error the plain Validator reports for the shape (it delegates to it today).  A shape
    for which a whole error kind is missing - an empty element list taken for `nothing declared` - lets a non-conforming
    value through to be pinned."""
    from ..vtable import dedupe, extract
    if "SubstitutorValidator" not in model.visitors:
        return
    fsv = model.visitors["SubstitutorValidator"].lookup("visit_list")
    cfgs = [Config(("elements",), {"elements": mk}, label=f"elements={name}") for name, mk in list_shapes(2)]
    cfgs.append(Config(("type",), {"type": lambda: member("T")}, label="{type}"))
    for cfg in cfgs:
        rv, _ = extract(prog, model, "Validator", "visit_list", cfg, 1)
        rs, _ = extract(prog, model, "SubstitutorValidator", "visit_list", cfg, 1)
        kv, ks = {r.error for r in rv}, {r.error for r in rs}
        c = f"SubstitutorValidator.visit_list {cfg.label}: reports what the validator reports"
        missing = sorted(kv - ks)
        if missing:
            run.violated(rule, c, fsv.loc, f"the validator can report {', '.join(missing)} for this shape, the pre-validation of a substitution never does",
                         witness="schema.list([]) % [1] succeeds although [1] does not conform to schema.list([])")
        else:
            run.holds(rule, c, fsv.loc, f"error kinds {sorted(kv)} all reachable", nontrivial=bool(kv))
    run.floor(rule, 5)


def _result_acc(run: Run, prog: Program, model: Model, rule: str = "RESULT-ACC") -> None:
    """The accumulator every validator path reports through: for every sequence (length <= 3) of add_error(e),
    add_errors([]) and add_errors([x, y]) - also on a result constructed with initial errors - get_errors() returns
    exactly what was added, in order, and has_errors() is True iff that list is non-empty."""
    import itertools
    ci = prog.cls("validation._validation_result.ValidationResult")
    bad: List[str] = []
    n = 0
    for init in (False, True):
        for k in range(0, 4):
            for seq in itertools.product("E02", repeat=k):
                it = Interp(prog, model)
                it.contracts.clear()
                out: Dict[str, Any] = {}
                want: List[str] = []

                def run1(i: Interp, seq: Any = seq, init: bool = init) -> V:
                    want.clear()
                    args: List[V] = []
                    if init:
                        args = [ListV([Sym("i0")])]
                        want.append("i0")
                    r = i._construct(ci, args, {}, None)
                    c = 0
                    for op in seq:
                        if op == "E":
                            c += 1
                            i.call_function(ci.lookup("add_error"), [Sym(f"e{c}")], {}, self_val=r)
                            want.append(f"e{c}")
                        elif op == "0":
                            i.call_function(ci.lookup("add_errors"), [ListV([])], {}, self_val=r)
                        else:
                            c += 2
                            i.call_function(ci.lookup("add_errors"), [ListV([Sym(f"e{c-1}"), Sym(f"e{c}")])], {}, self_val=r)
                            want.extend([f"e{c-1}", f"e{c}"])
                    out["has"] = i.call_function(ci.lookup("has_errors"), [], {}, self_val=r)
                    return i.call_function(ci.lookup("get_errors"), [], {}, self_val=r)
                ps = it.run_paths(run1)
                n += 1
                label = ("ValidationResult([i0])" if init else "ValidationResult()") + "".join(
                    {"E": ".add_error(e)", "0": ".add_errors([])", "2": ".add_errors([x, y])"}[o] for o in seq)
                if not (len(ps) == 1 and ps[0].outcome == "return" and isinstance(ps[0].value, ListV)):
                    bad.append(f"{label}: not a single returning path")
                    continue
                got = [x.key() for x in ps[0].value.items]
                if got != want:
                    bad.append(f"{label}: get_errors() is {got}, expected {want}")
                h = out.get("has")
                if not (isinstance(h, Const) and h.value is (len(want) > 0)):
                    bad.append(f"{label}: has_errors() is {h.key() if h is not None else None} with {len(want)} error(s)")
    if not bad:
        run.holds(rule, "ValidationResult", ci.loc, f"{n} operation sequences: errors kept in order; has_errors iff non-empty", nontrivial=True)
    else:
        run.violated(rule, "ValidationResult", ci.loc, "; ".join(bad[:3])[:400],
                     witness="validate(...) reports fewer errors than were found / has_errors() disagrees with get_errors(): "
                             "format_result() is empty and eq() is True for a value with errors")
    run.floor(rule, 1)


V_ = "d42/validation/_validator.py"
SV = "d42/substitution/_validator.py"
SU = "d42/substitution/_substitutor.py"
MUTANTS = [
    {"name": "float min() ignores an infinite bound (seeded C02-K)", "rule": "DECL-STORES",
     "edits": [("d42/declaration/types/_float_schema.py", "    def min(self, /, value: float) -> \"FloatSchema\":\n        if not isinstance(value, float):\n            raise make_invalid_type_error(self, value, (float,))\n",
                "    def min(self, /, value: float) -> \"FloatSchema\":\n        if not isinstance(value, float):\n            raise make_invalid_type_error(self, value, (float,))\n        if value in (float(\"inf\"), float(\"-inf\")):\n            return self\n")]},
    {"name": "members pinned to an equal value are not visited (seeded C14-K)", "rule": "MEMBER-VISITED",
     "edits": [(V_, "                nested_path = deepcopy(path)[real_index]\n                res = element_schema.__accept__(self, value=val, path=nested_path, **kwargs)\n",
                "                if element_schema.props.get(\"value\") == val:\n                    continue\n                nested_path = deepcopy(path)[real_index]\n                res = element_schema.__accept__(self, value=val, path=nested_path, **kwargs)\n")]},
    {"name": "ValidationResult tracks failure in a flag that an empty batch resets (seeded C08-K)", "rule": "RESULT-ACC",
     "edits": [("d42/validation/_validation_result.py", "        self._errors = errors if (errors is not None) else []\n", "        self._errors = errors if (errors is not None) else []\n        self._failed = len(self._errors) > 0\n"),
               ("d42/validation/_validation_result.py", "        self._errors.append(error)\n        return self\n\n    def add_errors", "        self._errors.append(error)\n        self._failed = True\n        return self\n\n    def add_errors"),
               ("d42/validation/_validation_result.py", "        for error in errors:\n            self._errors.append(error)\n        return self\n", "        for error in errors:\n            self._errors.append(error)\n        self._failed = len(errors) > 0\n        return self\n"),
               ("d42/validation/_validation_result.py", "        return len(self._errors) > 0\n", "        return self._failed\n")]},
    {"name": "optional flag leaks from one dict entry to the following ones", "rule": "DICT-DECL",
     "edits": [("d42/declaration/types/_dict_schema.py", "            if isinstance(key, optional):\n                real_keys[key.key] = (val, True)\n            else:\n                real_keys[key] = (val, False)\n",
                "            if isinstance(key, optional):\n                key, flag = key.key, True\n            real_keys[key] = (val, flag)\n"),
               ("d42/declaration/types/_dict_schema.py", "        real_keys = {}\n", "        real_keys = {}\n        flag = False\n")]},
    {"name": "neutral: dict entries normalised through a conditional expression", "expect": "SILENT",
     "edits": [("d42/declaration/types/_dict_schema.py", "            if isinstance(key, optional):\n                real_keys[key.key] = (val, True)\n            else:\n                real_keys[key] = (val, False)\n",
                "            is_opt = isinstance(key, optional)\n            real_keys[key.key if is_opt else key] = (val, is_opt)\n")]},
    {"name": "< -> <= in SubstitutorValidator's min-length check", "rule": "CONSTRAINT",
     "edits": [(SV, "            if len(value) < schema.props.min_len:", "            if len(value) <= schema.props.min_len:")]},
    {"name": "max_len check deleted in SubstitutorValidator", "rule": "CONSTRAINT",
     "edits": [(SV, "        if schema.props.max_len is not Nil:\n            if len(value) > schema.props.max_len:\n                return result.add_error(\n                    MaxLengthValidationError(path, value, schema.props.max_len))\n", "")]},
    {"name": "tail start loses max(0, ...) in the substitutor", "rule": "SIBLING-FORMS",
     "edits": [(SU, "            index = max(0, len(value) - len(elements))", "            index = len(value) - len(elements)")]},
    {"name": "body guard > 2 -> >= 1 in the validator", "rule": "SIBLING-FORMS",
     "edits": [(V_, "        if (len(elements) > 2) and is_ellipsis(elements[0]) and is_ellipsis(elements[-1]):\n            if len(value) == 0:", "        if (len(elements) >= 1) and is_ellipsis(elements[0]) and is_ellipsis(elements[-1]):\n            if len(value) == 0:")]},
    {"name": "int max uses >=", "rule": "CONSTRAINT",
     "edits": [(V_, "        if schema.props.max is not Nil:\n            if value > schema.props.max:\n                result.add_error(MaxValueValidationError(path, value, schema.props.max))\n\n        return result\n\n    def visit_float",
                "        if schema.props.max is not Nil:\n            if value >= schema.props.max:\n                result.add_error(MaxValueValidationError(path, value, schema.props.max))\n\n        return result\n\n    def visit_float")]},
    {"name": "substr check skipped when an alphabet is declared", "rule": "PRESENT",
     "edits": [(V_, "        if schema.props.substr is not Nil:\n            if schema.props.substr not in value:", "        if schema.props.substr is not Nil and schema.props.alphabet is Nil:\n            if schema.props.substr not in value:")]},
    {"name": "optional keys reported missing", "rule": "DICT",
     "edits": [(V_, "                if not is_optional:\n                    result.add_error(MissingKeyValidationError(path, value, key))", "                result.add_error(MissingKeyValidationError(path, value, key))")]},
    {"name": "relaxed marker ignored (extra keys always reported)", "rule": "DICT",
     "edits": [(V_, "        if (... not in schema.props.keys):\n            for key, val in value.items():", "        if True:\n            for key, val in value.items():")]},
    {"name": "any: stops after the first alternative", "rule": "ANY",
     "edits": [(V_, "            if not res.has_errors():\n                return result\n\n        result.add_error(SchemaMismatchValidationError", "            if not res.has_errors():\n                return result\n            break\n\n        result.add_error(SchemaMismatchValidationError")]},
    {"name": "head form validates the `...` slot too", "rule": "LIST-FORMS",
     "edits": [(V_, "            errors = self._validate_elements(path, value, elements[:-1], **kwargs)\n            return result.add_errors(errors)\n\n        # tail", "            errors = self._validate_elements(path, value, elements, **kwargs)\n            return result.add_errors(errors)\n\n        # tail")]},
    {"name": "bool type guard accepts ints", "rule": "TYPE-FIRST",
     "edits": [(V_, "        if error := self._validate_type(path, value, bool):", "        if error := self._validate_type(path, value, int):")]},
    {"name": "add_errors keeps only the first error", "rule": "RESULT-ACC",
     "edits": [("d42/validation/_validation_result.py", "        for error in errors:\n            self._errors.append(error)\n        return self", "        for error in errors[:1]:\n            self._errors.append(error)\n        return self")]},
    {"name": "str len compared with != but reported on max_len", "rule": "CONSTRAINT",
     "edits": [(V_, "            if len(value) > schema.props.max_len:\n                result.add_error(MaxLengthValidationError(path, value, schema.props.max_len))", "            if len(value) != schema.props.max_len:\n                result.add_error(MaxLengthValidationError(path, value, schema.props.max_len))")]},
    {"name": "neutral: min check written as not >=", "expect": "SILENT",
     "edits": [(V_, "        if schema.props.min is not Nil:\n            if value < schema.props.min:\n                result.add_error(MinValueValidationError(path, value, schema.props.min))\n\n        if schema.props.max is not Nil:\n            if value > schema.props.max:\n                result.add_error(MaxValueValidationError(path, value, schema.props.max))\n\n        return result\n\n    def visit_float",
                "        if schema.props.min is not Nil:\n            if not (value >= schema.props.min):\n                result.add_error(MinValueValidationError(path, value, schema.props.min))\n\n        if schema.props.max is not Nil:\n            if schema.props.max < value:\n                result.add_error(MaxValueValidationError(path, value, schema.props.max))\n\n        return result\n\n    def visit_float")]},
    {"name": "neutral: independent str checks reordered", "expect": "SILENT",
     "edits": [(V_, "        if schema.props.min_len is not Nil:\n            if len(value) < schema.props.min_len:\n                result.add_error(MinLengthValidationError(path, value, schema.props.min_len))\n        if schema.props.max_len is not Nil:\n            if len(value) > schema.props.max_len:\n                result.add_error(MaxLengthValidationError(path, value, schema.props.max_len))\n",
                "        if schema.props.max_len is not Nil:\n            if len(value) > schema.props.max_len:\n                result.add_error(MaxLengthValidationError(path, value, schema.props.max_len))\n        if schema.props.min_len is not Nil:\n            if len(value) < schema.props.min_len:\n                result.add_error(MinLengthValidationError(path, value, schema.props.min_len))\n")]},
]

MUTANTS += [
    {"name": "tail window starts one element too early in BOTH siblings", "rule": "LIST-FORMS",
     "edits": [(V_, "            start = max(0, len(value) - len(elements))", "            start = max(0, len(value) - len(elements) - 1)"),
               (SU, "            index = max(0, len(value) - len(elements))", "            index = max(0, len(value) - len(elements) - 1)")]},
    {"name": "exact form stops reporting surplus elements", "rule": "LIST-FORMS",
     "edits": [(V_, "        if len(value) > len(elements):\n            for index in range(len(elements), len(value)):", "        if len(value) > len(elements) + 1:\n            for index in range(len(elements), len(value)):")]},
    {"name": "neutral: surplus loop without the (redundant) length guard", "expect": "SILENT",
     "edits": [(V_, "        if len(value) > len(elements):\n            for index in range(len(elements), len(value)):\n                result.add_error(ExtraElementValidationError(path, value, index))",
                "        for index in range(len(elements), len(value)):\n            result.add_error(ExtraElementValidationError(path, value, index))")]},
    {"name": "a declared max_len re-opens an exact element list", "rule": "LIST-FORMS",
     "edits": [(V_, "        if len(value) > len(elements):\n            for index in range(len(elements), len(value)):\n                result.add_error(ExtraElementValidationError(path, value, index))",
                "        allowed = len(elements)\n        if schema.props.max_len is not Nil:\n            allowed = max(allowed, schema.props.max_len)\n        for index in range(allowed, len(value)):\n            result.add_error(ExtraElementValidationError(path, value, index))")]},
    {"name": "bounds compared on the rounded value when a precision is declared", "rule": "PRESENT",
     "edits": [(V_, "        if schema.props.min is not Nil:\n            if value < schema.props.min:\n                result.add_error(MinValueValidationError(path, value, schema.props.min))\n\n        if schema.props.max is not Nil:\n            if value > schema.props.max:\n                result.add_error(MaxValueValidationError(path, value, schema.props.max))\n\n        return result\n\n    def visit_str",
                "        comparable = value if schema.props.precision is Nil else round(value, schema.props.precision)\n        if schema.props.min is not Nil:\n            if comparable < schema.props.min:\n                result.add_error(MinValueValidationError(path, value, schema.props.min))\n\n        if schema.props.max is not Nil:\n            if comparable > schema.props.max:\n                result.add_error(MaxValueValidationError(path, value, schema.props.max))\n\n        return result\n\n    def visit_str")]},
    {"name": "head form reports surplus elements", "rule": "LIST-FORMS",
     "edits": [(V_, "            errors = self._validate_elements(path, value, elements[:-1], **kwargs)\n            return result.add_errors(errors)\n\n        # tail",
                "            errors = self._validate_elements(path, value, elements[:-1], **kwargs)\n            result.add_errors(errors)\n            for index in range(len(elements) - 1, len(value)):\n                result.add_error(ExtraElementValidationError(path, value, index))\n            return result\n\n        # tail")]},
]

MUTANTS += [
    {"name": "typed list skips elements equal to an already validated one", "rule": "TYPED-COVER",
     "edits": [(V_, "            for index, elem in enumerate(value):\n                nested_path = deepcopy(path)[index]\n                res = type_schema.__accept__(self, value=elem, path=nested_path, **kwargs)\n                result.add_errors(res.get_errors())",
                "            done = []\n            for index, elem in enumerate(value):\n                if elem in done:\n                    continue\n                nested_path = deepcopy(path)[index]\n                res = type_schema.__accept__(self, value=elem, path=nested_path, **kwargs)\n                result.add_errors(res.get_errors())\n                done.append(elem)")]},
]

MUTANTS += [
    {"name": "relaxed marker ends the key loop (keys declared after it are skipped)", "rule": "DICT",
     "edits": [(V_, "            if is_ellipsis(key):\n                continue\n            if key in value:\n                nested_path = deepcopy(path)[key]", "            if is_ellipsis(key):\n                break\n            if key in value:\n                nested_path = deepcopy(path)[key]")]},
    {"name": "int values compared with isclose", "rule": "CONSTRAINT",
     "edits": [(V_, "    def _validate_value(self, path: PathHolder, value: Any,\n                        expected_val: Any) -> Optional[ValidationError]:\n        if value != expected_val:",
                "    def _validate_value(self, path: PathHolder, value: Any,\n                        expected_val: Any) -> Optional[ValidationError]:\n        if isinstance(value, int) and not isinstance(value, bool) and not isclose(value, expected_val):\n            return ValueValidationError(path, value, expected_val)\n        if not isinstance(value, int) and value != expected_val:")]},
]

# round 7: the seeded changes that were missed on first contact, replayed against the current tree
MUTANTS += [
    {"name": 'seeded C02-M', "rule": 'MEMBER-CTX',
     "edits": [('d42/validation/_validator.py', '                           path: PathHolder,\n                           value: List[Any],\n                           elements: List[GenericSchema],\n                           start: int = 0,\n                           **kwargs: Any) -> List[ValidationError]:\n        errors: List[ValidationError] = []\n        for index, element_schema in enumerate(elements):\n            real_index = start + index\n', '                           path: PathHolder,\n                           value: List[Any],\n                           elements: List[GenericSchema],\n                           **kwargs: Any) -> List[ValidationError]:\n        # `start` is the offset of the validated window inside `value`\n        # (non-zero for the tail and body forms only)\n        start = kwargs.get("start", 0)\n        errors: List[ValidationError] = []\n        for index, element_schema in enumerate(elements):\n            real_index = start + index\n'),
               ('d42/validation/_validator.py', '                errors = self._validate_elements(path, value, elements[1:-1], **kwargs)\n                return result.add_errors(errors)\n            all_errors = []\n            for index, val in enumerate(value):\n                errors = self._validate_elements(path, value, elements[1:-1], index, **kwargs)\n                all_errors.append(errors)\n            all_errors.sort(key=len)\n            return result.add_errors(all_errors[0])\n', '                errors = self._validate_elements(path, value, elements[1:-1], **kwargs)\n                return result.add_errors(errors)\n            all_errors = []\n            for start in range(len(value)):\n                errors = self._validate_elements(path, value, elements[1:-1],\n                                                 **{**kwargs, "start": start})\n                all_errors.append(errors)\n            all_errors.sort(key=len)\n            return result.add_errors(all_errors[0])\n'),
               ('d42/validation/_validator.py', '        if (len(elements) >= 1) and is_ellipsis(elements[0]):\n            elements = elements[1:]\n            start = max(0, len(value) - len(elements))\n            errors = self._validate_elements(path, value, elements, start, **kwargs)\n            return result.add_errors(errors)\n\n        errors = self._validate_elements(path, value, elements, **kwargs)\n', '        if (len(elements) >= 1) and is_ellipsis(elements[0]):\n            elements = elements[1:]\n            start = max(0, len(value) - len(elements))\n            errors = self._validate_elements(path, value, elements,\n                                             **{**kwargs, "start": start})\n            return result.add_errors(errors)\n\n        errors = self._validate_elements(path, value, elements, **kwargs)\n')]},
]

# round 8: the seeded changes that were missed on first contact, replayed against the current tree
MUTANTS += [
    {"name": 'seeded C02-O', "rule": 'TRUTH-GUARD',
     "edits": [('d42/validation/_validator.py', '            return ValueValidationError(path, value, expected_val)\n        return None\n\n    def _validate_elements(self,\n                           path: PathHolder,\n                           value: List[Any],\n', '            return ValueValidationError(path, value, expected_val)\n        return None\n\n    def _validate_length(self, path: PathHolder, value: Any,\n                         props: Any) -> Optional[ValidationError]:\n        length = len(value)\n        if props.len and (length != props.len):\n            return LengthValidationError(path, value, props.len)\n        if props.min_len and (length < props.min_len):\n            return MinLengthValidationError(path, value, props.min_len)\n        if props.max_len and (length > props.max_len):\n            return MaxLengthValidationError(path, value, props.max_len)\n        return None\n\n    def _validate_elements(self,\n                           path: PathHolder,\n                           value: List[Any],\n'),
               ('d42/validation/_validator.py', '                error = RegexValidationError(path, value, schema.props.pattern)\n                return result.add_error(error)\n\n        if schema.props.len is not Nil:\n            if len(value) != schema.props.len:\n                result.add_error(LengthValidationError(path, value, schema.props.len))\n        if schema.props.min_len is not Nil:\n            if len(value) < schema.props.min_len:\n                result.add_error(MinLengthValidationError(path, value, schema.props.min_len))\n        if schema.props.max_len is not Nil:\n            if len(value) > schema.props.max_len:\n                result.add_error(MaxLengthValidationError(path, value, schema.props.max_len))\n\n        if schema.props.substr is not Nil:\n            if schema.props.substr not in value:\n', '                error = RegexValidationError(path, value, schema.props.pattern)\n                return result.add_error(error)\n\n        if error := self._validate_length(path, value, schema.props):\n            result.add_error(error)\n\n        if schema.props.substr is not Nil:\n            if schema.props.substr not in value:\n'),
               ('d42/validation/_validator.py', '        if error := self._validate_type(path, value, list):\n            return result.add_error(error)\n\n        if schema.props.len is not Nil:\n            if len(value) != schema.props.len:\n                return result.add_error(LengthValidationError(path, value, schema.props.len))\n        if schema.props.min_len is not Nil:\n            if len(value) < schema.props.min_len:\n                return result.add_error(\n                    MinLengthValidationError(path, value, schema.props.min_len))\n        if schema.props.max_len is not Nil:\n            if len(value) > schema.props.max_len:\n                return result.add_error(\n                    MaxLengthValidationError(path, value, schema.props.max_len))\n\n        if (schema.props.type is Nil) and (schema.props.elements is Nil):\n            return result\n', '        if error := self._validate_type(path, value, list):\n            return result.add_error(error)\n\n        if error := self._validate_length(path, value, schema.props):\n            return result.add_error(error)\n\n        if (schema.props.type is Nil) and (schema.props.elements is Nil):\n            return result\n')]},
]

MUTANTS += [
    {"name": "neutral: the min_len check is skipped for a falsy bound (len(value) < 0 is never true)", "expect": "SILENT",
     "edits": [("d42/validation/_validator.py", "        if schema.props.min_len is not Nil:\n            if len(value) < schema.props.min_len:\n                return result.add_error(\n                    MinLengthValidationError(path, value, schema.props.min_len))",
                "        if (schema.props.min_len is not Nil) and schema.props.min_len:\n            if len(value) < schema.props.min_len:\n                return result.add_error(\n                    MinLengthValidationError(path, value, schema.props.min_len))")]},
    {"name": "the max_len check is skipped for a falsy bound", "rule": "TRUTH-GUARD",
     "edits": [("d42/validation/_validator.py", "        if schema.props.max_len is not Nil:\n            if len(value) > schema.props.max_len:\n                return result.add_error(\n                    MaxLengthValidationError(path, value, schema.props.max_len))",
                "        if (schema.props.max_len is not Nil) and schema.props.max_len:\n            if len(value) > schema.props.max_len:\n                return result.add_error(\n                    MaxLengthValidationError(path, value, schema.props.max_len))")]},
]
