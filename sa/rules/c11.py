"""C11 - constraint refinements can be declared in any order (whole property, on the extracted automaton)."""
from __future__ import annotations

import itertools
from typing import Any, Dict, FrozenSet, List, Optional, Set, Tuple

from ..automaton import Outcome, Shape, TypeAutomaton, build
from ..loader import AnalysisError, Program
from ..model import Model
from ..report import Run

TYPES = ("IntSchema", "FloatSchema", "StrSchema", "ListSchema")


def consistent(preds: FrozenSet[Tuple[str, bool]]) -> bool:
    seen: Dict[str, bool] = {}
    for k, b in preds:
        if k in seen and seen[k] != b:
            return False
        seen[k] = b
    return True


def _subst(key: str, bind: Dict[str, str]) -> str:
    import re
    for prop, val in bind.items():
        key = re.sub(r"props\." + re.escape(prop) + r"\b", val, key)
    return key


def simulate(ta: TypeAutomaton, start: FrozenSet[str], order: Tuple[Shape, ...]) -> FrozenSet[Any]:
    """All accepting path combinations of the sequence: (final state, bindings, value predicates).  Props set
    by an earlier step appear in later transitions as the symbolic `props.<p>`; they are substituted by the
    argument that was bound to them, so outcomes of different orders are comparable."""
    frontier: Set[Tuple[FrozenSet[str], FrozenSet[Any], FrozenSet[Any]]] = {(start, frozenset(), frozenset())}
    for sh in order:
        nxt: Set[Tuple[FrozenSet[str], FrozenSet[Any], FrozenSet[Any]]] = set()
        for s, b, p in frontier:
            bind = dict(b)
            for o in ta.trans.get((s, sh.key), []):
                if o.kind == "ACCEPT" and o.new_state is not None:
                    np_ = p | frozenset((_subst(k, bind), v) for k, v in o.preds)
                    if not consistent(np_):
                        continue
                    nb = dict(bind)
                    for prop, val in o.bindings:
                        if val == f"props.{prop}":
                            continue            # inherited from the state
                        nb[prop] = _subst(val, bind)
                    nxt.add((o.new_state, frozenset(nb.items()), np_))
                elif o.kind == "LIMIT":
                    nxt.add((frozenset({"<limit>"}), frozenset(), p))
        frontier = nxt
    return frozenset(frontier)


def program(ta: TypeAutomaton, start_label: str, order: Tuple[Shape, ...]) -> str:
    s = f"schema.{ta.st.facade_name}{start_label}"
    for sh in order:
        s += "." + sh.label if not sh.label.startswith("call") else sh.label[4:]
    return s


def describe(out: FrozenSet[Any]) -> str:
    if not out:
        return "rejected (every path raises)"
    parts = []
    for s, b, p in sorted(out, key=lambda x: (sorted(x[0]), sorted(x[2]))):
        conds = ", ".join(f"{'' if v else 'not '}{k}" for k, v in sorted(p)) or "unconditionally"
        parts.append(f"accepted -> {{{', '.join(sorted(s))}}} when [{conds}]")
    return " | ".join(parts)


def check(run: Run, prog: Program, model: Model, tier: str) -> None:
    run.explanation = (
        "The declaration automaton of each type (states = sets of declared props; one transition per refinement "
        "method and argument shape, with its accept/reject outcome and value predicates) is extracted from the "
        "source by abstract interpretation; then every set of up to N distinct non-value refinement shapes is "
        "applied in every order from the empty schema and from a schema with a fixed value, and all orders must "
        "produce the same abstract outcome (rejected on every path, or the same final state, bindings and value "
        "predicates). Enumeration is exhaustive over the extracted automaton.")
    run.explanation += ' REJECT-KIND: every REJECT/ESCAPE outcome of every (state, well-typed shape) transition is a DeclarationError with no partial operation that may escape on its path.'
    run.rule_text = ("one obligation per (type, start state, set of refinement shapes); all permutations simulated; "
                     "non-trivial = sets of >= 2 shapes whose orders actually accept on at least one path or disagree")
    run.assumptions += ["value predicates depend only on their own argument and the payload prop, which no non-value "
                        "refinement writes (checked: predicate operands are recorded and compared across orders)",
                        "Props.update builds a dict and Props.__eq__ ignores insertion order (checked by C07/C15)"]
    run.exhaustive = True
    kmax = 3 if tier == "quick" else 4
    total_states = total_trans = 0
    nsets = 0
    for tname in TYPES:
        st = model.schemas.get(tname)
        if st is None:
            raise AnalysisError(f"schema type {tname} not found")
        ta = build(prog, model, st, tier)
        total_states += len(ta.states)
        total_trans += sum(len(v) for v in ta.trans.values())
        shapes = [s for s in ta.shapes if s.well_typed and s.method != "__call__"]
        if not shapes:
            raise AnalysisError(f"{tname}: no non-value refinement shapes extracted")
        # REJECT-KIND: "...or all are rejected with DeclarationError": every rejecting transition of a well-typed shape, in
        # every state, raises DeclarationError and nothing else can escape on the way (building the message included):
        # otherwise one order is refused with DeclarationError and another one with whatever escapes
        from ..partial import escapes
        for (state, shkey), outs in sorted(ta.trans.items(), key=lambda kv: (sorted(kv[0][0]), kv[0][1])):
            sh0 = next((x for x in shapes if x.key == shkey), None)
            if sh0 is None:
                continue
            bad_r: List[str] = []
            nrej = 0
            for o in outs:
                if o.kind == "ESCAPE":
                    bad_r.append(f"{o.exc} escapes (line {o.exc_site})")
                elif o.kind == "REJECT":
                    nrej += 1
                    if o.exc != "DeclarationError":
                        bad_r.append(f"rejected with {o.exc}")
                    if o.path is not None:
                        for e in o.path.events:
                            if e.kind == "partial":
                                for x, why in escapes(o.path, e):
                                    if why != "arity":
                                        bad_r.append(f"while rejecting, {getattr(x, '__name__', x)} may escape: {why}")
            c = f"{tname}.{sh0.label} in {{{','.join(sorted(state))}}}: rejection is a DeclarationError"
            if bad_r:
                run.violated("REJECT-KIND", c, st.cls.methods[sh0.method].loc, "; ".join(sorted(set(bad_r)))[:300],
                             witness="one order of the same refinements raises DeclarationError, another one lets a different exception out")
            elif nrej:
                run.holds("REJECT-KIND", c, st.cls.methods[sh0.method].loc, f"{nrej} rejecting path(s)", nontrivial=True)
        starts: List[Tuple[str, FrozenSet[str]]] = [("", frozenset())]
        for sh in ta.shapes:
            if sh.method == "__call__" and sh.well_typed:
                for o in ta.trans.get((frozenset(), sh.key), []):
                    if o.kind == "ACCEPT" and o.new_state:
                        lab = sh.label[4:] if sh.label.startswith("call") else sh.label
                        if (lab, o.new_state) not in starts and len([s for s in starts if s[1] == o.new_state]) < (1 if tname != "ListSchema" else 3):
                            starts.append((lab, o.new_state))
        for start_label, start in starts:
            for k in range(1, kmax + 1):
                for combo in itertools.combinations(shapes, k):
                    nsets += 1
                    results: Dict[Tuple[str, ...], FrozenSet[Any]] = {}
                    for order in itertools.permutations(combo):
                        results[tuple(s.label for s in order)] = simulate(ta, start, order)
                    distinct = set(results.values())
                    construct = f"{tname} from {{{','.join(sorted(start))}}}{start_label if start else ''} | {{" + ", ".join(sorted(s.label for s in combo)) + "}"
                    if len(distinct) == 1:
                        nontriv = k >= 2 and bool(next(iter(distinct)))
                        run.holds("SYM", construct, st.cls.loc, f"{len(results)} orders agree: {describe(next(iter(distinct)))[:160]}",
                                  nontrivial=nontriv)
                    else:
                        items = sorted(results.items(), key=lambda kv: describe(kv[1]))
                        a = items[0]
                        b = next(x for x in items if x[1] != a[1])
                        oa = tuple(next(s for s in combo if s.label == l) for l in a[0])
                        ob = tuple(next(s for s in combo if s.label == l) for l in b[0])
                        # report only minimal sets (a disagreeing subset is reported on its own)
                        minimal = True
                        for sub in itertools.combinations(combo, k - 1) if k > 2 else []:
                            rs = {simulate(ta, start, o) for o in itertools.permutations(sub)}
                            if len(rs) > 1:
                                minimal = False
                        if not minimal:
                            run.note("SYM", construct, st.cls.loc, "disagreement already reported for a subset")
                            continue
                        run.violated("SYM", construct, st.cls.loc,
                                     f"order {' -> '.join(a[0])}: {describe(a[1])[:200]}; order {' -> '.join(b[0])}: {describe(b[1])[:200]}",
                                     witness=f"{program(ta, start_label, oa)}  vs  {program(ta, start_label, ob)}")
    run.floor("REJECT-KIND", 100)
    run.analysed.update({"automaton_states": total_states, "automaton_transitions": total_trans, "refinement_sets": nsets})
    run.extra["states"] = total_states
    run.extra["transitions"] = total_trans
    run.floor("SYM", 200)


S = "d42/declaration/types/_str_schema.py"
MUTANTS = [
    {"name": "len error message built with str.format on a template that embeds repr(schema) (seeded C11-K)", "rule": "REJECT-KIND",
     "edits": [("d42/declaration/errors/__init__.py", "    message = f\"`{schema!r}` len must be equal to {len(value)}, {length} given\"\n", "    message = (f\"`{schema!r}` \" + \"len must be equal to {expected}, {given} given\").format(expected=len(value), given=length)\n")]},
    {"name": "regex guard forgets max_len (F1 reverted)", "rule": "SYM",
     "edits": [(S, "(self.props.max_len is not Nil) or (self.props.substr is not Nil)", "(self.props.len is not Nil) or (self.props.substr is not Nil)")]},
    {"name": "alphabet loses its pattern guard", "rule": "SYM",
     "edits": [(S, "        if self.props.alphabet is not Nil:\n            raise make_already_declared_error(self)\n\n        if self.props.pattern is not Nil:\n            raise make_already_declared_error(self)\n\n        if self.props.value is not Nil:\n            missing_letters",
                "        if self.props.alphabet is not Nil:\n            raise make_already_declared_error(self)\n\n        if self.props.value is not Nil:\n            missing_letters")]},
    {"name": "int max alone checks min > max", "rule": "SYM",
     "edits": [("d42/declaration/types/_int_schema.py", "        if (self.props.value is not Nil) and (value < self.props.value):\n            raise make_incorrect_max_error",
                "        if (self.props.min is not Nil) and (value < self.props.min):\n            raise make_incorrect_max_error(self, self.props.min, value)\n\n        if (self.props.value is not Nil) and (value < self.props.value):\n            raise make_incorrect_max_error")]},
    {"name": "contains forgets the pattern guard", "rule": "SYM",
     "edits": [(S, "        if self.props.substr is not Nil:\n            raise make_already_declared_error(self)\n\n        if self.props.pattern is not Nil:\n            raise make_already_declared_error(self)\n\n        if self.props.value is not Nil:\n            if substr not in",
                "        if self.props.substr is not Nil:\n            raise make_already_declared_error(self)\n\n        if self.props.value is not Nil:\n            if substr not in")]},
    {"name": "float precision rejected once max is set", "rule": "SYM",
     "edits": [("d42/declaration/types/_float_schema.py", "        if self.props.precision is not Nil:\n            raise make_already_declared_error(self)",
                "        if (self.props.precision is not Nil) or (self.props.max is not Nil):\n            raise make_already_declared_error(self)")]},
    {"name": "list len after min-len-only check differs (len checks value only when no alphabet)", "rule": "SYM",
     "edits": [(S, "        if (props.value is not Nil) and (len(props.value) != length):", "        if (props.value is not Nil) and (props.alphabet is Nil) and (len(props.value) != length):")]},
    {"name": "neutral: guards reordered in regex", "expect": "SILENT",
     "edits": [(S, "        if (self.props.pattern is not Nil) or (self.props.alphabet is not Nil) or \\\n           (self.props.len is not Nil) or (self.props.min_len is not Nil) or \\\n           (self.props.max_len is not Nil) or (self.props.substr is not Nil):",
                "        if (self.props.substr is not Nil) or (self.props.max_len is not Nil) or \\\n           (self.props.min_len is not Nil) or (self.props.len is not Nil) or \\\n           (self.props.alphabet is not Nil) or (self.props.pattern is not Nil):")]},
    {"name": "neutral: len guard split into two ifs", "expect": "SILENT",
     "edits": [(S, "        if (self.props.min_len is not Nil) or (self.props.max_len is not Nil):\n            raise make_already_declared_error(self)\n\n        if self.props.pattern is not Nil:",
                "        if self.props.min_len is not Nil:\n            raise make_already_declared_error(self)\n        if self.props.max_len is not Nil:\n            raise make_already_declared_error(self)\n\n        if self.props.pattern is not Nil:")]},
]
