"""C05 - substitution only narrows a schema (absence of the four widening mechanisms).

Premises (computed, printed): CARRY, VALIDATE-FIRST, MONOTONE.  VIOLATED only for a widening mechanism:
W1 scalar (neither validated-first nor carried+monotone), W2 dict (required key lost / made optional, relaxed
marker introduced, unspecified member replaced), W3 list (unpinned position while lengths are dropped),
W4 any (foreign alternative).
"""
from __future__ import annotations

from typing import Any, Dict, List, Optional, Set, Tuple

from ..interp import Event, Path
from ..loader import AnalysisError, Program
from ..model import Model
from ..report import Run
from ..values import (ELL, Const, DictV, ListV, PropsV, SchemaV, Spread, Sym, Term, TupleV, V, is_ell, is_nil)
from ..visits import Config, configs_for, run_visit, substitutor_ctx
from ..vtable import extract
from .c04 import SCALARS, _prevalidation_reports_extra, dict_results, result_props
from .c12 import validated

ALLOWED_UPDATE = {"ListSchema": {"elements", "type"}, "DictSchema": {"keys"}, "AnySchema": {"types"},
                  "TypeAliasSchema": {"type"}}
LEN_PROPS = ("len", "min_len", "max_len")


def carried(pr: Optional[PropsV], cfg: Config, allowed: Set[str]) -> Tuple[bool, str]:
    """Are all original props carried unchanged into the result, apart from the allowed payload keys?"""
    if pr is None:
        return False, "result props are not derived from the schema's props"
    if pr.base != "schema":
        return False, "result props are rebuilt from scratch instead of schema.props.update(...)"
    extra = set(pr.updated) - allowed
    if extra:
        return False, f"update() also overwrites {sorted(extra)}"
    for k in cfg.setprops:
        if k in allowed:
            continue
        v = pr.vals.get(k)
        if v is None or is_nil(v):
            return False, f"original prop `{k}` is dropped"
        if v.key() != f"props.{k}":
            return False, f"original prop `{k}` is replaced by {v.key()[:30]}"
    return True, ""


def check(run: Run, prog: Program, model: Model, tier: str) -> None:
    run.explanation = (
        "For a plain value v, narrowing (validate(S % v, w) ok implies validate(S, w) ok) rests for scalars on two "
        "independent supports - v was validated against S before being pinned, or all original props are carried "
        "and the validator still applies them - so only the loss of both is a widening mechanism. The checker "
        "computes the premises CARRY (results are schema.__class__(schema.props.update(<payload keys only>))), "
        "VALIDATE-FIRST and MONOTONE (no validator check disappears once `value` is set) and reports: W1 scalar "
        "widening; W2 dict widening on token tables (required key lost or made optional, relaxed marker introduced, "
        "member of an unspecified key replaced); W3 list widening (a position left unpinned while the length props "
        "are dropped); W4 any widening (an alternative not derived by substitution from an original one). The set "
        "inclusion on concrete values is not decided."
        " An optional key dropped from a relaxed table and an exact element list that a carried max_len re-opens in the validator are widenings too.")
    run.explanation += ' An empty closed table accepts only {}: W2-DICT reports keys added to it unless the pre-validation of that table reports undeclared keys.'
    run.explanation += ' PRE-VALIDATION-FORMS: for every element-list shape (the empty list included) and the typed form, SubstitutorValidator.visit_list can report every error kind Validator.visit_list reports.'
    run.rule_text = "obligations per (visit method, prop-set/shape) and mechanism; non-trivial = premises derived on interpreter paths"
    from ..entry import entry_transparent
    entry_transparent(run, prog, model, "validate", "VALIDATE-ENTRY")
    entry_transparent(run, prog, model, "substitute", "SUBSTITUTE-ENTRY")
    sub = model.visitors["Substitutor"]
    # ---------------------------------------------------------------- W1 scalars
    for hook in SCALARS:
        f = sub.lookup(hook)
        st = model.by_hook[hook]
        # MONOTONE: every constraint row of {P} is still present under {P, value}
        mono = True
        mono_why = ""
        mono_bad: Set[str] = set()
        for prop in st.props:
            if prop == "value":
                continue
            r1, _ = extract(prog, model, "Validator", hook, Config((prop,)))
            e1 = {r.error for r in r1 if r.error not in ("TypeValidationError", "InvalidUUIDVersionValidationError")}
            if not e1:
                continue
            r2, _ = extract(prog, model, "Validator", hook, Config((prop, "value")))
            e2 = {r.error for r in r2}
            if not e1 <= e2:
                mono = False
                mono_bad.add(prop)
                mono_why = f"the `{prop}` check ({sorted(e1 - e2)}) disappears once a value is fixed"
        # is the pinned value compared exactly?  (float: tolerance / precision rounding -> the result accepts a
        # neighbourhood of v, so "v was validated" no longer implies "everything the result accepts was")
        rv, _ = extract(prog, model, "Validator", hook, Config(("value",)))
        vrows = [r for r in rv if r.error == "ValueValidationError"]
        exact = bool(vrows) and all(isinstance(r.term, Term) and r.term.op == "eq" and r.polarity is False and
                                    {a.key() for a in r.term.args} == {"value", "props.value"} for r in vrows)
        for cfg in configs_for(st, tier):
            paths = run_visit(prog, model, "Substitutor", hook, cfg, substitutor_ctx, unroll=1)
            rets = [p for p in paths if p.outcome == "return"]
            construct = f"Substitutor.{hook} {cfg.label}"
            if not rets:
                run.undecided("W1-SCALAR", construct, f.loc, "no returning path")
                continue
            if not exact and (mono_bad & set(cfg.setprops)):
                run.violated("W1-SCALAR", construct, f.loc,
                             f"the pinned value is compared with a tolerance, so the result accepts neighbours of v; {mono_why}",
                             witness="(schema.float.min(1.0).precision(1) % 1.0) accepts 0.96, which the original rejects")
                continue
            vf = all(validated(p) is True for p in rets)
            cr, why = True, ""
            for p in rets:
                ok, w = carried(result_props(p), cfg, {"value"})
                if not ok:
                    cr, why = False, w
            if not vf and not (cr and mono):
                run.violated("W1-SCALAR", construct, f.loc,
                             f"the value is not validated against the original before being pinned AND {why or mono_why}",
                             witness=f"(schema with {cfg.label}) % v for a v outside the original: the result accepts v, the original does not")
            else:
                run.holds("W1-SCALAR", construct, f.loc,
                          f"validate-first={vf}, carry={cr}, monotone={mono}", nontrivial=True)
                if not vf:
                    run.note("W1-SCALAR", construct + ": validate-first", f.loc, "value not validated first (C12 reports this); props still carried")
                if not cr:
                    run.note("W1-SCALAR", construct + ": carry", f.loc, f"{why}; the pinned value was validated against the original")
    run.floor("W1-SCALAR", 20)

    # ---------------------------------------------------------------- W2 dict
    fd = sub.lookup("visit_dict")
    st = model.by_hook["visit_dict"]
    for cfg in configs_for(st, tier):
        construct = f"Substitutor.visit_dict {cfg.label}"
        orig = cfg.build().get("keys")
        rs = dict_results(prog, model, cfg)
        if not rs:
            run.undecided("W2-DICT", construct, fd.loc, "no returning path")
            continue
        probs: List[str] = []
        for p, given, tbl in rs:
            if tbl is None:
                probs.append("result has no concrete key table")
                continue
            if not isinstance(orig, DictV):
                continue          # the original accepts every dict: nothing can widen
            had_rel = any(is_ell(k) for k, _ in orig.pairs())
            plain = [(k, tv) for k, tv in orig.pairs() if not is_ell(k)]
            if not plain and had_rel:
                continue          # only `...: ...`: accepts every dict  (an EMPTY closed table accepts only {})
            for k, tv in plain:
                got = tbl.lookup(k)
                of = tv.items[1].value
                if got is None:
                    if of is False:
                        probs.append(f"required key {k.key()} is absent from the result: dicts without it become acceptable")
                    elif tbl.lookup(ELL) is not None:
                        # an optional key vanished from a table that stays relaxed: the key is now an "undeclared" one,
                        # which `...: ...` admits with ANY value - the member schema no longer constrains it
                        probs.append(f"optional key {k.key()} is dropped from a relaxed result: its member schema no longer constrains it")
                    # (dropped from a closed table: the result rejects the key -> narrower)
                    continue
                gm, gf = got.items if isinstance(got, TupleV) and len(got.items) == 2 else (None, None)
                if gf is None or not isinstance(gf, Const):
                    probs.append(f"flag of {k.key()} is not a constant ({gf.key() if gf is not None else None})")
                elif of is False and gf.value is True:
                    probs.append(f"required key {k.key()} becomes optional")
                if given.get(k.key()) is not True and gm is not None and gm.key() != tv.items[0].key():
                    narrowed = isinstance(gm, Sym) and gm.origin and gm.origin[0] == "accept" and gm.origin[1].key() == tv.items[0].key()
                    if not narrowed:        # a substitution INTO the original member only narrows it
                        probs.append(f"member of unspecified key {k.key()} is replaced by {gm.key()[:30]}")
            if tbl.lookup(ELL) is not None and not had_rel:
                probs.append("a relaxed marker `...: ...` is introduced: undeclared keys become acceptable")
            extra = [k.key() for k, _ in tbl.pairs() if not is_ell(k) and orig.lookup(k) is None]
            if extra and not had_rel:
                # such a path is only feasible if the pre-validation lets a value with undeclared keys through
                if _prevalidation_reports_extra(prog, model, cfg):
                    continue
                probs.append(f"keys {extra} unknown to the closed original are added (and the pre-validation of this "
                             "table does not report undeclared keys)")
        if probs:
            run.violated("W2-DICT", construct, fd.loc, "; ".join(sorted(set(probs)))[:400],
                         witness="a dict the original rejects (missing key / extra key) is accepted by the result")
        else:
            run.holds("W2-DICT", construct, fd.loc, f"{len(rs)} return paths: no required key lost/relaxed, no marker introduced", nontrivial=True)
    run.floor("W2-DICT", 8)

    # ---------------------------------------------------------------- W3 list
    fl = sub.lookup("visit_list")
    st = model.by_hook["visit_list"]
    for cfg in configs_for(st, tier):
        paths = run_visit(prog, model, "Substitutor", "visit_list", cfg, substitutor_ctx, unroll=1)
        rets = [p for p in paths if p.outcome == "return"]
        construct = f"Substitutor.visit_list {cfg.label}"
        if not rets:
            run.undecided("W3-LIST", construct, fl.loc, "no returning path")
            continue
        probs = []
        for p in rets:
            pr = result_props(p)
            ok, why = carried(pr, cfg, {"elements", "type"})
            el = pr.vals.get("elements") if pr is not None else None
            unpinned = False
            plain_value = not any("isinstance(" in k and "ellipsis" in k and b for k, _, b in p.facts)
            if isinstance(el, ListV):
                for x in el.items:
                    if not isinstance(x, Spread) and is_ell(x) and plain_value:
                        unpinned = True
            typ = pr.vals.get("type") if pr is not None else None
            if typ is not None and not is_nil(typ) and isinstance(el, ListV):
                pass
            lens_dropped = any((pr is None) or is_nil(pr.vals.get(k, Const(None))) or pr.vals.get(k) is None
                               for k in cfg.setprops if k in LEN_PROPS)
            if unpinned and (lens_dropped or not ok):
                probs.append("a position is left unconstrained (`...`) for a plain value while the length props are dropped")
            elif not ok and validated(p) is not True:
                probs.append(f"{why} and the value was not validated against the original")
            # members: each must come from substitution into an original member / from_native of an unconstrained position
            if isinstance(el, ListV):
                for x in el.items:
                    if isinstance(x, Spread) or is_ell(x):
                        continue
                    k = x.key()
                    if not (k.startswith(("subst(", "native(")) or "@value" in k):
                        probs.append(f"element {k[:40]} is neither a substituted original member nor derived from the value")
        if probs:
            run.violated("W3-LIST", construct, fl.loc, "; ".join(sorted(set(probs)))[:300],
                         witness="a list the original rejects (wrong length / wrong member) is accepted by the result")
        else:
            run.holds("W3-LIST", construct, fl.loc, f"{len(rets)} return paths: every position pinned, length props carried", nontrivial=True)
    run.floor("W3-LIST", 30)
    # "validated first" is only worth something if the validator the substitutor runs is as strict as the real one on lists
    from .c02 import prevalidation_forms
    prevalidation_forms(run, prog, model, tier, "PRE-VALIDATION-FORMS")
    # the substituted list is an EXACT element list next to the carried length props: it narrows only if the validator
    # still reports every position past the pinned ones (a max_len that "leaves room" re-opens the list)
    from ..visits import list_shapes
    from ..vtable import surplus_reported
    for name, mk in list_shapes(2):
        if "..." in name:
            continue
        n = len(mk().items)
        for ln in (("max_len",), ("min_len", "max_len")):
            cfg = Config(("elements",) + ln, {"elements": mk}, label=f"elements={name}" + "".join("," + x for x in ln))
            rows, _ = extract(prog, model, "Validator", "visit_list", cfg, 1)
            okx, why = surplus_reported(rows, n)
            c = f"Validator.visit_list {cfg.label}: pinned list stays closed"
            if okx:
                run.holds("W3-LIST", c, fl.loc, "positions past the pinned members are reported as extra", nontrivial=True)
            else:
                run.violated("W3-LIST", c, fl.loc, why,
                             witness="schema.list(schema.int).len(1, 3) % [1] accepts [1, 'x'] although the original rejects it")

    # ---------------------------------------------------------------- W4 any
    fa = sub.lookup("visit_any")
    for cfg in configs_for(model.by_hook["visit_any"], tier):
        paths = run_visit(prog, model, "Substitutor", "visit_any", cfg, substitutor_ctx, unroll=1)
        construct = f"Substitutor.visit_any {cfg.label}"
        probs = []
        has_types = "types" in cfg.setprops
        orig = [x.key() for x in cfg.build()["types"].items] if has_types else []
        for p in paths:
            if p.outcome != "return":
                continue
            pr = result_props(p)
            t = pr.vals.get("types") if pr is not None else None
            if not isinstance(t, TupleV):
                continue
            for x in t.items:
                if isinstance(x, Spread):
                    probs.append("alternatives of unknown origin are added")
                    continue
                if isinstance(x, Sym) and x.origin and x.origin[0] == "accept" and x.origin[1].key() in orig:
                    continue
                if isinstance(x, Sym) and x.origin and x.origin[0] == "from_native" and not has_types:
                    continue
                probs.append(f"alternative {x.key()[:40]} is not derived by substitution from an original alternative")
        if probs:
            run.violated("W4-ANY", construct, fa.loc, "; ".join(sorted(set(probs)))[:300],
                         witness="schema.any(a, b) % v accepts a value neither a nor b accepts")
        else:
            run.holds("W4-ANY", construct, fa.loc, "every alternative is an original alternative with v substituted", nontrivial=True)
    run.floor("W4-ANY", 3)


SU = "d42/substitution/_substitutor.py"
MUTANTS = [
    {"name": "validate() answers from the pinned value when it equals the value (seeded C05-K)", "rule": "VALIDATE-ENTRY",
     "edits": [("d42/validation/__init__.py", "def validate(schema: GenericSchema, value: Any, **kwargs: Any) -> ValidationResult:\n    return schema.__accept__(_validator, value=value, **kwargs)\n",
                "def validate(schema: GenericSchema, value: Any, **kwargs: Any) -> ValidationResult:\n    if not kwargs and schema.props.get(\"value\") == value:\n        return ValidationResult()\n    return schema.__accept__(_validator, value=value, **kwargs)\n")]},
    {"name": "neutral: validate() binds the result to a local", "expect": "SILENT",
     "edits": [("d42/validation/__init__.py", "def validate(schema: GenericSchema, value: Any, **kwargs: Any) -> ValidationResult:\n    return schema.__accept__(_validator, value=value, **kwargs)\n",
                "def validate(schema: GenericSchema, value: Any, **kwargs: Any) -> ValidationResult:\n    result = schema.__accept__(_validator, value=value, **kwargs)\n    return result\n")]},
    {"name": "free-form branch taken for an empty closed table and its pre-validation returns early (seeded C05-I)", "rule": "W2-DICT",
     "edits": [("d42/substitution/_substitutor.py", "        if schema.props.keys is Nil or (len(schema.props.keys) == 1 and ... in schema.props.keys):", "        if schema.props.keys is Nil or all(is_ellipsis(key) for key in schema.props.keys):"),
               ("d42/substitution/_validator.py", "        if schema.props.keys is Nil:\n            return result\n\n        for key, (val, is_optional) in schema.props.keys.items():\n            if is_ellipsis(key):", "        if (schema.props.keys is Nil) or (not schema.props.keys):\n            return result\n\n        for key, (val, is_optional) in schema.props.keys.items():\n            if is_ellipsis(key):")]},
    {"name": "neutral: free-form test written with all(is_ellipsis) (the pre-validation still refuses extra keys of {})", "expect": "SILENT",
     "edits": [("d42/substitution/_substitutor.py", "        if schema.props.keys is Nil or (len(schema.props.keys) == 1 and ... in schema.props.keys):", "        if schema.props.keys is Nil or all(is_ellipsis(key) for key in schema.props.keys):")]},
    {"name": "validator: a declared max_len re-opens an exact element list", "rule": "W3-LIST",
     "edits": [("d42/validation/_validator.py", "        if len(value) > len(elements):\n            for index in range(len(elements), len(value)):\n                result.add_error(ExtraElementValidationError(path, value, index))",
                "        allowed = len(elements)\n        if schema.props.max_len is not Nil:\n            allowed = max(allowed, schema.props.max_len)\n        for index in range(allowed, len(value)):\n            result.add_error(ExtraElementValidationError(path, value, index))")]},
    {"name": "absent keys become optional", "rule": "W2-DICT",
     "edits": [(SU, "                else:\n                    keys[key] = (val, is_optional)", "                else:\n                    keys[key] = (val, True)")]},
    {"name": "relaxed marker always added", "rule": "W2-DICT",
     "edits": [(SU, "            for key, val in value.items():\n                if key not in schema.props.keys:\n                    raise SubstitutionError(f\"Unknown key {key!r}\")\n",
                "            for key, val in value.items():\n                if key not in schema.props.keys:\n                    raise SubstitutionError(f\"Unknown key {key!r}\")\n            keys[...] = (..., False)\n")]},
    {"name": "validation dropped and min=Nil in the update", "rule": "W1-SCALAR",
     "edits": [(SU, "    def visit_int(self, schema: IntSchema, *, value: Any = Nil, **kwargs: Any) -> IntSchema:\n        result = schema.__accept__(self._validator, value=value)\n        if result.has_errors():\n            raise make_substitution_error(result, self._formatter)\n        return schema.__class__(schema.props.update(value=value))",
                "    def visit_int(self, schema: IntSchema, *, value: Any = Nil, **kwargs: Any) -> IntSchema:\n        return schema.__class__(schema.props.update(value=value, min=Nil))")]},
    {"name": "from_native(value) always appended to types", "rule": "W4-ANY",
     "edits": [(SU, "            if len(types) == 0:\n                raise SubstitutionError(f\"Can't substitute {value!r}\")\n", "            types.append(self._from_native(value))\n")]},
    {"name": "absent required keys dropped", "rule": "W2-DICT",
     "edits": [(SU, "                else:\n                    keys[key] = (val, is_optional)\n            for key, val in value.items():", "            for key, val in value.items():")]},
    {"name": "str substitution without validation builds fresh props", "rule": "W1-SCALAR",
     "edits": [(SU, "    def visit_str(self, schema: StrSchema, *, value: Any = Nil, **kwargs: Any) -> StrSchema:\n        result = schema.__accept__(self._validator, value=value)\n        if result.has_errors():\n            raise make_substitution_error(result, self._formatter)\n        return schema.__class__(schema.props.update(value=value))",
                "    def visit_str(self, schema: StrSchema, *, value: Any = Nil, **kwargs: Any) -> StrSchema:\n        return schema.__class__(schema.props.__class__().update(value=value))")]},
    {"name": "unspecified dict members replaced by any", "rule": "W2-DICT",
     "edits": [(SU, "                else:\n                    keys[key] = (val, is_optional)", "                else:\n                    keys[key] = (AnySchema(), is_optional)")]},
    {"name": "neutral (note only): validation dropped but props carried", "expect": "SILENT",
     "edits": [(SU, "    def visit_bool(self, schema: BoolSchema, *, value: Any = Nil, **kwargs: Any) -> BoolSchema:\n        result = schema.__accept__(self._validator, value=value)\n        if result.has_errors():\n            raise make_substitution_error(result, self._formatter)\n",
                "    def visit_bool(self, schema: BoolSchema, *, value: Any = Nil, **kwargs: Any) -> BoolSchema:\n")]},
    {"name": "neutral: props bound to a local before update", "expect": "SILENT",
     "edits": [(SU, "        return schema.__class__(schema.props.update(value=value))\n\n    def visit_int", "        props = schema.props\n        return schema.__class__(props.update(value=value))\n\n    def visit_int")]},
]

MUTANTS += [
    {"name": "float validator returns right after a matching pinned value (bounds no longer enforced)", "rule": "W1-SCALAR",
     "edits": [("d42/validation/_validator.py", "                if not is_equal:\n                    return result.add_error(ValueValidationError(path, value, schema.props.value))\n",
                "                if not is_equal:\n                    return result.add_error(ValueValidationError(path, value, schema.props.value))\n            return result\n")]},
]

# round 8: the seeded changes that were missed on first contact, replayed against the current tree
MUTANTS += [
    {"name": 'seeded C05-O', "rule": 'PRE-VALIDATION-FORMS',
     "edits": [('d42/substitution/_validator.py', '                return result.add_error(\n                    MaxLengthValidationError(path, value, schema.props.max_len))\n\n        if (schema.props.type is Nil) and (schema.props.elements is Nil):\n            return result\n\n        if schema.props.type is not Nil:\n            type_schema = schema.props.type\n            for index, elem in enumerate(value):\n', '                return result.add_error(\n                    MaxLengthValidationError(path, value, schema.props.max_len))\n\n        if schema.props.type is not Nil:\n            type_schema = schema.props.type\n            for index, elem in enumerate(value):\n'),
               ('d42/substitution/_validator.py', '                res = type_schema.__accept__(self, value=elem, path=nested_path, **kwargs)\n                result.add_errors(res.get_errors())\n            return result\n        else:\n            return super().visit_list(schema, value=value, path=path, **kwargs)\n\n    def visit_dict(self, schema: DictSchema, *,\n                   value: Any = Nil, path: Nilable[PathHolder] = Nil,\n                   **kwargs: Any) -> ValidationResult:\n', '                res = type_schema.__accept__(self, value=elem, path=nested_path, **kwargs)\n                result.add_errors(res.get_errors())\n            return result\n\n        if schema.props.elements:\n            return super().visit_list(schema, value=value, path=path, **kwargs)\n\n        # neither `type` nor `elements` declared: any list goes\n        return result\n\n    def visit_dict(self, schema: DictSchema, *,\n                   value: Any = Nil, path: Nilable[PathHolder] = Nil,\n                   **kwargs: Any) -> ValidationResult:\n')]},
]
