"""C13 - schema combinators mean what their parts mean (structural clauses; set equalities not decided).

ALIAS-FORWARD, UNION-WIRING, FLATTEN, ADD (dict +), MAKE-REQUIRED, GETITEM/ITER, all decided by abstract
evaluation on token tables.
"""
from __future__ import annotations

from typing import Any, Callable, Dict, List, Optional, Set, Tuple

from ..engine import Interp, kwargs_spread
from ..interp import Path
from ..loader import AnalysisError, ClassInfo, FuncInfo, Program
from ..model import Model
from ..report import Run
from ..values import (ELL, NIL, Const, DictV, ExcV, Inst, ListV, PropsV, SchemaV, SetV, Spread, Sym, Term, TupleV, V,
                      is_ell, is_nil)
from ..visits import (Config, configs_for, key_tables, member, representor_ctx, run_visit, substitutor_ctx, validator_ctx)


_PLAIN: Dict[str, Any] = {}


def plain(name: str) -> Sym:
    """A member token whose class is a concrete non-any built-in (so class tests on it are decided)."""
    return Sym(name, "Schema", ("member", name), cls=_PLAIN["cls"])


def key(name: str) -> Sym:
    return Sym(name, "key", ("dictkey", name))


def table(entries: List[Tuple[str, str, bool]], relaxed: bool = False) -> DictV:
    items: List[Tuple[V, V]] = [(key(k), TupleV([member(m), Const(f)])) for k, m, f in entries]
    if relaxed:
        items.append((ELL, TupleV([ELL, Const(False)])))
    return DictV(items)


def dict_schema(model: Model, tbl: Optional[DictV], origin: str = "param") -> SchemaV:
    st = model.schemas["DictSchema"]
    vals = {"keys": tbl} if tbl is not None else {}
    return SchemaV(st.cls, PropsV(st.props_cls, vals, "schema"), origin)


def entries_of(d: V) -> Optional[Dict[str, Tuple[str, Optional[bool]]]]:
    if not isinstance(d, DictV) or not d.concrete():
        return None
    out: Dict[str, Tuple[str, Optional[bool]]] = {}
    for k, v in d.pairs():
        if isinstance(v, TupleV) and len(v.items) == 2:
            f = v.items[1]
            out[k.key()] = (v.items[0].key(), f.value if isinstance(f, Const) else None)
        else:
            out[k.key()] = (v.key(), None)
    return out


def check(run: Run, prog: Program, model: Model, tier: str) -> None:
    run.explanation = (
        "Each combinator is evaluated abstractly on token tables (symbolic keys and member schemas with required / "
        "optional / relaxed entries; alternative tuples with nested unions) and its result is compared with the "
        "table-transformer law it must implement: alias delegates to its target with the same value in all four "
        "visitors; | builds any(self, other) containing both operands; nested unions are flattened without losing "
        "an alternative; d1 + d2 is the key-wise union with the right operand winning and entries unmodified; "
        "make_required keeps every key and member and only ever lowers the optional flag of the listed keys; "
        "indexing and iteration expose the declared table. The stated set equalities over values are not decided."
        " The dict decision table of the validator is re-derived on the marker-first / marker-in-the-middle tables that d1 + d2 produces.")
    run.explanation += ' MAKE-REQUIRED cases include repeated keys whose count equals the table size.'
    run.rule_text = ("one obligation per (combinator, operand shape); non-trivial = the result table was computed by the "
                     "interpreter through loops/unpacking and compared entry by entry")
    from ..entry import entry_transparent
    entry_transparent(run, prog, model, "validate", "VALIDATE-ENTRY")
    _PLAIN["cls"] = model.schemas["IntSchema"].cls
    _alias(run, prog, model)
    _union(run, prog, model)
    _add_validates(run, prog, model)
    _add(run, prog, model)
    _make_required(run, prog, model)
    _getitem_iter(run, prog, model)


# ---------------------------------------------------------------------------- alias
def _alias(run: Run, prog: Program, model: Model) -> None:
    ctxs = {"Validator": validator_ctx, "SubstitutorValidator": validator_ctx, "Substitutor": substitutor_ctx,
            "Representor": representor_ctx, "Generator": None}
    st = model.by_hook["visit_type_alias"]
    cfg = Config(("type", "name"), {"type": lambda: member("T")})
    for vis, ctx in ctxs.items():
        f = model.visitors[vis].lookup("visit_type_alias")
        if f is None:
            raise AnalysisError(f"{vis}.visit_type_alias not found")
        paths = run_visit(prog, model, vis, "visit_type_alias", cfg, ctx)
        construct = f"{vis}.visit_type_alias"
        probs: List[str] = []
        n = 0
        for p in paths:
            acc = [e for e in p.events if e.kind == "accept"]
            if p.outcome == "return" and not acc:
                probs.append("returns without visiting the target")
            for e in acc:
                n += 1
                rk = e.data["recv"].key()
                while rk.startswith("attr(attr(") and rk.endswith(", props), type)"):
                    rk = rk[len("attr(attr("):-len(", props), type)")]      # unwrapping an alias of an alias
                if rk != "T":
                    probs.append(f"visits {e.data['recv'].key()[:40]} instead of props.type")
                if vis in ("Validator", "SubstitutorValidator", "Substitutor"):
                    v = e.data["kwargs"].get("value")
                    if v is None or v.key() != "value":
                        probs.append(f"target receives value {v.key() if v is not None else 'nothing (Nil)'} instead of the alias's value")
                if vis in ("Validator", "SubstitutorValidator") and e.data["kwargs"].get("path") is None:
                    run.note("ALIAS-FORWARD", construct + ": path", f.loc, "path not forwarded (errors rooted at `_`): C03's business")
        if probs:
            run.violated("ALIAS-FORWARD", construct, f.loc, "; ".join(sorted(set(probs))),
                         witness="schema.alias('A', schema.int) and schema.int disagree on some value")
        elif n:
            run.holds("ALIAS-FORWARD", construct, f.loc, "delegates to props.type with the same value", nontrivial=True)
        else:
            run.undecided("ALIAS-FORWARD", construct, f.loc, "no descent found")
    run.floor("ALIAS-FORWARD", 4)


# ---------------------------------------------------------------------------- union / flatten
def _types_tokens(v: V) -> Optional[List[str]]:
    if isinstance(v, SchemaV) and isinstance(v.props, PropsV):
        t = v.props.vals.get("types")
        if isinstance(t, TupleV):
            out = []
            for it in t.items:
                out.append(("*" + it.value.key()) if isinstance(it, Spread) else it.key())
            return out
    return None


def _union(run: Run, prog: Program, model: Model) -> None:
    ov = model.overrides.get("__or__")
    site = model.schema_base.loc
    if ov is None or not isinstance(ov[0], FuncInfo):
        run.violated("UNION-WIRING", "Schema.__or__ override", site, "no import-time override installs `|`",
                     witness="schema.int | schema.str raises AttributeError")
        return
    fn: FuncInfo = ov[0]
    sa_ = model.schemas["AnySchema"]

    def anyu(*tokens: V) -> SchemaV:
        return SchemaV(sa_.cls, PropsV(sa_.props_cls, {"types": TupleV(list(tokens))}, "schema"), "param")
    ucases: List[Tuple[str, Callable[[], List[V]], List[str]]] = [
        ("a | b", lambda: [plain("A"), plain("B")], ["A", "B"]),
        ("any(a1, a2) | b", lambda: [anyu(plain("A1"), plain("A2")), plain("B")], ["A1", "A2", "B"]),
        ("a | any(b1, b2)", lambda: [plain("A"), anyu(plain("B1"), plain("B2"))], ["A", "B1", "B2"]),
        ("any(a1, a2) | any(b1, b2)", lambda: [anyu(plain("A1"), plain("A2")), anyu(plain("B1"), plain("B2"))], ["A1", "A2", "B1", "B2"]),
    ]
    for label, mk, want in ucases:
        it = Interp(prog, model, unroll=2, max_depth=12)
        it.max_recursion = 3   # type: ignore

        def run1(i: Interp) -> V:
            return i.call_function(fn, mk(), {})
        paths = it.run_paths(run1)
        probs: List[str] = []
        good = 0
        for p in paths:
            if p.outcome == "limit":
                continue
            if p.outcome != "return":
                probs.append(f"raises {p.value.key() if p.value else '?'} for two schema operands")
                continue
            toks = _types_tokens(p.value)  # type: ignore
            if toks is None:
                probs.append(f"result is not any(...) with a types tuple: {p.value.key()[:60] if p.value else None}")
                continue
            missing = [w for w in want if w not in toks]
            nested = [t for t in toks if t.startswith("AnySchema<") and "types=" in t]
            if nested:
                probs.append(f"a typed union is stored as a MEMBER of the result ({nested[0][:50]}) instead of being flattened: "
                             "the result differs from schema.any(...) of the same alternatives and from its own repr evaluated")
            elif missing:
                probs.append(f"operand alternatives {missing} are missing from the result {toks}")
            good += 1
        if probs:
            run.violated("UNION-WIRING", label, fn.loc, "; ".join(sorted(set(probs)))[:300],
                         witness=f"({label}) rejects a value one operand accepts")
        elif good:
            run.holds("UNION-WIRING", label, fn.loc, f"`|` -> {fn.qualname} -> any(...) containing {want}", nontrivial=True)
        else:
            run.undecided("UNION-WIRING", label, fn.loc, "no returning path")
    run.floor("UNION-WIRING", 3)


def _add_validates(run: Run, prog: Program, model: Model) -> None:
    """ADD-VALIDATES: `d1 + d2` keeps the relaxed marker where the left operand had it - first or in the middle of the
    merged table - so `(d1 + d2)` means "d1 and d2" only if the validator's verdict does not depend on WHERE the marker
    sits (keys after it are still required / type-checked, extra keys still allowed)."""
    from .c02 import _dict_table
    for where in ("{...: ..., r1", "r1, ...: ..., optional(o1)"):
        _dict_table(run, prog, model, "Validator", only=where, rule="ADD-VALIDATES")

    # FLATTEN: any(A1, any(B1, B2), A2) and a nested-nested case
    st = model.schemas["AnySchema"]
    call = st.cls.methods["__call__"]

    def anyv(*tokens: V) -> SchemaV:
        return SchemaV(st.cls, PropsV(st.props_cls, {"types": TupleV(list(tokens))}, "schema"), "param")

    cases: List[Tuple[str, Callable[[], List[V]], List[str]]] = [
        ("any(A1, any(B1, B2), A2)", lambda: [plain("A1"), anyv(plain("B1"), plain("B2")), plain("A2")], ["A1", "B1", "B2", "A2"]),
        ("any(any(B1, any(C1, C2)))", lambda: [anyv(plain("B1"), anyv(plain("C1"), plain("C2")))], ["B1", "C1", "C2"]),
        ("any(any-without-types, A1)", lambda: [SchemaV(st.cls, PropsV(st.props_cls, {}, "schema"), "param"), plain("A1")], ["A1"]),
        ("any(B1) | A1  (left operand already a union)", lambda: [anyv(plain("B1")), plain("A1")], ["B1", "A1"]),
    ]
    for label, mk, want in cases:
        it2 = Interp(prog, model, unroll=2, max_depth=14)
        it2.max_recursion = 4   # type: ignore

        def run2(i: Interp) -> V:
            s = SchemaV(st.cls, PropsV(st.props_cls, {}, "schema"), "self")
            return i.call_function(call, mk(), {}, self_val=s)
        ps = it2.run_paths(run2)
        probs = []
        opaque: List[str] = []
        ok = 0
        for p in ps:
            # only paths where plain members are not any-schemas (members named A*/B*/C* are plain tokens)
            if p.outcome == "limit":
                continue
            if p.outcome != "return":
                probs.append(f"raises {p.value.key() if p.value else p.outcome}")
                continue
            toks = _types_tokens(p.value)  # type: ignore
            if toks is None:
                probs.append("result has no types tuple")
                continue
            missing = [w for w in want if w not in toks]
            dup = [w for w in want if toks.count(w) > 1]
            nested = [t for t in toks if t.startswith("AnySchema<") and "types=" in t]
            if missing and any("call(" in t for t in toks):
                opaque.append(f"the result contains an unevaluated call ({[t for t in toks if 'call(' in t][0][:60]})")
                continue
            if missing:
                probs.append(f"alternatives {missing} lost (got {toks})")
            if dup:
                probs.append(f"alternatives {dup} duplicated")
            if nested:
                probs.append("a nested any with types is left unflattened")
            ok += 1
        if probs:
            run.violated("FLATTEN", label, call.loc, "; ".join(sorted(set(probs)))[:300],
                         witness=f"schema.{label} rejects a value one of its alternatives accepts")
        elif opaque:
            run.undecided("FLATTEN", label, call.loc, opaque[0])
        elif ok:
            run.holds("FLATTEN", label, call.loc, f"result alternatives = {want}", nontrivial=True)
        else:
            run.undecided("FLATTEN", label, call.loc, "no plain-member path")
    run.floor("FLATTEN", 2)


# ---------------------------------------------------------------------------- dict +
def _add(run: Run, prog: Program, model: Model) -> None:
    st = model.schemas["DictSchema"]
    add = st.cls.methods.get("__add__")
    if add is None:
        raise AnalysisError("DictSchema.__add__ not found")
    cases = [
        ("{r1, optional(o1)} + {r1', n1}", lambda: table([("r1", "R1", False), ("o1", "O1", True)]),
         lambda: table([("r1", "R1b", True), ("n1", "N1", False)])),
        ("{r1, ...: ...} + {optional(n1)}", lambda: table([("r1", "R1", False)], True), lambda: table([("n1", "N1", True)])),
        ("{r1} + {n1, ...: ...}", lambda: table([("r1", "R1", False)]), lambda: table([("n1", "N1", False)], True)),
        ("{r1} + <no keys>", lambda: table([("r1", "R1", False)]), lambda: None),
        ("<no keys> + {optional(n1)}", lambda: None, lambda: table([("n1", "N1", True)])),
    ]
    for label, mk1, mk2 in cases:
        it = Interp(prog, model)
        box: Dict[str, Any] = {}

        def run1(i: Interp) -> V:
            t1, t2 = mk1(), mk2()
            box["t1"], box["t2"] = t1, t2
            return i.call_function(add, [dict_schema(model, t2)], {}, self_val=dict_schema(model, t1, "self"))
        ps = it.run_paths(run1)
        probs: List[str] = []
        und: List[str] = []
        ok = 0
        for p in ps:
            if p.outcome != "return":
                probs.append(f"raises {p.value.key() if p.value else p.outcome}")
                continue
            v = p.value
            got = entries_of(v.props.vals.get("keys")) if isinstance(v, SchemaV) and isinstance(v.props, PropsV) else None  # type: ignore
            if got is None:
                und.append("result key table is not a concrete table")
                continue
            e1 = entries_of(box["t1"]) or {}
            e2 = entries_of(box["t2"]) or {}
            want = {**e1, **e2}
            if got != want:
                lost = sorted(set(want) - set(got))
                changed = sorted(k for k in want if k in got and got[k] != want[k])
                extra = sorted(set(got) - set(want))
                probs.append(f"lost {lost}, changed {changed}, invented {extra}")
            ok += 1
        if probs:
            run.violated("ADD", f"d1 + d2: {label}", add.loc, "; ".join(sorted(set(probs)))[:300],
                         witness="(d1 + d2) disagrees with the dict schema declared with d1's keys overridden and extended by d2's")
        elif und:
            run.undecided("ADD", f"d1 + d2: {label}", add.loc, und[0])
        elif ok:
            run.holds("ADD", f"d1 + d2: {label}", add.loc, "result table = {**d1.keys, **d2.keys}, entries unmodified", nontrivial=True)
        else:
            run.undecided("ADD", f"d1 + d2: {label}", add.loc, "no returning path")
    run.floor("ADD", 4)


# ---------------------------------------------------------------------------- make_required
def _make_required(run: Run, prog: Program, model: Model) -> None:
    fn = prog.func("d42.utils._make_required.make_required")
    base = [("r1", "R1", False), ("o1", "O1", True), ("o2", "O2", True)]
    cases: List[Tuple[str, bool, Optional[List[str]]]] = [
        ("all keys (default)", False, None), ("all keys, relaxed table", True, None),
        ("keys=[o1]", False, ["o1"]), ("keys=[o1], relaxed table", True, ["o1"]), ("keys=[]", False, []),
        ("keys=(r1, o2)", False, ["r1", "o2"]),
        # the listed keys are a collection, not a set: repeats must not change which keys are listed
        ("keys=[r1, o1, o1] (as many entries as the table)", False, ["r1", "o1", "o1"]),
        ("keys=[o1, o1, r1, r1], relaxed table (as many entries as the table)", True, ["o1", "o1", "r1", "r1"]),
    ]
    for label, relaxed, ks in cases:
        it = Interp(prog, model)

        def run1(i: Interp) -> V:
            args: List[V] = [dict_schema(model, table(base, relaxed))]
            if ks is not None:
                args.append(ListV([key(k) for k in ks]))
            return i.call_function(fn, args, {})
        ps = it.run_paths(run1)
        probs: List[str] = []
        ok = 0
        for p in ps:
            if p.outcome != "return":
                # `...` is a key of a relaxed table; make_required(d) with default keys must not trip over it
                probs.append(f"raises {p.value.key() if p.value else p.outcome}")
                continue
            v = p.value
            got = entries_of(v.props.vals.get("keys")) if isinstance(v, SchemaV) and isinstance(v.props, PropsV) else None  # type: ignore
            if got is None:
                probs.append("result key table is not a concrete table")
                continue
            listed = set(k for k, _, _ in base) if ks is None else set(ks)
            for k, m, f in base:
                if k not in got:
                    probs.append(f"key {k} lost")
                    continue
                gm, gf = got[k]
                if gm != m:
                    probs.append(f"member of {k} changed")
                wantf = False if k in listed else f
                if gf is not wantf:
                    probs.append(f"flag of {k} is {gf}, expected {wantf}")
            if relaxed and "..." not in got:
                probs.append("relaxed marker lost")
            if not relaxed and "..." in got:
                probs.append("relaxed marker invented")
            ok += 1
        c = f"make_required: {label}"
        if probs:
            run.violated("MAKE-REQUIRED", c, fn.loc, "; ".join(sorted(set(probs)))[:300],
                         witness="make_required(d, keys) accepts a value lacking a listed key, or rejects a value d accepts with all listed keys")
        elif ok:
            run.holds("MAKE-REQUIRED", c, fn.loc, "all keys and members kept; listed keys required; others unchanged", nontrivial=True)
        else:
            run.undecided("MAKE-REQUIRED", c, fn.loc, "no returning path")
    run.floor("MAKE-REQUIRED", 5)


# ---------------------------------------------------------------------------- getitem / iter
def _getitem_iter(run: Run, prog: Program, model: Model) -> None:
    st = model.schemas["DictSchema"]
    gi = st.cls.methods.get("__getitem__")
    ks = st.cls.methods.get("keys")
    if gi is None or ks is None:
        raise AnalysisError("DictSchema.__getitem__/keys not found")
    base = [("r1", "R1", False), ("o1", "O1", True)]
    for k, m, f in base:
        it = Interp(prog, model)

        def run1(i: Interp) -> V:
            return i.call_function(gi, [key(k)], {}, self_val=dict_schema(model, table(base, True), "self"))
        ps = it.run_paths(run1)
        rets = [p for p in ps if p.outcome == "return"]
        if rets and all(p.value is not None and p.value.key() == m for p in rets) and len(rets) == len(ps):
            run.holds("GETITEM", f"d[{k}]", gi.loc, f"returns the declared member {m}", nontrivial=True)
        else:
            run.violated("GETITEM", f"d[{k}]", gi.loc,
                         f"d[{k}] yields {[p.value.key()[:30] if p.value else p.outcome for p in ps]} instead of the declared member",
                         witness="d[key] is not the schema declared for key")
    it = Interp(prog, model)

    def run2(i: Interp) -> V:
        return i.call_function(ks, [], {}, self_val=dict_schema(model, table(base, False), "self"))
    ps = it.run_paths(run2)
    want = ["r1", "o1"]
    ok = all(p.outcome == "return" and isinstance(p.value, (ListV, SetV, Term)) and
             ([x.key() for x in p.value.items] == want if isinstance(p.value, (ListV, SetV)) else True) for p in ps)
    if ok and ps:
        run.holds("ITER", "d.keys() / iteration", ks.loc, "enumerates the declared keys in order", nontrivial=True)
    else:
        run.violated("ITER", "d.keys() / iteration", ks.loc, "iteration does not enumerate the declared key table",
                     witness="list(d) != declared keys")
    # AnySchema.__iter__ yields props.types
    sa = model.schemas["AnySchema"]
    itf = sa.cls.methods.get("__iter__")
    if itf is not None:
        it3 = Interp(prog, model)

        def run3(i: Interp) -> V:
            s = SchemaV(sa.cls, PropsV(sa.props_cls, {"types": TupleV([member("A1"), member("A2")])}, "schema"), "self")
            return i.call_function(itf, [], {}, self_val=s)
        ps = it3.run_paths(run3)
        ys = [e for p in ps for e in p.events if e.kind == "yield" and e.data.get("from_")]
        if ys and all(isinstance(e.data["value"], TupleV) and [x.key() for x in e.data["value"].items] == ["A1", "A2"] for e in ys if not (isinstance(e.data["value"], TupleV) and not e.data["value"].items)):
            run.holds("ITER", "iter(any(...))", itf.loc, "yields the declared alternatives", nontrivial=True)
        else:
            run.undecided("ITER", "iter(any(...))", itf.loc, "generator shape not recognised")
    run.floor("GETITEM", 2)


D = "d42/declaration/types/_dict_schema.py"
A = "d42/declaration/types/_any_schema.py"
MR = "d42/utils/_make_required.py"
MUTANTS = [
    {"name": "make_required takes `as many keys as the table` for `all keys` (seeded C13-L)", "rule": "MAKE-REQUIRED",
     "edits": [("d42/utils/_make_required.py", "        updated_keys = {}\n        for key, (val, is_optional) in props_keys.items():\n            updated_keys[key] = (val, False if (key in keys) else is_optional)\n",
                "        updated_keys = {}\n        every = len(keys) == len(props_keys)\n        for key, (val, is_optional) in props_keys.items():\n            updated_keys[key] = (val, False if (every or key in keys) else is_optional)\n")]},
    {"name": "validator treats everything after the relaxed marker as allowed-as-is", "rule": "ADD-VALIDATES",
     "edits": [("d42/validation/_validator.py", "        for key, (val, is_optional) in schema.props.keys.items():\n            if is_ellipsis(key):\n                continue",
                "        for key, (val, is_optional) in schema.props.keys.items():\n            if is_ellipsis(key):\n                break")]},
    {"name": "__add__ filters `...`", "rule": "ADD",
     "edits": [(D, "        merged_keys = {**self_keys, **other_keys}", "        merged_keys = {k: v for k, v in {**self_keys, **other_keys}.items() if not is_ellipsis(k)}")]},
    {"name": "make_required can set True", "rule": "MAKE-REQUIRED",
     "edits": [(MR, "            updated_keys[key] = (val, False if (key in keys) else is_optional)", "            updated_keys[key] = (val, (key not in keys))")]},
    {"name": "flatten stops after the first nested any", "rule": "FLATTEN",
     "edits": [(A, "                flattened.extend(self._flatten_schemas(schema.props.types))", "                flattened.extend(schema.props.types)")]},
    {"name": "alias validates Nil", "rule": "ALIAS-FORWARD",
     "edits": [("d42/validation/_validator.py", "        return schema.props.type.__accept__(self, value=value, path=path, **kwargs)", "        return schema.props.type.__accept__(self, path=path, **kwargs)")]},
    {"name": "left operand wins in +", "rule": "ADD",
     "edits": [(D, "        merged_keys = {**self_keys, **other_keys}", "        merged_keys = {**other_keys, **self_keys}")]},
    {"name": "+ makes overridden keys required", "rule": "ADD",
     "edits": [(D, "        merged_keys = {**self_keys, **other_keys}", "        merged_keys = {**self_keys, **{k: (v[0], False) for k, v in other_keys.items()}}")]},
    {"name": "union drops the right operand when left is any", "rule": "UNION-WIRING",
     "edits": [("d42/declaration/__init__.py", "    return schema.any(self, other)", "    return schema.any(self) if isinstance(self, AnySchema) else schema.any(self, other)")]},
    {"name": "make_required drops unlisted optional keys", "rule": "MAKE-REQUIRED",
     "edits": [(MR, "        for key, (val, is_optional) in props_keys.items():\n            updated_keys[key]", "        for key, (val, is_optional) in props_keys.items():\n            if is_optional and key not in keys:\n                continue\n            updated_keys[key]")]},
    {"name": "__getitem__ returns the (schema, flag) entry", "rule": "GETITEM",
     "edits": [(D, "        return self.props.keys[key][0]", "        return self.props.keys[key]")]},
    {"name": "substitutor alias substitutes into the alias itself", "rule": "ALIAS-FORWARD",
     "edits": [("d42/substitution/_substitutor.py", "        substituted = schema.props.type.__accept__(self, value=value, **kwargs)", "        substituted = schema.props.type.__accept__(self, **kwargs)")]},
    {"name": "neutral: merged with dict()/update", "expect": "SILENT",
     "edits": [(D, "        merged_keys = {**self_keys, **other_keys}", "        merged_keys = dict(self_keys)\n        merged_keys.update(other_keys)")]},
    {"name": "neutral: make_required flag via and/not", "expect": "SILENT",
     "edits": [(MR, "(val, False if (key in keys) else is_optional)", "(val, is_optional and (key not in keys))")]},
]
