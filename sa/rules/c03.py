"""C03 - every validation error is true and points at the offending sub-value.

Decided on every interpreter path of every Validator / SubstitutorValidator visit method:
PATH-ARG / VALUE-ARG (provenance of error-constructor arguments), DESCENT-PAIR (value[k] paired with
deepcopy(path)[k]), PATH-OWNERSHIP typestate (a PathHolder is only indexed when owned), FACT-AGREE
(the extra arguments are operands of the guard), FORMAT (formatter names the path; dispatch agrees).
"""
from __future__ import annotations

import ast
from typing import Any, Dict, List, Optional, Set, Tuple

from ..flow import parents, resolve_call
from ..interp import Event, Path
from ..loader import AnalysisError, ClassInfo, FuncInfo, Program
from ..model import Model
from ..report import Run
from ..engine import Interp
from ..values import Const, Ext, Inst, ListV, SchemaV, StrV, Sym, Term, TupleV, V, is_nil
from ..visits import configs_for, run_visit, validator_ctx
from ..interp_call import KIND_NAMES

VALIDATORS = ("Validator", "SubstitutorValidator")


def short(q: Optional[str]) -> str:
    if not q:
        return "?"
    parts = q.split(".")
    return ".".join(parts[-2:])


def is_cur_path(v: V) -> bool:
    return isinstance(v, Sym) and v.origin == ("param", "path")


def is_cur_value(v: V) -> bool:
    return isinstance(v, Sym) and v.origin == ("param", "value")


def index_of_value(x: V) -> Optional[str]:
    """If x is value[k] (directly, via enumerate) return key of k."""
    if isinstance(x, Term) and x.op == "getitem" and is_cur_value(x.args[0]):
        return x.args[1].key()
    if isinstance(x, Sym) and x.origin and x.origin[0] == "elem" and is_cur_value(x.origin[1]) and x.origin[2] is not None:
        idx = x.origin[2]
        return idx.key() if isinstance(idx, V) else None
    # element of a slice value[lo:hi]: its position in `value` is idx + lo
    if isinstance(x, Sym) and x.origin and x.origin[0] == "elem" and isinstance(x.origin[1], Term) and x.origin[1].op == "slice" \
            and is_cur_value(x.origin[1].args[0]) and isinstance(x.origin[2], V):
        lo = x.origin[1].args[1]
        if isinstance(lo, Const) and lo.value in (None, 0):
            return x.origin[2].key()
        return f"bin(+, {x.origin[2].key()}, {lo.key()})"
    if isinstance(x, Sym) and x.origin and x.origin[0] == "val" and is_cur_value(x.origin[1]):
        return x.origin[2].key()
    return None


def error_classes(prog: Program) -> Dict[str, ClassInfo]:
    base = prog.cls("validation.errors.ValidationError")
    return {c.name: c for c in prog.subclasses(base)}


def check(run: Run, prog: Program, model: Model, tier: str) -> None:
    run.explanation = (
        "Every path of every Validator/SubstitutorValidator visit method is enumerated by the abstract interpreter "
        "under each prop-set / list shape / key table, with symbolic `value` and `path` parameters. On those paths: "
        "each *ValidationError construction must receive the current path and value; each member descent must pair "
        "value[k] with deepcopy(path)[k] for the same k; a PathHolder may be indexed only when it is an owned copy; "
        "the extra arguments of an error must be operands of the guard that selected it. Formatter methods are "
        "checked structurally (path rendered, dispatch and attribute agreement). Holds for all nesting depths by "
        "induction over the schema tree (each method is checked assuming members satisfy the same contract)."
        " The failing guard of a relational error must test the reported value itself (not round()/int() of it). Formatter rules are decided by abstract evaluation of the format() method of each error class on an instance built by its own __init__.")
    run.explanation += " FORMAT-CHILD: on every path of format_missing_element_error / format_missing_key_error the rendered path is the error's path extended by the missing index / key (no truthiness test of the child decides it)."
    run.rule_text = ("obligations = distinct (method, error class / descent site / index site) instances over all explored paths; "
                     "non-trivial = provenance established through inlined helpers, loop variables or aliasing locals")
    from ..entry import entry_transparent
    entry_transparent(run, prog, model, "validate", "VALIDATE-ENTRY")
    run.trusted += ["th.PathHolder.__getitem__/__getattr__ append to the holder in place and return it; its __copy__ is shallow "
                    "(shares the accessor list) - read from the installed th 0.4.1 source as documentation",
                    "copy.deepcopy yields an independent PathHolder"]
    errs = error_classes(prog)
    if len(errs) < 16:
        raise AnalysisError(f"only {len(errs)} validation error classes found")
    unroll = 1 if tier == "quick" else 2
    seen: Dict[Tuple[str, str, str], Tuple[str, str, str, str]] = {}   # (rule, construct) -> worst status
    npaths = 0
    nconf = 0

    def record(rule: str, construct: str, status: str, site: str, detail: str, witness: str = "") -> None:
        k = (rule, construct, "")
        prev = seen.get(k)
        order = {"HOLDS": 0, "UNDECIDED": 1, "VIOLATED": 2}
        if prev is None or order[status] > order[prev[0]]:
            seen[k] = (status, site, detail, witness)

    for vis in VALIDATORS:
        methods = model.visit_methods(vis)
        for hook, f in methods.items():
            st = model.by_hook[hook]
            for cfg in configs_for(st, tier):
                paths = run_visit(prog, model, vis, hook, cfg, validator_ctx, unroll=unroll)
                nconf += 1
                for p in paths:
                    npaths += 1
                    if p.outcome == "limit":
                        record("PATHS", f"{vis}.{hook} {cfg.label}", "UNDECIDED", f.loc, "path limit reached")
                        continue
                    _check_path(prog, errs, vis, hook, cfg.label, p, record)
    for (rule, construct, _), (status, site, detail, witness) in sorted(seen.items()):
        if status == "HOLDS":
            run.holds(rule, construct, site, detail, nontrivial=True)
        elif status == "VIOLATED":
            run.violated(rule, construct, site, detail, witness)
        else:
            run.undecided(rule, construct, site, detail)
    run.analysed.update({"configs": nconf, "paths": npaths})
    run.floor("PATH-ARG", 15)
    run.floor("VALUE-ARG", 15)
    run.floor("DESCENT-PAIR", 6)
    run.floor("PATH-OWNERSHIP", 4)
    run.floor("FACT-AGREE", 14)

    _check_formatter(run, prog, model, errs)


def _check_path(prog: Program, errs: Dict[str, ClassInfo], vis: str, hook: str, label: str, p: Path, record: Any) -> None:
    for e in p.events:
        if e.kind == "construct" and e.data.get("cls") is not None and e.data["cls"].name in errs:
            cls = e.data["cls"].name
            args = e.data["args"]
            where = short(e.func)
            construct = f"{where}: {cls}"
            site = e.loc(prog)
            if len(args) < 2:
                record("PATH-ARG", construct, "UNDECIDED", site, "error built with < 2 positional arguments")
                continue
            a0, a1 = args[0], args[1]
            if is_cur_path(a0):
                record("PATH-ARG", construct, "HOLDS", site, "argument 0 is the method's current `path`")
            elif isinstance(a0, Term) and a0.op == "call" and "PathHolder" in a0.key():
                record("PATH-ARG", construct, "VIOLATED", site,
                       f"error is built with a fresh path ({a0.key()}) instead of the current path",
                       f"validate(schema.dict({{'k': <schema reaching {where}>}}), {{'k': <offending value>}}) reports an empty path")
            elif isinstance(a0, Term) and a0.op == "getitem" and isinstance(a0.args[0], Term) and a0.args[0].op == "deepcopy" \
                    and is_cur_path(a0.args[0].args[0]):
                record("PATH-ARG", construct, "VIOLATED", site,
                       f"error is located at a member path ({a0.key()}) but reports the container value",
                       "the path does not lead to the reported sub-value")
            elif isinstance(a0, Term) and a0.op == "mcall" and "make_path" in a0.key():
                record("PATH-ARG", construct, "VIOLATED", site, "error is built with self.make_path() instead of the current path",
                       "nested errors point at the root")
            else:
                record("PATH-ARG", construct, "UNDECIDED", site, f"path argument of unrecognised provenance: {a0.key()[:80]}")
            if is_cur_value(a1):
                record("VALUE-ARG", construct, "HOLDS", site, "argument 1 is the method's current `value`")
            elif index_of_value(a1) is not None or (isinstance(a1, Sym) and a1.origin and a1.origin[0] in ("elem", "val", "key")):
                record("VALUE-ARG", construct, "VIOLATED", site,
                       f"error reports a member ({a1.key()}) while its path is the container's",
                       "following error.path from the root does not reach error.actual_value")
            else:
                record("VALUE-ARG", construct, "UNDECIDED", site, f"value argument of unrecognised provenance: {a1.key()[:80]}")
            _fact_agree(prog, p, e, cls, args, construct, site, record)
        elif e.kind == "accept" and e.data.get("family") == "Validator":
            kw = e.data["kwargs"]
            x, pth = kw.get("value"), kw.get("path")
            where = short(e.func)
            construct = f"{where}: descent into {e.data['recv'].key().split('@')[0]}"
            site = e.loc(prog)
            if x is None or pth is None:
                record("DESCENT-PAIR", construct, "VIOLATED", site,
                       f"member visited without {'value' if x is None else 'path'}: the member validates Nil / roots its errors at `_`",
                       "errors of the member carry no path prefix")
                continue
            if is_cur_value(x) and is_cur_path(pth):
                record("DESCENT-PAIR", construct, "HOLDS", site, "pass-through (same value, same path)")
                continue
            k = index_of_value(x)
            if k is None:
                record("DESCENT-PAIR", construct, "UNDECIDED", site, f"member value of unrecognised provenance: {x.key()[:80]}")
                continue
            if isinstance(pth, Term) and pth.op == "getitem":
                base, idx = pth.args
                if idx.key() != k:
                    record("DESCENT-PAIR", construct, "VIOLATED", site,
                           f"value indexed with {k} but path indexed with {idx.key()}",
                           "the error path names a different element than the one validated")
                elif isinstance(base, Term) and base.op == "deepcopy" and is_cur_path(base.args[0]):
                    record("DESCENT-PAIR", construct, "HOLDS", site, f"value[{k}] paired with deepcopy(path)[{k}]")
                elif is_cur_path(base):
                    record("DESCENT-PAIR", construct, "VIOLATED", site,
                           "path indexed in place (no deepcopy): sibling members extend each other's paths",
                           "validate(schema.list([schema.int, schema.int]), ['a', 'b']) -> second error path is [0][1]")
                else:
                    record("DESCENT-PAIR", construct, "VIOLATED", site,
                           f"member path is built from {base.key()[:60]}, not from a copy of the current path",
                           "errors of nested members lose their prefix")
            elif is_cur_path(pth):
                record("DESCENT-PAIR", construct, "VIOLATED", site,
                       f"member value[{k}] visited with the container's own path",
                       "the member's errors point at the container, not at the member")
            else:
                record("DESCENT-PAIR", construct, "UNDECIDED", site, f"member path of unrecognised provenance: {pth.key()[:80]}")
        elif e.kind == "path_index":
            recv = e.data["recv"]
            where = short(e.func)
            construct = f"{where}: index {recv.key()[:40]}"
            site = e.loc(prog)
            if isinstance(recv, Term) and recv.op == "deepcopy":
                record("PATH-OWNERSHIP", construct, "HOLDS", site, "indexed object is a fresh deepcopy")
            elif isinstance(recv, Term) and recv.op == "call" and "PathHolder" in recv.key():
                record("PATH-OWNERSHIP", construct, "HOLDS", site, "indexed object is a freshly constructed holder")
            elif isinstance(recv, Term) and recv.op == "copy":
                record("PATH-OWNERSHIP", construct, "VIOLATED", site,
                       "a shallow copy.copy() of a PathHolder shares its accessor list with the original, so indexing it "
                       "appends to the original path as well",
                       "paths of later siblings and of already reported errors grow")
            elif is_cur_path(recv) or (isinstance(recv, Term) and recv.op == "attr"):
                record("PATH-OWNERSHIP", construct, "VIOLATED", site,
                       "a PathHolder that is not owned (parameter / attribute) is indexed, which appends to it in place",
                       "paths of later siblings and of already reported errors grow")
            else:
                record("PATH-OWNERSHIP", construct, "UNDECIDED", site, f"ownership of {recv.key()[:60]} unknown")


def _fact_agree(prog: Program, p: Path, e: Event, cls: str, args: List[V], construct: str, site: str, record: Any) -> None:
    extra = args[2:]
    if not extra:
        return
    facts = p.facts[:e.nfacts]
    keys = [k for k, _, _ in facts]
    for ev in p.events:
        if ev is e:
            break
        if ev.kind == "decided":
            keys.append(ev.data["term"].key())
    # the failing guard of a relational error must test the value the error reports, not a lossy image of it
    if cls in ("MinValueValidationError", "MaxValueValidationError") and facts and len(args) >= 2 and is_cur_value(args[1]):
        t = facts[-1][1]
        if isinstance(t, Term) and t.op in ("lt", "eq"):
            from ..vtable import lossy_image
            for x in t.args:
                how = lossy_image(x, args[1].key()) if isinstance(x, V) else None
                if how and x.key() != args[1].key():
                    record("FACT-AGREE", f"{construct} guard", "VIOLATED", site,
                           f"the guard compares {how} of the value ({x.key()[:50]}) but the error states the value itself: "
                           "the reported relation can be false for the reported value",
                           "validate(schema.float.min(0.14).precision(1), 0.14): 'must be >= 0.14, but 0.14 given'")
    for i, a in enumerate(extra):
        c2 = f"{construct} arg{i + 2}"
        ak = a.key()
        if cls == "TypeValidationError":
            # the expected type must be the class tested by the failing isinstance guard
            names = [t.args[1] for k, t, b in facts if isinstance(t, Term) and t.op == "isinstance" and not b and is_cur_value(t.args[0])]
            want = KIND_NAMES.get(a.name, a.name) if isinstance(a, Ext) else ak
            if names and want in names[-1].split("|"):
                record("FACT-AGREE", c2, "HOLDS", site, f"expected_type {want} is the class the failing guard tested")
            elif names:
                record("FACT-AGREE", c2, "VIOLATED", site,
                       f"error names type {want} but the failing guard tested {names[-1]}", "the stated fact is not the one checked")
            else:
                record("FACT-AGREE", c2, "UNDECIDED", site, "no failing isinstance guard on this path")
            continue
        if cls == "InvalidUUIDVersionValidationError" and isinstance(a, Const):
            ok = any(ak in k for k in keys)
            record("FACT-AGREE", c2, "HOLDS" if ok else "VIOLATED", site,
                   f"constant {ak} " + ("is the operand of the guard" if ok else "is not the constant the guard compares with"),
                   "" if ok else "the stated expected version differs from the checked one")
            continue
        if cls in ("MissingElementValidationError",):
            # index must be the index whose lookup raised
            raised = []
            for ev in p.events:
                if ev is e:
                    break
                if ev.kind == "partial" and ev.data.get("raised") is not None and ev.data.get("op") == "getitem":
                    raised.append(ev)
            if raised and raised[-1].data["operands"][1].key() == ak:
                record("FACT-AGREE", c2, "HOLDS", site, "index is the one whose lookup raised IndexError")
            elif raised:
                record("FACT-AGREE", c2, "VIOLATED", site,
                       f"reported index {ak[:50]} differs from the index that was missing ({raised[-1].data['operands'][1].key()[:50]})",
                       "error names the wrong element")
            else:
                record("FACT-AGREE", c2, "UNDECIDED", site, "no failing element lookup on this path")
            continue
        if cls == "ExtraElementValidationError":
            if isinstance(a, Sym) and a.origin and a.origin[0] == "range":
                record("FACT-AGREE", c2, "HOLDS", site, "index ranges over the surplus positions")
            else:
                record("FACT-AGREE", c2, "UNDECIDED", site, f"index provenance {ak[:60]}")
            continue
        hit = any(ak in k for k in keys)
        if hit:
            record("FACT-AGREE", c2, "HOLDS", site, "argument is an operand of a guard on this path")
        elif cls == "SchemaMismatchValidationError":
            # expected_schemas: must be the alternatives that were tried
            tried = [ev for ev in p.events if ev.kind == "accept"]
            record("FACT-AGREE", c2, "HOLDS" if tried and all(t.data["recv"].key() in ak for t in tried) else "UNDECIDED", site,
                   "expected_schemas are the alternatives that were visited")
        elif (isinstance(a, Sym) and a.origin and a.origin[0] == "prop") or isinstance(a, Const):
            record("FACT-AGREE", c2, "VIOLATED", site,
                   f"argument {ak[:60]} is a declared constraint / constant that no guard on this path tested",
                   "the error states a bound / key / pattern different from the one that was checked")
        else:
            record("FACT-AGREE", c2, "UNDECIDED", site,
                   f"argument {ak[:60]} could not be related to a guard on this path")


def _mentions(v: Any, key: str, seen: Optional[Set[int]] = None) -> bool:
    """Does the abstract value contain (anywhere inside) a value with this key?"""
    if seen is None:
        seen = set()
    if not isinstance(v, V) or id(v) in seen:
        return False
    seen.add(id(v))
    if v.key() == key:
        return True
    if isinstance(v, (SchemaV, Inst)):
        return key in v.key() or any(_mentions(a, key, seen) for a in getattr(v, "attrs", {}).values())
    if isinstance(v, Term):
        return any(_mentions(a, key, seen) for a in v.args)
    if isinstance(v, StrV):
        return any(_mentions(piece[0], key, seen) for piece in v.pieces if not isinstance(piece, str))
    if isinstance(v, (ListV, TupleV)):
        return any(_mentions(getattr(a, "value", a), key, seen) for a in v.items)
    if isinstance(v, Sym) and v.origin:
        return any(_mentions(a, key, seen) for a in v.origin if isinstance(a, V))
    return False


def _check_formatter(run: Run, prog: Program, model: Model, errs: Dict[str, ClassInfo]) -> None:
    """Formatter rules, decided by abstract evaluation of each error class's format() on an instance built by its own
    __init__ from symbolic arguments (so helpers, templates and str.format / f-string spellings are all the same):
      FORMAT-DISPATCH  the Formatter method reached from E.format is the one annotated with E;
      FORMAT-ATTRS     every attribute read off the error was set by E.__init__;
      FORMAT-PATH      some returned message contains text derived from error.path;
      PATH-OWNERSHIP   error.path is never indexed in place (PathHolder.__getitem__ appends to the holder)."""
    fm = prog.cls("validation._formatter.Formatter")
    by_param: Dict[str, FuncInfo] = {}
    for mname, m in fm.methods.items():
        if not mname.startswith("format_"):
            continue
        args = m.node.args.args
        ann = ast.unparse(args[1].annotation) if len(args) > 1 and args[1].annotation is not None else ""
        by_param[ann] = m
    for name, ci in sorted(errs.items()):
        fmt = ci.lookup("format")
        init = ci.lookup("__init__")
        if fmt is None or init is None:
            continue
        fields = [a.arg for a in init.node.args.args[1:]]
        want = by_param.get(name)
        it = Interp(prog, model, unroll=1)

        def run1(i: Interp) -> V:
            formatter = i._construct(fm, [], {}, None)
            actual: List[V] = []
            for fld in fields:
                if fld == "path":
                    actual.append(Sym("error.path", "PathHolder", ("attr", "path")))
                elif fld in ("length", "min_length", "max_length", "index", "actual_version", "expected_version"):
                    actual.append(Sym(f"error.{fld}", "int", ("attr", fld)))
                else:
                    actual.append(Sym(f"error.{fld}", None, ("attr", fld)))
            err = i._construct(ci, actual, {}, None)
            return i.call_function(fmt, [formatter], {}, self_val=err)
        ps = it.run_paths(run1)
        construct = f"{name}.format"
        # ---- FORMAT-DISPATCH
        reached = {e.data["callee"].rsplit(".", 1)[-1] for p in ps for e in p.events
                   if e.kind == "call" and isinstance(e.data.get("callee"), str) and ".Formatter.format_" in e.data["callee"]
                   and e.func == fmt.qualname}
        if not reached:
            run.undecided("FORMAT-DISPATCH", construct, fmt.loc, "no Formatter.format_* call is reached from format()")
        elif want is None:
            run.violated("FORMAT-DISPATCH", construct, fmt.loc, f"no Formatter method takes a {name}", "error cannot be rendered")
        elif reached == {want.name}:
            run.holds("FORMAT-DISPATCH", construct, fmt.loc, f"calls {want.name}", nontrivial=True)
        else:
            run.violated("FORMAT-DISPATCH", construct, fmt.loc,
                         f"calls formatter.{sorted(reached)[0]} but the method for {name} is {want.name}",
                         "the rendered message states a different fact than the error")
        if want is None:
            continue
        fconstruct = f"Formatter.{want.name}"
        # ---- FORMAT-ATTRS
        missing = set()
        for p in ps:
            for e in p.events:
                if e.kind == "partial" and e.data.get("op") == "getattr" and e.data.get("operands"):
                    recv, attr = e.data["operands"][0], e.data["operands"][1]
                    if isinstance(recv, Inst) and recv.cls is not None and recv.cls.qualname == ci.qualname and isinstance(attr, Const):
                        missing.add(str(attr.value))
        if missing:
            run.violated("FORMAT-ATTRS", fconstruct, want.loc, f"reads error.{sorted(missing)} which {name}.__init__ never sets",
                         "formatting this error raises AttributeError")
        else:
            run.holds("FORMAT-ATTRS", fconstruct, want.loc, f"every attribute read off the error is set by {name}.__init__", nontrivial=False)
        # ---- FORMAT-PATH
        rets = [p for p in ps if p.outcome == "return"]
        if not rets:
            run.undecided("FORMAT-PATH", fconstruct, want.loc, "no returning path")
        elif any(_mentions(p.value, "error.path") for p in rets):
            run.holds("FORMAT-PATH", fconstruct, want.loc, "a returned message contains text derived from error.path", nontrivial=True)
        elif any(isinstance(p.value, Term) and p.value.op in ("format", "mcall", "percent") for p in rets):
            run.undecided("FORMAT-PATH", fconstruct, want.loc, "the message is built in a form that is not evaluated")
        else:
            run.violated("FORMAT-PATH", fconstruct, want.loc, "rendered message never mentions error.path",
                         "nested errors are reported without their location")
        # ---- FORMAT-CHILD: a missing element / key is named by the parent path EXTENDED by the index / key: every returned
        # message of those two formatters derives from error.index / error.missing_key (also when it is 0, "" or False)
        child = {"MissingElementValidationError": "error.index", "MissingKeyValidationError": "error.missing_key"}.get(name)
        if child is not None and rets:
            lacking = [p for p in rets if not _mentions(p.value, child)]
            cc = f"{fconstruct}: the message names the missing child"
            if lacking:
                cond = [("" if b else "not ") + k for k, _, b in lacking[0].facts][-1:]
                run.violated("FORMAT-CHILD", cc, want.loc, f"a path renders the message without {child}"
                             + (f" (when {cond[0][:60]})" if cond else "") + ": the parent is named instead of the missing child",
                             "validate(schema.list([schema.int]), []) renders `Element _ does not exist` instead of `Element _[0] does not exist`")
            else:
                run.holds("FORMAT-CHILD", cc, want.loc, f"every message derives from {child}", nontrivial=True)
        # ---- PATH-OWNERSHIP: indexing of a PathHolder inside the formatter
        seen_sites: Set[str] = set()
        for p in ps:
            for e in p.events:
                if e.kind != "path_index":
                    continue
                recv = e.data["recv"]
                loc = e.loc(prog)
                if loc in seen_sites:
                    continue
                seen_sites.add(loc)
                c = f"{fconstruct}: index path"
                if isinstance(recv, Term) and recv.op == "deepcopy" and _mentions(recv, "error.path"):
                    run.holds("PATH-OWNERSHIP", c, loc, "indexed object is deepcopy(error.path)", nontrivial=True)
                elif isinstance(recv, Term) and recv.op == "copy" and _mentions(recv, "error.path"):
                    run.violated("PATH-OWNERSHIP", c, loc,
                                 "shallow copy(error.path) shares the accessor list: indexing it mutates the error's own path",
                                 "formatting an error twice yields two different messages")
                elif recv.key() == "error.path":
                    run.violated("PATH-OWNERSHIP", c, loc, "error.path is indexed in place, which appends to the error's own path",
                                 "formatting an error twice yields two different messages")
                elif _mentions(recv, "error.path"):
                    run.undecided("PATH-OWNERSHIP", c, loc, f"indexed object {recv.key()[:50]} derives from error.path in an unrecognised way")
    run.floor("FORMAT-PATH", 12)
    run.floor("FORMAT-DISPATCH", 12)


V_ = "d42/validation/_validator.py"
SV = "d42/substitution/_validator.py"
F_ = "d42/validation/_formatter.py"
MUTANTS = [
    {"name": "validate() remembers the last (schema, value) pair (seeded C03-K)", "rule": "VALIDATE-ENTRY",
     "edits": [("d42/validation/__init__.py", "def validate(schema: GenericSchema, value: Any, **kwargs: Any) -> ValidationResult:\n    return schema.__accept__(_validator, value=value, **kwargs)\n",
                "_last: Any = None\n\n\ndef validate(schema: GenericSchema, value: Any, **kwargs: Any) -> ValidationResult:\n    global _last\n    if _last is not None and _last[0] is schema and _last[1] is value and not kwargs:\n        return ValidationResult(list(_last[2].get_errors()))\n    result = schema.__accept__(_validator, value=value, **kwargs)\n    _last = (schema, value, result)\n    return result\n")]},
    {"name": "float bounds checked on round(value, precision) but reported for the value", "rule": "FACT-AGREE",
     "edits": [(V_, "        if schema.props.min is not Nil:\n            if value < schema.props.min:\n                result.add_error(MinValueValidationError(path, value, schema.props.min))\n\n        if schema.props.max is not Nil:\n            if value > schema.props.max:\n                result.add_error(MaxValueValidationError(path, value, schema.props.max))\n\n        return result\n\n    def visit_str",
                "        comparable = value if schema.props.precision is Nil else round(value, schema.props.precision)\n        if schema.props.min is not Nil:\n            if comparable < schema.props.min:\n                result.add_error(MinValueValidationError(path, value, schema.props.min))\n\n        if schema.props.max is not Nil:\n            if comparable > schema.props.max:\n                result.add_error(MaxValueValidationError(path, value, schema.props.max))\n\n        return result\n\n    def visit_str")]},
    {"name": "alphabet error with fresh PathHolder (F3 reverted)", "rule": "PATH-ARG",
     "edits": [(V_, "AlphabetValidationError(path, value, schema.props.alphabet)", "AlphabetValidationError(PathHolder(), value, schema.props.alphabet)")]},
    {"name": "deepcopy dropped at the dict descent", "rule": "DESCENT-PAIR",
     "edits": [(V_, "                nested_path = deepcopy(path)[key]", "                nested_path = path[key]")]},
    {"name": "self.make_path()[key] at dict descent", "rule": "DESCENT-PAIR",
     "edits": [(V_, "                nested_path = deepcopy(path)[key]", "                nested_path = self.make_path()[key]")]},
    {"name": "path indexed with index, value with real_index", "rule": "DESCENT-PAIR",
     "edits": [(V_, "                nested_path = deepcopy(path)[real_index]", "                nested_path = deepcopy(path)[index]")]},
    {"name": "formatter indexes error.path directly", "rule": "PATH-OWNERSHIP",
     "edits": [(F_, "        path = deepcopy(error.path)\n        formatted_path = self._format_path(path[error.missing_key])",
                "        formatted_path = self._format_path(error.path[error.missing_key])")]},
    {"name": "SubstitutorValidator typed descent passes container path", "rule": "DESCENT-PAIR",
     "edits": [(SV, "                res = type_schema.__accept__(self, value=elem, path=nested_path, **kwargs)",
                "                res = type_schema.__accept__(self, value=elem, path=path, **kwargs)")]},
    {"name": "min error reports max bound", "rule": "FACT-AGREE",
     "edits": [(V_, "                result.add_error(MinValueValidationError(path, value, schema.props.min))\n\n        if schema.props.max is not Nil:\n            if value > schema.props.max:\n                result.add_error(MaxValueValidationError(path, value, schema.props.max))\n\n        return result\n\n    def visit_float",
                "                result.add_error(MinValueValidationError(path, value, schema.props.max))\n\n        if schema.props.max is not Nil:\n            if value > schema.props.max:\n                result.add_error(MaxValueValidationError(path, value, schema.props.max))\n\n        return result\n\n    def visit_float")]},
    {"name": "missing element reports loop index instead of real index", "rule": "FACT-AGREE",
     "edits": [(V_, "MissingElementValidationError(path, value, real_index)", "MissingElementValidationError(path, value, index)")]},
    {"name": "extra key error built with nested path", "rule": "PATH-ARG",
     "edits": [(V_, "                    result.add_error(ExtraKeyValidationError(path, value, key))", "                    result.add_error(ExtraKeyValidationError(deepcopy(path)[key], value, key))")]},
    {"name": "any passes member path as a fresh path", "rule": "DESCENT-PAIR",
     "edits": [(V_, "            res = sch_type.__accept__(self, path=path, value=value, **kwargs)", "            res = sch_type.__accept__(self, value=value, **kwargs)")]},
    {"name": "max-length formatter dispatch swapped", "rule": "FORMAT-DISPATCH",
     "edits": [("d42/validation/errors/__init__.py", "        return formatter.format_max_length_error(self)", "        return formatter.format_min_length_error(self)")]},
    {"name": "typed list: path from enumerate index of another list", "rule": "DESCENT-PAIR",
     "edits": [(V_, "            for index, elem in enumerate(value):\n                nested_path = deepcopy(path)[index]\n                res = type_schema",
                "            for index, elem in enumerate(value):\n                nested_path = deepcopy(path)[len(value) - 1]\n                res = type_schema")]},
    {"name": "neutral: deepcopy split over two statements", "expect": "SILENT",
     "edits": [(V_, "                nested_path = deepcopy(path)[key]", "                copied = deepcopy(path)\n                nested_path = copied[key]")]},
    {"name": "neutral: locals renamed in _validate_elements", "expect": "SILENT",
     "edits": [(V_, "            real_index = start + index\n            try:\n                val = value[real_index]\n            except IndexError:\n                errors.append(MissingElementValidationError(path, value, real_index))\n                break\n            else:\n                nested_path = deepcopy(path)[real_index]",
                "            pos = start + index\n            try:\n                val = value[pos]\n            except IndexError:\n                errors.append(MissingElementValidationError(path, value, pos))\n                break\n            else:\n                nested_path = deepcopy(path)[pos]")]},
    {"name": "neutral: error bound to a local before add_error", "expect": "SILENT",
     "edits": [(V_, "                result.add_error(MinValueValidationError(path, value, schema.props.min))\n\n        if schema.props.max is not Nil:\n            if value > schema.props.max:\n                result.add_error(MaxValueValidationError(path, value, schema.props.max))\n\n        return result\n\n    def visit_float",
                "                err = MinValueValidationError(path, value, schema.props.min)\n                result.add_error(err)\n\n        if schema.props.max is not Nil:\n            if value > schema.props.max:\n                result.add_error(MaxValueValidationError(path, value, schema.props.max))\n\n        return result\n\n    def visit_float")]},
]

MUTANTS += [
    {"name": "formatter uses a shallow copy of the path", "rule": "PATH-OWNERSHIP",
     "edits": [(F_, "        path = deepcopy(error.path)\n        formatted_path = self._format_path(path[error.index])", "        path = copy(error.path)\n        formatted_path = self._format_path(path[error.index])"),
               (F_, "from copy import deepcopy", "from copy import copy, deepcopy")]},
    {"name": "neutral: alias chains unwrapped iteratively (path still forwarded)", "expect": "SILENT",
     "edits": [(V_, "        return schema.props.type.__accept__(self, value=value, path=path, **kwargs)",
                "        target = schema.props.type\n        while isinstance(target, GenericTypeAliasSchema):\n            target = target.props.type\n        return target.__accept__(self, value=value, path=path, **kwargs)")]},
]

# round 7: the seeded changes that were missed on first contact, replayed against the current tree
MUTANTS += [
    {"name": 'seeded C03-N', "rule": 'FORMAT-CHILD',
     "edits": [('d42/validation/_formatter.py', 'from copy import deepcopy\nfrom typing import Any, Sequence\n\nfrom th import PathHolder\n\nfrom ._abstract_formatter import AbstractFormatter\n', 'from copy import deepcopy\nfrom typing import Any, Sequence\n\nfrom niltype import Nil\nfrom th import PathHolder\n\nfrom ._abstract_formatter import AbstractFormatter\n'),
               ('d42/validation/_formatter.py', '    def root(self) -> str:\n        return self._root\n\n    def _format_path(self, path: PathHolder) -> str:\n        return str(path.__class__(self._root, [x for x in path]))\n\n    def _at_path(self, path: PathHolder) -> str:\n', "    def root(self) -> str:\n        return self._root\n\n    def _format_path(self, path: PathHolder, child: Any = Nil) -> str:\n        if child:\n            # render the path of a child (key or index) without touching the error's own path\n            path = deepcopy(path)[child]\n        return str(path.__class__(self._root, [x for x in path]))\n\n    def _at_path(self, path: PathHolder) -> str:\n"),
               ('d42/validation/_formatter.py', '                f"must match pattern {error.pattern!r}, but {error.actual_value!r} given")\n\n    def format_missing_element_error(self, error: MissingElementValidationError) -> str:\n        path = deepcopy(error.path)\n        formatted_path = self._format_path(path[error.index])\n        return f"Element {formatted_path} does not exist"\n\n    def format_extra_element_error(self, error: ExtraElementValidationError) -> str:\n', '                f"must match pattern {error.pattern!r}, but {error.actual_value!r} given")\n\n    def format_missing_element_error(self, error: MissingElementValidationError) -> str:\n        formatted_path = self._format_path(error.path, error.index)\n        return f"Element {formatted_path} does not exist"\n\n    def format_extra_element_error(self, error: ExtraElementValidationError) -> str:\n'),
               ('d42/validation/_formatter.py', '        return f"Value{formatted_path} contains extra element at index {error.index!r}"\n\n    def format_missing_key_error(self, error: MissingKeyValidationError) -> str:\n        path = deepcopy(error.path)\n        formatted_path = self._format_path(path[error.missing_key])\n        return f"Key {formatted_path} does not exist"\n\n    def format_extra_key_error(self, error: ExtraKeyValidationError) -> str:\n', '        return f"Value{formatted_path} contains extra element at index {error.index!r}"\n\n    def format_missing_key_error(self, error: MissingKeyValidationError) -> str:\n        formatted_path = self._format_path(error.path, error.missing_key)\n        return f"Key {formatted_path} does not exist"\n\n    def format_extra_key_error(self, error: ExtraKeyValidationError) -> str:\n')]},
]
