"""C17 - seeded generation is reproducible (whole property modulo CPython's `random`).

(1) SEEDED-ENTROPY: every entropy source in the call-graph closure of `generate` is a module-level
    function of `random` (the generator Random.set_seed seeds) or exempt under (2);
(2) EXEMPT-ENTROPY: uuid4 / utcnow / today only inside visit_uuid4 / visit_datetime / visit_date;
(3) ORDER-TAINT: no set of hash-randomised elements reaches an order-sensitive consumer;
(4) NO-HIDDEN-STATE: generation classes write no attribute outside __init__ that a value path reads.
"""
from __future__ import annotations

import ast
from typing import Any, Dict, List, Optional, Set, Tuple

from ..flow import call_closure, dotted, function_local_imports, parents, resolve_call, self_attr_classes
from ..loader import AnalysisError, ClassInfo, FuncInfo, Module, Program
from ..model import Model
from ..report import Run

ENTROPY_FORBIDDEN_PREFIX = ("secrets.", "time.", "os.urandom", "os.environ", "os.getpid", "os.getenv",
                            "uuid.uuid1", "uuid.uuid4", "uuid.getnode", "random.Random", "random.SystemRandom",
                            "datetime.datetime.now", "datetime.datetime.utcnow", "datetime.datetime.today",
                            "datetime.date.today", "builtins.id", "builtins.hash", "numpy.random",
                            "socket.gethostname", "platform.")
EXEMPT = {"uuid.uuid4": {"visit_uuid4"},
          "datetime.datetime.utcnow": {"visit_datetime"}, "datetime.datetime.now": {"visit_datetime"},
          "datetime.date.today": {"visit_date"}, "datetime.datetime.today": {"visit_datetime", "visit_date"}}
ORDER_INSENSITIVE = {"sorted", "len", "min", "max", "sum", "any", "all", "frozenset", "set", "bool", "isinstance"}
SET_METHODS = {"union", "difference", "intersection", "symmetric_difference", "copy"}


def generation_scope(prog: Program, model: Model) -> List[FuncInfo]:
    roots = [prog.func("d42.generation.generate")]
    classes = [model.visitors["Generator"], prog.cls("generation._random.Random"),
               prog.cls("generation._regex_generator.RegexGenerator")]
    return call_closure(prog, roots, classes)


# ---------------------------------------------------------------------------- expression kinds
def expr_kind(prog: Program, model: Optional[Model], fi: FuncInfo, e: ast.expr, depth: int = 0) -> str:
    """'str' | 'int' | 'seq:str' | 'seq:int' | 'set:str' | 'set:int' | 'unknown' (intraprocedural, annotation-driven)."""
    if depth > 6:
        return "unknown"
    if isinstance(e, ast.Constant):
        if isinstance(e.value, str):
            return "str"
        if isinstance(e.value, bool):
            return "int"
        if isinstance(e.value, int):
            return "int"
        return "unknown"
    if isinstance(e, ast.JoinedStr):
        return "str"
    if isinstance(e, ast.BinOp) and isinstance(e.op, ast.Add):
        a, b = expr_kind(prog, model, fi, e.left, depth + 1), expr_kind(prog, model, fi, e.right, depth + 1)
        if "str" in (a, b) and {a, b} <= {"str", "unknown"}:
            return "str"
        return a if a == b else "unknown"
    if isinstance(e, ast.Attribute):
        d = dotted(prog, fi.module, e, function_local_imports(fi.node))
        if d and d.startswith("string."):
            return "str"
        # schema.props.<prop>
        if isinstance(e.value, ast.Attribute) and e.value.attr == "props" and isinstance(e.value.value, ast.Name) and model:
            for p in fi.node.args.args + fi.node.args.kwonlyargs:
                if p.arg == e.value.value.id and p.annotation is not None:
                    r = prog.resolve_expr(fi.module, p.annotation)
                    if isinstance(r, ClassInfo) and r.name in model.schemas:
                        ann = model.schemas[r.name].prop_annot.get(e.attr, "")
                        return _annot_kind(ann)
        # self.<attr> assigned in __init__
        if isinstance(e.value, ast.Name) and e.value.id == "self" and fi.cls is not None:
            return _self_attr_kind(prog, model, fi.cls, e.attr, depth)
        return "unknown"
    if isinstance(e, ast.Subscript):
        base = expr_kind(prog, model, fi, e.value, depth + 1)
        if isinstance(e.slice, ast.Slice):
            return base
        if base.startswith("dict:"):
            return base[5:]
        if base.startswith("seq:"):
            return base[4:]
        if base == "str":
            return "str"
        return "unknown"
    if isinstance(e, (ast.Tuple, ast.List)) and e.elts and not any(isinstance(x, ast.Starred) for x in e.elts):
        ks = {expr_kind(prog, model, fi, x, depth + 1) for x in e.elts}
        return "seq:" + (ks.pop() if len(ks) == 1 else "unknown")
    if isinstance(e, ast.Call):
        f = e.func
        if isinstance(f, ast.Attribute) and f.attr == "join":
            return "str"
        if isinstance(f, ast.Attribute) and f.attr in ("lower", "upper", "strip", "lstrip", "rstrip", "swapcase", "casefold",
                                                        "capitalize", "title", "replace", "format") \
                and expr_kind(prog, model, fi, f.value, depth + 1) == "str":
            return "str"
        if isinstance(f, ast.Name) and f.id in ("str", "repr", "chr"):
            return "str"
        if isinstance(f, ast.Name) and f.id in ("len", "int", "ord"):
            return "int"
        if isinstance(f, ast.Name) and f.id == "range":
            return "seq:int"
        if isinstance(f, ast.Name) and f.id in ("set", "frozenset") and e.args:
            inner = expr_kind(prog, model, fi, e.args[0], depth + 1)
            return "set:" + elem_of(inner)
        if isinstance(f, ast.Name) and f.id in ("list", "tuple", "sorted") and e.args:
            inner = expr_kind(prog, model, fi, e.args[0], depth + 1)
            return "seq:" + elem_of(inner)
        r = resolve_call(prog, fi, e)
        if isinstance(r, FuncInfo) and r.node.returns is not None:
            return _annot_kind(ast.unparse(r.node.returns))
        return "unknown"
    if isinstance(e, (ast.SetComp,)):
        return "set:" + expr_kind(prog, model, fi, e.elt, depth + 1) if False else "set:" + _comp_elem_kind(prog, model, fi, e, depth)
    if isinstance(e, ast.Set):
        ks = {expr_kind(prog, model, fi, x, depth + 1) for x in e.elts}
        return "set:" + (ks.pop() if len(ks) == 1 else "unknown")
    if isinstance(e, ast.Name):
        for p in list(fi.node.args.posonlyargs) + list(fi.node.args.args) + list(fi.node.args.kwonlyargs):
            if p.arg == e.id and p.annotation is not None:
                return _annot_kind(ast.unparse(p.annotation))
        kinds: Set[str] = set()
        for n in ast.walk(fi.node):
            if isinstance(n, ast.Assign) and any(isinstance(t, ast.Name) and t.id == e.id for t in n.targets):
                kinds.add(expr_kind(prog, model, fi, n.value, depth + 1))
            if isinstance(n, ast.AugAssign) and isinstance(n.target, ast.Name) and n.target.id == e.id:
                kinds.add(expr_kind(prog, model, fi, n.value, depth + 1))
            if isinstance(n, (ast.For, ast.comprehension)) and isinstance(n.target, ast.Name) and n.target.id == e.id:
                kinds.add(elem_of(expr_kind(prog, model, fi, n.iter, depth + 1)))
        kinds.discard("unknown") if len(kinds) > 1 and kinds - {"unknown"} == {"str"} else None
        if len(kinds) == 1:
            return kinds.pop()
        return "unknown"
    return "unknown"


def _comp_elem_kind(prog: Program, model: Optional[Model], fi: FuncInfo, e: Any, depth: int) -> str:
    if isinstance(e.elt, ast.Name) and e.generators and isinstance(e.generators[0].target, ast.Name) \
            and e.generators[0].target.id == e.elt.id:
        return elem_of(expr_kind(prog, model, fi, e.generators[0].iter, depth + 1))
    return expr_kind(prog, model, fi, e.elt, depth + 1)


def elem_of(kind: str) -> str:
    if kind == "str":
        return "str"
    if kind.startswith(("seq:", "set:")):
        return kind[4:]
    return "unknown"


def _annot_kind(text: str) -> str:
    t = text.replace("Nilable[", "").replace("Optional[", "").strip("\"' ")
    if t.startswith("str"):
        return "str"
    if t.startswith("int"):
        return "int"
    for pre in ("List[", "Sequence[", "Tuple[", "Iterable["):
        if t.startswith(pre):
            inner = t[len(pre):]
            return "seq:" + ("str" if inner.startswith("str") else "int" if inner.startswith("int")
                             else "object" if "Schema" in inner else "unknown")
    if t.startswith("Dict["):
        inner = t[5:].split(",")
        if len(inner) >= 2:
            v = inner[1].strip()
            return "dict:" + ("str" if v.startswith("str") else "int" if v.startswith("int") else "unknown")
    if t.startswith("Set["):
        inner = t[4:]
        return "set:" + ("str" if inner.startswith("str") else "int" if inner.startswith("int") else "unknown")
    return "unknown"


def _self_attr_kind(prog: Program, model: Optional[Model], ci: ClassInfo, attr: str, depth: int) -> str:
    init = ci.lookup("__init__")
    if init is None:
        return "unknown"
    for n in ast.walk(init.node):
        if isinstance(n, ast.Assign) and any(isinstance(t, ast.Attribute) and t.attr == attr and isinstance(t.value, ast.Name)
                                             and t.value.id == "self" for t in n.targets):
            v = n.value
            if isinstance(v, ast.Dict):
                ks = {expr_kind(prog, model, init, x, depth + 1) for x in v.values}
                if len(ks) == 1:
                    return "dict:" + ks.pop()
                return "dict:unknown"
            return expr_kind(prog, model, init, v, depth + 1)
    return "unknown"


# ---------------------------------------------------------------------------- set-order taint
def order_taint(prog: Program, model: Optional[Model], fi: FuncInfo) -> List[Tuple[str, ast.AST, str, str]]:
    """Returns (status, node, construct, detail) for every set value reaching an order-sensitive consumer."""
    fn = fi.node
    par = parents(fn)
    tainted: Dict[str, str] = {}          # local name -> elem kind
    taint_def: Dict[str, ast.expr] = {}   # local name -> the set expression it was assigned

    def set_kind(e: ast.expr) -> Optional[str]:
        """elem kind if `e` evaluates to a set, else None."""
        if isinstance(e, ast.Call) and isinstance(e.func, ast.Name) and e.func.id in ("set", "frozenset"):
            if not e.args:
                return "unknown"
            a0 = e.args[0]
            if isinstance(a0, ast.Call) and isinstance(a0.func, ast.Attribute) and a0.func.attr == "keys" and not a0.args:
                return "key"        # set(m.keys()): the keys of a mapping / of a dict schema are the user's (str as a rule)
            return elem_of(expr_kind(prog, model, fi, e.args[0]))
        if isinstance(e, ast.SetComp):
            return _comp_elem_kind(prog, model, fi, e, 0)
        if isinstance(e, ast.Set):
            ks = {expr_kind(prog, model, fi, x) for x in e.elts}
            return ks.pop() if len(ks) == 1 else "unknown"
        if isinstance(e, ast.BinOp) and isinstance(e.op, (ast.Sub, ast.BitOr, ast.BitAnd, ast.BitXor)):
            a, b = set_kind(e.left), set_kind(e.right)
            view = any(isinstance(side, ast.Call) and isinstance(side.func, ast.Attribute) and side.func.attr in ("keys", "items")
                       and not side.args for side in (e.left, e.right))
            if a is not None or b is not None:
                r_ = a if a not in (None, "unknown") else (b or "unknown")
                if r_ == "unknown" and view:
                    return "key"        # a dict view combined with a set: a set of that dict's keys
                return r_
            # dict views support set algebra and yield a set of keys (user keys: typically str)
            for side in (e.left, e.right):
                if isinstance(side, ast.Call) and isinstance(side.func, ast.Attribute) and side.func.attr in ("keys", "items") and not side.args:
                    return "key"
        if isinstance(e, ast.Call) and isinstance(e.func, ast.Attribute) and e.func.attr in SET_METHODS:
            return set_kind(e.func.value)
        if isinstance(e, ast.Name) and e.id in tainted:
            return tainted[e.id]
        if isinstance(e, ast.Name):
            for p in list(fn.args.args) + list(fn.args.kwonlyargs):
                if p.arg == e.id and p.annotation is not None:
                    k = _annot_kind(ast.unparse(p.annotation))
                    if k.startswith("set:"):
                        return k[4:]
        if isinstance(e, ast.Attribute):
            k = expr_kind(prog, model, fi, e)
            if k.startswith("set:"):
                return k[4:]
        return None

    changed = True
    while changed:
        changed = False
        for n in ast.walk(fn):
            if isinstance(n, ast.Assign) and len(n.targets) == 1 and isinstance(n.targets[0], ast.Name):
                k = set_kind(n.value)
                if k is not None and tainted.get(n.targets[0].id) != k:
                    tainted[n.targets[0].id] = k
                    taint_def[n.targets[0].id] = n.value
                    changed = True

    out: List[Tuple[str, ast.AST, str, str]] = []
    ordinal: Dict[str, int] = {}

    local_names = {a.arg for a in list(fn.args.args) + list(fn.args.kwonlyargs) + list(fn.args.posonlyargs)} | {
        t.id for n_ in ast.walk(fn) for t in ast.walk(n_) if isinstance(t, ast.Name) and isinstance(t.ctx, ast.Store)}

    def norm_src(src: ast.expr) -> str:
        # the finding is the set expression and its consumer, wherever a refactoring moves them: locals are anonymised
        import copy

        class _N(ast.NodeTransformer):
            depth = 0

            def visit_Name(self, n_: ast.Name) -> ast.AST:
                if n_.id in taint_def and self.depth < 3:
                    # a set held in a local is named by the expression that built it
                    self.depth += 1
                    r_ = self.visit(copy.deepcopy(taint_def[n_.id]))
                    self.depth -= 1
                    return r_
                return ast.copy_location(ast.Name(id="_", ctx=n_.ctx), n_) if n_.id in local_names and n_.id != "self" else n_
        return ast.unparse(_N().visit(copy.deepcopy(src))).replace("frozenset(", "set(")[:90]

    def report(node: ast.AST, sink: str, k: str, src: ast.expr) -> None:
        owner = fi.cls.name if getattr(fi, "cls", None) is not None else fi.module.name
        base = f"{owner}: `{norm_src(src)}` -> {sink}"
        ordinal[base] = ordinal.get(base, 0) + 1
        construct = base + (f" #{ordinal[base]}" if ordinal[base] > 1 else "")
        k = k if k else "unknown"
        if k in ("str", "bytes", "object", "key"):
            out.append(("VIOLATED", node, construct,
                        f"`{ast.unparse(src)[:90]}`: a set of {k} elements (hash-randomised iteration order) reaches "
                        f"the order-sensitive consumer `{sink}`"))
        elif k in ("int",):
            out.append(("NOTE", node, construct, "set of ints: iteration order is the same in every interpreter"))
        else:
            out.append(("UNDECIDED", node, construct, "set with unknown element kind reaches an order-sensitive consumer"))

    for n in ast.walk(fn):
        # S consumed by an iteration construct
        iters: List[Tuple[ast.expr, ast.AST, str]] = []
        if isinstance(n, ast.For):
            iters.append((n.iter, n, "for"))
        if isinstance(n, (ast.ListComp, ast.GeneratorExp, ast.DictComp)):
            for g in n.generators:
                iters.append((g.iter, n, "comprehension"))
        for it, holder, how in iters:
            k = set_kind(it)
            if k is None:
                continue
            if how == "for":
                body_effect = any(isinstance(x, (ast.AugAssign, ast.Return, ast.Yield)) or
                                  (isinstance(x, ast.Call) and isinstance(x.func, ast.Attribute)
                                   and x.func.attr in ("append", "extend", "insert", "write", "random_choice", "random_int",
                                                       "setdefault", "update", "appendleft"))
                                  # d[k] = v inside the loop: insertion order of a dict is iteration order
                                  or (isinstance(x, (ast.Assign, ast.AnnAssign)) and any(
                                      isinstance(t, ast.Subscript) for t in (x.targets if isinstance(x, ast.Assign) else [x.target])))
                                  for st in holder.body for x in ast.walk(st))  # type: ignore
                if body_effect:
                    report(holder, "for", k, it)
                else:
                    out.append(("NOTE", holder, f"{fi.qualname}: for({ast.unparse(it)[:60]})",
                                "loop over a set whose body has no order-dependent effect"))
            else:
                # comprehension result order matters unless consumed by an order-insensitive function
                p = par.get(holder)
                if isinstance(p, ast.Call) and isinstance(p.func, ast.Name) and p.func.id in ORDER_INSENSITIVE:
                    continue
                if isinstance(holder, ast.GeneratorExp) and isinstance(p, ast.Call) and isinstance(p.func, ast.Name) \
                        and p.func.id in ORDER_INSENSITIVE:
                    continue
                report(holder, "comprehension", k, it)
        if isinstance(n, ast.Call):
            f = n.func
            # "".join(S), list(S), tuple(S), choice(S), next(iter(S)), S.pop()
            if isinstance(f, ast.Attribute) and f.attr == "join" and n.args:
                k = set_kind(n.args[0])
                if k is not None:
                    report(n, "str.join", k, n.args[0])
            elif isinstance(f, ast.Name) and f.id in ("list", "tuple", "iter", "enumerate", "next", "zip") and n.args:
                k = set_kind(n.args[0])
                if k is not None:
                    p = par.get(n)
                    if isinstance(p, ast.Call) and isinstance(p.func, ast.Name) and p.func.id in ORDER_INSENSITIVE:
                        continue
                    report(n, f.id, k, n.args[0])
            elif isinstance(f, ast.Attribute) and f.attr in ("random_choice", "choice", "sample", "shuffle_list", "choices") and n.args:
                k = set_kind(n.args[0])
                if k is not None:
                    report(n, f.attr, k, n.args[0])
            elif isinstance(f, ast.Attribute) and f.attr == "pop" and not n.args:
                k = set_kind(f.value)
                if k is not None:
                    report(n, "set.pop", k, f.value)
        if isinstance(n, ast.Starred):
            k = set_kind(n.value)
            if k is not None:
                report(n, "star-unpack", k, n.value)
    return out


# ---------------------------------------------------------------------------- entropy scan
def entropy_scan(prog: Program, funcs: List[FuncInfo]) -> List[Tuple[FuncInfo, ast.AST, str, bool]]:
    out = []
    for fi in funcs:
        li = function_local_imports(fi.node)
        par = parents(fi.node)
        for n in ast.walk(fi.node):
            target: Optional[ast.expr] = None
            if isinstance(n, ast.Call):
                target = n.func
            elif isinstance(n, (ast.Attribute, ast.Name)) and not isinstance(par.get(n), (ast.Call, ast.Attribute)):
                target = n
            elif isinstance(n, (ast.Attribute, ast.Name)) and isinstance(par.get(n), ast.Call) and par[n].func is not n:  # type: ignore
                target = n   # passed as an argument (e.g. key=random.random)
            if target is None:
                continue
            d = dotted(prog, fi.module, target, li)
            if d is None:
                continue
            used = not isinstance(par.get(n), ast.Expr)
            out.append((fi, n, d, used))
    return out


def check(run: Run, prog: Program, model: Model, tier: str) -> None:
    run.explanation = (
        "Entropy-source table applied to every resolved external reference in the call-graph closure of "
        "d42.generation.generate (Generator, Random, RegexGenerator and what they call); set-order taint "
        "from set-valued expressions with hash-randomised element kinds to order-sensitive consumers; "
        "hidden-state rule on the generation classes. With CPython's documented random.seed determinism "
        "this decides the property for all seeds, schema sequences and hash seeds, except inside the "
        "property's own uuid4/datetime/date exemption.")
    run.explanation += " A subscript store inside a loop over a set is an order-sensitive consumer. ORDER-TAINT findings are keyed by owner class, normalised set expression and consumer, so that moving the expression does not change the finding's identity."
    run.explanation += " SET-SEED is decided per returning path of Random.set_seed: random.seed is called with the caller's seed unless a fact on the path says the seed is the no-seed sentinel (a truthiness test sends 0, '', False to OS entropy)."
    run.explanation += ' NO-HIDDEN-STATE includes shared_global_state: a module-level mutable object bound to an instance attribute without a copy and mutated through it. The members of set(m.keys()) are keys (hash-randomised order).'
    run.rule_text = ("one obligation per external reference in scope (classified by the entropy table), per "
                     "set-valued expression reaching a consumer, per attribute write in a generation class; "
                     "non-trivial = needed callee resolution through self attributes or element-kind inference")
    from ..entry import entry_transparent
    entry_transparent(run, prog, model, "generate", "GENERATE-ENTRY")
    run.trusted += ["random.seed(k) makes the module-level generator deterministic (CPython)",
                    "iteration order of sets of str/bytes/objects depends on PYTHONHASHSEED or addresses; sets of small ints do not"]
    run.assumptions += ["uuid4/datetime/date without fixed value are exempt by the property statement"]
    funcs = generation_scope(prog, model)
    run.analysed["scope_functions"] = len(funcs)
    if len(funcs) < 30:
        raise AnalysisError(f"generation scope has only {len(funcs)} functions")

    # which generator does set_seed seed?  the module-level one (random.seed(arg)) or a private module/instance one
    rnd = prog.cls("generation._random.Random")
    ss = rnd.methods.get("set_seed")
    if ss is None:
        raise AnalysisError("Random.set_seed not found")
    params = [a.arg for a in ss.node.args.args[1:]]
    seeded: Optional[str] = None          # "module" | name of the private generator variable/attribute
    for n in ast.walk(ss.node):
        if isinstance(n, ast.Call) and n.args and isinstance(n.args[0], ast.Name) and n.args[0].id in params:
            d = dotted(prog, ss.module, n.func, function_local_imports(ss.node))
            if d == "random.seed":
                seeded = "module"
            elif isinstance(n.func, ast.Attribute) and n.func.attr == "seed":
                base = n.func.value
                name = base.id if isinstance(base, ast.Name) else (f"self.{base.attr}" if isinstance(base, ast.Attribute) else None)
                if name is not None and _is_private_rng(prog, ss, base):
                    seeded = name
    semantic_bad: List[str] = []
    if True:
        # evaluate set_seed: on EVERY returning path the generator is seeded with the argument itself (a path that
        # re-seeds from the OS - random.seed() without the argument, say for a falsy seed - is not reproducible)
        from ..engine import Interp
        from ..values import Sym as _Sym
        it_ = Interp(prog, model, unroll=1)
        seed_sym = _Sym("seed", None, ("param", "seed"))

        def run_s(i: Any) -> Any:
            inst = i._construct(rnd, [], {}, None)
            return i.call_function(ss, [seed_sym], {}, self_val=inst)
        try:
            ps_ = it_.run_paths(run_s)
        except Exception:
            ps_ = []
        rets_ = [p_ for p_ in ps_ if p_.outcome == "return"]
        def _module_seed(e_: Any) -> bool:
            if not (e_.kind == "call" and e_.data.get("callee") == "random.seed" and e_.data.get("args")
                    and e_.data["args"][0].key() == "seed"):
                return False
            fn_ = getattr(e_.node, "func", None)
            if isinstance(fn_, ast.Attribute):
                # `<x>.seed(arg)`: only the module itself counts (a generator OBJECT has a seed method of the same name)
                return dotted(prog, ss.module, fn_, function_local_imports(ss.node)) == "random.seed"
            return True
        if seeded is None and rets_ and all(any(_module_seed(e_) for e_ in p_.events) for p_ in rets_):
            seeded = "module"
        for p_ in rets_:
            seeds_ = [e_ for e_ in p_.events if e_.kind == "call" and isinstance(e_.data.get("callee"), str)
                      and e_.data["callee"].endswith(".seed")]
            for e_ in seeds_:
                a_ = e_.data.get("args") or []
                if not a_ or a_[0].key() != "seed":
                    cond_ = [("" if b else "not ") + k for k, _, b in p_.facts][-1:]
                    semantic_bad.append(f"a path calls {e_.data['callee']}({', '.join(x.key()[:20] for x in a_)}) instead of seeding with the argument"
                                        + (f" (when {cond_[0][:60]})" if cond_ else ""))
            if seeded == "module" and not any(_module_seed(e_) for e_ in p_.events):
                cond_ = [("" if b else "not ") + k for k, _, b in p_.facts][-1:]
                semantic_bad.append("a path returns without seeding the generator with the argument" + (f" (when {cond_[0][:60]})" if cond_ else ""))
    if semantic_bad:
        run.violated("SET-SEED", "Random.set_seed: every path", ss.loc, "; ".join(sorted(set(semantic_bad)))[:300],
                     witness="Random().set_seed(0) twice gives two different sequences")
    if seeded is None:
        run.violated("SET-SEED", "Random.set_seed", ss.loc,
                     "set_seed does not seed a generator with its argument (neither random.seed(arg) nor <private Random>.seed(arg))",
                     witness="Random().set_seed(1); a = fake(schema.int); Random().set_seed(1); b = fake(schema.int); a != b")
    else:
        run.holds("SET-SEED", "Random.set_seed", ss.loc,
                  "seeds " + ("the module-level generator (random.seed)" if seeded == "module" else f"the private generator `{seeded}`"),
                  nontrivial=True)
    run.floor("SET-SEED", 1)

    # (1)+(2) entropy: every draw must come from the seeded generator
    n_random = 0
    for fi, node, d, used in entropy_scan(prog, funcs):
        site = f"{fi.module.path}:{getattr(node, 'lineno', 0)}"
        construct = f"{fi.qualname}: {d}"
        if d.startswith("random.") and not d.startswith(("random.Random", "random.SystemRandom")):
            if d == "random.seed":
                continue
            n_random += 1
            if seeded in (None, "module"):
                layering = fi.cls is None or fi.cls.name != "Random"
                run.holds("SEEDED-ENTROPY", construct, site, "module-level random.* function: the generator set_seed seeds",
                          nontrivial=layering)
                if layering:
                    run.note("LAYERING", construct, site, "direct random.* call outside class Random (still seeded)")
            elif used:
                run.violated("SEEDED-ENTROPY", construct, site,
                             f"draws from the module-level generator, but set_seed seeds the private generator `{seeded}`",
                             witness="two runs after Random().set_seed(k) differ wherever this draw is reached")
            continue
        if d.startswith("random.Random") and seeded not in (None, "module") and fi.name in ("__init__",) + tuple():
            continue
        if d.startswith(("random.Random", "random.SystemRandom")):
            # creation of a generator object: fine iff it is THE seeded private generator (created once at import / __init__)
            if seeded not in (None, "module") and d.startswith("random.Random") and fi.name == "__init__":
                continue
            run.violated("SEEDED-ENTROPY", construct, site,
                         f"{d}() creates a generator that set_seed does not seed",
                         witness="values drawn from it are not a function of the seed")
            continue
        if any(d == p or d.startswith(p) for p in ENTROPY_FORBIDDEN_PREFIX):
            ok_in = EXEMPT.get(d)
            if ok_in and fi.name in ok_in:
                run.holds("EXEMPT-ENTROPY", construct, site, f"{d} inside {fi.name}: the property's own exemption", nontrivial=True)
            elif not used:
                run.note("SEEDED-ENTROPY", construct, site, "entropy read whose value is discarded")
            else:
                run.violated("SEEDED-ENTROPY", construct, site,
                             f"{d} is not drawn from the seeded generator and {fi.name} is not an exempt method",
                             witness=f"two runs after Random().set_seed(k) differ wherever {fi.name} is reached")
    # draws through a private generator object
    n_priv = 0
    for fi in funcs:
        for n in ast.walk(fi.node):
            if isinstance(n, ast.Call) and isinstance(n.func, ast.Attribute) and n.func.attr in DRAWS:
                base = n.func.value
                if _is_private_rng(prog, fi, base):
                    name = base.id if isinstance(base, ast.Name) else f"self.{base.attr}"  # type: ignore
                    site = f"{fi.module.path}:{n.lineno}"
                    construct = f"{fi.qualname}: {name}.{n.func.attr}"
                    n_priv += 1
                    if name == seeded:
                        run.holds("SEEDED-ENTROPY", construct, site, f"draw from the private generator `{name}` that set_seed seeds", nontrivial=True)
                    else:
                        run.violated("SEEDED-ENTROPY", construct, site,
                                     f"draw from `{name}`, which is not the generator set_seed seeds ({seeded})",
                                     witness="values drawn from it are not a function of the seed")
    run.floor("SEEDED-ENTROPY", 3)
    run.floor("EXEMPT-ENTROPY", 3)

    # (3) order taint
    n_sets = 0
    for fi in funcs:
        for status, node, construct, detail in order_taint(prog, model, fi):
            n_sets += 1
            site = f"{fi.module.path}:{getattr(node, 'lineno', 0)}"
            if status == "VIOLATED":
                run.violated("ORDER-TAINT", construct, site, detail,
                             witness="same seed, two PYTHONHASHSEED values: the ordered result differs, so does the draw")
            elif status == "NOTE":
                run.note("ORDER-TAINT", construct, site, detail)
            else:
                run.undecided("ORDER-TAINT", construct, site, detail)
    # the generator iterates key tables / element lists in the order the declaration layer stored them: a set-ordered
    # construction there is just as visible.  Scope: everything that builds schemas (declaration, substitution, utils).
    extra_scope = [f for q, f in prog.functions.items() if q.startswith(("d42.declaration.", "d42.substitution._substitutor", "d42.utils."))
                   and f.qualname not in {x.qualname for x in funcs}]
    for fi in extra_scope:
        for status, node, construct, detail in order_taint(prog, model, fi):
            site = f"{fi.module.path}:{getattr(node, 'lineno', 0)}"
            if status == "VIOLATED":
                run.violated("ORDER-TAINT", construct, site, detail + " (the stored order is the order generation draws in)",
                             witness="same seed, two PYTHONHASHSEED values: members are generated in a different order, so every value shifts")
            elif status == "NOTE":
                run.note("ORDER-TAINT", construct, site, detail)
            else:
                run.undecided("ORDER-TAINT", construct, site, detail)
    run.analysed["schema_building_functions"] = len(extra_scope)
    # id()/hash() reaching output is covered by the entropy table (builtins.id / builtins.hash)

    # (4) hidden state
    for ci in (model.visitors["Generator"], rnd, prog.cls("generation._regex_generator.RegexGenerator")):
        hidden_state(run, prog, ci, "NO-HIDDEN-STATE")
        shared_global_state(run, prog, ci, "NO-HIDDEN-STATE")
    run.floor("NO-HIDDEN-STATE", 3)

    # positive fixture: the rules must fire on a tiny synthetic module
    fixture_selftest(run)


DRAWS = {"randint", "randrange", "choice", "choices", "uniform", "random", "shuffle", "sample", "getrandbits", "gauss"}


def _is_private_rng(prog: Program, fi: FuncInfo, base: ast.expr) -> bool:
    """Is `base` a module-level name / self attribute bound to random.Random(...)?"""
    if isinstance(base, ast.Name):
        b = fi.module.bindings.get(base.id)
        if b is not None and b.kind == "assign" and isinstance(b.node, ast.Call):
            return dotted(prog, fi.module, b.node.func, {}) in ("random.Random",)
        return False
    if isinstance(base, ast.Attribute) and isinstance(base.value, ast.Name) and base.value.id == "self" and fi.cls is not None:
        init = fi.cls.lookup("__init__")
        if init is not None:
            for n in ast.walk(init.node):
                if isinstance(n, ast.Assign) and any(isinstance(t, ast.Attribute) and t.attr == base.attr for t in n.targets) \
                        and isinstance(n.value, ast.Call) and dotted(prog, init.module, n.value.func, {}) == "random.Random":
                    return True
    return False


_MUTATORS = ("append", "extend", "insert", "pop", "remove", "clear", "update", "setdefault", "add", "discard", "popitem",
             "sort", "reverse", "__setitem__", "__delitem__")


def shared_global_state(run: Run, prog: Program, ci: ClassInfo, rule: str) -> None:
    """A module-level mutable object (dict / list / set display or constructor call) bound to an instance attribute WITHOUT
    a copy and mutated through that attribute is state shared by every instance - also by the module-level singleton the
    package generates with: constructing a second object changes what the first one draws from."""
    found = 0
    for c in ci.mro():
        if not c.qualname.startswith("d42."):
            continue
        aliases: Dict[str, Tuple[str, ast.AST, FuncInfo]] = {}
        for m in c.methods.values():
            for n in ast.walk(m.node):
                if isinstance(n, ast.Assign) and isinstance(n.value, ast.Name) and n.value.id in m.module.bindings:
                    b = m.module.bindings[n.value.id]
                    val = b.node if b.kind == "assign" else None
                    mutable = isinstance(val, (ast.Dict, ast.List, ast.Set, ast.DictComp, ast.ListComp, ast.SetComp)) or (
                        isinstance(val, ast.Call) and isinstance(val.func, ast.Name) and val.func.id in ("dict", "list", "set", "defaultdict", "OrderedDict"))
                    if not mutable:
                        continue
                    for t in n.targets:
                        if isinstance(t, ast.Attribute) and isinstance(t.value, ast.Name) and t.value.id == "self":
                            aliases[t.attr] = (n.value.id, n, m)
        for attr, (gname, node, m0) in aliases.items():
            for m in c.methods.values():
                par = parents(m.node)
                for n in ast.walk(m.node):
                    if isinstance(n, ast.Attribute) and n.attr == attr and isinstance(n.value, ast.Name) and n.value.id == "self":
                        p = par.get(n)
                        mut = (isinstance(p, ast.Attribute) and p.attr in _MUTATORS and isinstance(par.get(p), ast.Call)) or \
                              (isinstance(p, ast.Subscript) and isinstance(p.ctx, (ast.Store, ast.Del))) or \
                              (isinstance(p, ast.AugAssign) and p.target is n)
                        if mut:
                            found += 1
                            run.violated(rule, f"{c.name}.{m.name}: self.{attr} is the module's {gname}", f"{m.module.path}:{n.lineno}",
                                         f"self.{attr} is bound to the module-level mutable object `{gname}` without a copy ({m0.name}, line "
                                         f"{getattr(node, 'lineno', 0)}) and mutated here: every instance - the package's singleton too - shares it",
                                         witness="constructing another RegexGenerator(random, alphabet={...}) changes what fake() draws for the same seed")
    if not found:
        run.holds(rule, f"{ci.name}: module-level mutable objects", ci.loc, "none is bound to an instance attribute and mutated through it", nontrivial=False)


def hidden_state(run: Run, prog: Program, ci: ClassInfo, rule: str) -> None:
    """An attribute (or global) written outside __init__ AND readable before being re-written in a later call
    is the shape by which an earlier call changes a later one.  Write-only attributes, and attributes always
    written before they are read inside one non-re-entrant call, are unobservable (NOTE)."""
    writes: Dict[str, List[Tuple[FuncInfo, ast.AST, bool]]] = {}
    reads: Dict[str, List[Tuple[FuncInfo, ast.AST]]] = {}
    for c in ci.mro():
        if not c.qualname.startswith("d42."):
            continue
        for m in c.methods.values():
            par = parents(m.node)
            for n in ast.walk(m.node):
                if isinstance(n, ast.Attribute) and isinstance(n.value, ast.Name) and n.value.id == "self":
                    p = par.get(n)
                    is_store = isinstance(n.ctx, (ast.Store, ast.Del))
                    mut = False
                    if isinstance(p, ast.Attribute) and isinstance(par.get(p), ast.Call) and par[p].func is p and \
                            p.attr in ("append", "extend", "insert", "pop", "remove", "clear", "update", "setdefault",
                                       "add", "discard", "popitem", "sort", "reverse"):
                        mut = True
                    if isinstance(p, ast.Subscript) and isinstance(p.ctx, (ast.Store, ast.Del)):
                        mut = True
                    aug = isinstance(p, ast.AugAssign) and p.target is n
                    if (is_store or mut) and m.name not in ("__init__",):
                        writes.setdefault(n.attr, []).append((m, n, mut or aug))
                        if mut or aug:
                            reads.setdefault(n.attr, []).append((m, n))
                    elif not is_store:
                        reads.setdefault(n.attr, []).append((m, n))
    for m in ci.methods.values():
        for n in ast.walk(m.node):
            if isinstance(n, ast.Global):
                run.violated(rule, f"{ci.name}.{m.name}: global {','.join(n.names)}", f"{m.module.path}:{n.lineno}",
                             "module global written from a visitor method: an earlier call can change a later one")
    if not writes:
        run.holds(rule, f"{ci.name}: attribute writes outside __init__", ci.loc,
                  "no attribute store / in-place mutation of self.* outside __init__", nontrivial=False)
        return
    for attr, ws in writes.items():
        writer_methods = {m.qualname for m, _, _ in ws}
        for m, n, rw in ws:
            construct = f"{ci.name}.{m.name}: self.{attr}"
            site = f"{m.module.path}:{n.lineno}"
            readers = [(r, rn) for r, rn in reads.get(attr, []) if r.name != "__init__"]
            if not readers:
                run.note(rule, construct, site, "write-only attribute (unobservable)")
                continue
            observable = None
            for r, rn in readers:
                if rw and rn is n:
                    observable = f"read-modify-write in {r.name}"
                    break
                if r.qualname not in writer_methods:
                    observable = f"read by {r.name}, which does not write it first"
                    break
                first_write = min(w.lineno for wm, w, _ in ws if wm.qualname == r.qualname)
                if rn.lineno < first_write:
                    observable = f"{r.name} reads it (line {rn.lineno}) before writing it"
                    break
                # re-entrancy: a member visit between the write and the read may overwrite it
                for x in ast.walk(r.node):
                    if isinstance(x, ast.Call) and isinstance(x.func, ast.Attribute) and x.func.attr in ("__accept__",) \
                            and first_write <= x.lineno <= rn.lineno:
                        observable = f"{r.name} reads it after a nested __accept__ call that re-enters the visitor"
                        break
                if observable:
                    break
            if observable:
                run.violated(rule, construct, site,
                             f"self.{attr} is written outside __init__ and {observable}: state carried between calls of a shared singleton",
                             witness="the same operation gives different results depending on earlier / nested calls")
            else:
                run.note(rule, construct, site, "always written before it is read within one non-re-entrant call (unobservable)")


FIXTURE = '''
import random, secrets, time
class G:
    def __init__(self): self._n = 0
    def draw(self, alphabet: str) -> str:
        self._n += 1
        pool = "".join(set(alphabet) - set("a"))
        return secrets.choice(pool) + str(self._n) + str(time.time())
'''


def fixture_selftest(run: Run) -> None:
    """Zero-expected rules must still be able to fire: analyse a synthetic module on every run."""
    import os
    import tempfile
    import shutil
    d = tempfile.mkdtemp(prefix="sa_fixture_")
    try:
        os.makedirs(os.path.join(d, "d42"))
        with open(os.path.join(d, "d42", "__init__.py"), "w") as f:
            f.write(FIXTURE)
        p = Program(d)
        fi = p.func("d42.G.draw")
        hits = entropy_scan(p, [fi])
        bad = [x for x in hits if any(x[2].startswith(q) for q in ENTROPY_FORBIDDEN_PREFIX)]
        taints = [t for t in order_taint(p, None, fi) if t[0] == "VIOLATED"]
        sub = Run("C17", "fixture")
        hidden_state(sub, p, p.cls("d42.G"), "NO-HIDDEN-STATE")
        hs = [o for o in sub.obs if o.status == "VIOLATED"]
        if len(bad) < 2 or not taints or not hs:
            raise AnalysisError(f"positive fixture not flagged: entropy={len(bad)} taint={len(taints)} state={len(hs)}")
        run.analysed["positive_fixture"] = {"entropy_hits": len(bad), "taint_hits": len(taints), "state_hits": len(hs)}
    finally:
        shutil.rmtree(d, ignore_errors=True)


R = "d42/generation/_random.py"
G = "d42/generation/_generator.py"
X = "d42/generation/_regex_generator.py"
MUTANTS = [
    {"name": "merged key table filled by a loop over a set union of the keys (seeded C17-J)", "rule": "ORDER-TAINT",
     "edits": [("d42/declaration/types/_dict_schema.py", "        merged_keys = {**self_keys, **other_keys}", "        merged_keys = {}\n        for key in self_keys.keys() | other_keys.keys():\n            merged_keys[key] = other_keys[key] if (key in other_keys) else self_keys[key]")]},
    {"name": "random_choice via secrets.choice", "rule": "SEEDED-ENTROPY",
     "edits": [(R, "import random\n", "import random\nimport secrets\n"),
               (R, "        return random.choice(sequence)", "        return secrets.choice(sequence)")]},
    {"name": "set_seed seeds a private random.Random()", "rule": "SET-SEED",
     "edits": [(R, "        random.seed(seed)", "        self._rng = random.Random(seed)")]},
    {"name": "random_int draws from a private SystemRandom", "rule": "SEEDED-ENTROPY",
     "edits": [(R, "        return random.randint(start, end)", "        return random.SystemRandom().randint(start, end)")]},
    {"name": "set(alphabet) joined in visit_str", "rule": "ORDER-TAINT",
     "edits": [(G, "            alphabet = schema.props.alphabet\n", "            alphabet = \"\".join(set(schema.props.alphabet))\n")]},
    {"name": "date offset from the clock", "rule": "SEEDED-ENTROPY",
     "edits": [(G, "from uuid import UUID, uuid4\n", "from uuid import UUID, uuid4\nimport time\n"),
               (G, "        return self._random.random_choice((True, False))", "        return bool(int(time.time()) % 2)")]},
    {"name": "uuid4 used for str generation", "rule": "SEEDED-ENTROPY",
     "edits": [(G, "        return self._random.random_str(length, alphabet)\n\n    def visit_list",
                "        return str(uuid4())[:length] if alphabet is STR_ALPHABET else self._random.random_str(length, alphabet)\n\n    def visit_list")]},
    {"name": "regex generator memoises per pattern", "rule": "NO-HIDDEN-STATE",
     "edits": [(X, "        parsed = sre.parse(pattern)  # type: Any\n        return self._generate_pattern(parsed)",
                "        if pattern in self._alphabet:\n            return self._alphabet[pattern]\n        parsed = sre.parse(pattern)  # type: Any\n        self._alphabet[pattern] = self._generate_pattern(parsed)\n        return self._alphabet[pattern]")]},
    {"name": "any alternative picked by iterating a set of schemas", "rule": "ORDER-TAINT",
     "edits": [(G, "        chosen = self._random.random_choice(schema.props.types)", "        chosen = self._random.random_choice(list(set(schema.props.types)))")]},
    {"name": "neutral: sorted set difference", "expect": "SILENT",
     "edits": [(X, "letters = \"\".join(set(self._alphabet[\"letters\"]) - set(exclude_letters))",
                "letters = \"\".join(sorted(set(self._alphabet[\"letters\"]) - set(exclude_letters)))")]},
    {"name": "neutral: direct random.randint in generator", "expect": "SILENT",
     "edits": [(G, "from uuid import UUID, uuid4\n", "from uuid import UUID, uuid4\nimport random\n"),
               (G, "        days = self._random.random_int(-100_000, +100_000)", "        days = random.randint(-100_000, +100_000)")]},
    {"name": "neutral: membership test on a set of chars", "expect": "SILENT",
     "edits": [(G, "        if schema.props.alphabet is not Nil:\n            alphabet = schema.props.alphabet\n",
                "        if schema.props.alphabet is not Nil:\n            alphabet = schema.props.alphabet\n            assert len(set(alphabet)) >= 0\n")]},
]

MUTANTS += [
    {"name": "merged key table ordered through a set of keys", "rule": "ORDER-TAINT",
     "edits": [("d42/declaration/types/_dict_schema.py", "        merged_keys = {**self_keys, **other_keys}", "        merged_keys = {key: self_keys[key] for key in self_keys.keys() - other_keys.keys()}\n        merged_keys.update(other_keys)")]},
]

# round 7: the seeded changes that were missed on first contact, replayed against the current tree
MUTANTS += [
    {"name": 'seeded C17-N', "rule": 'SET-SEED',
     "edits": [('d42/generation/_random.py', '\n\nclass Random:\n    def set_seed(self, seed: SeedType) -> None:\n        random.seed(seed)\n\n    def random_int(self, start: int, end: int) -> int:\n', '\n\nclass Random:\n    def set_seed(self, seed: Nilable[SeedType] = Nil) -> None:\n        """\n        Seed the generator: the values generated afterwards are a function of the seed.\n\n        Called without a seed, the generator is re-initialised from the OS entropy source\n        (e.g. to leave the reproducible mode at the end of a test).\n        """\n        if not seed:\n            # Nil must not reach random.seed(): it is not one of the supported seed types\n            random.seed()\n            return\n        random.seed(seed)\n\n    def random_int(self, start: int, end: int) -> int:\n')]},
]

# round 8: the seeded changes that were missed on first contact, replayed against the current tree
MUTANTS += [
    {"name": 'seeded C17-O', "rule": 'NO-HIDDEN-STATE',
     "edits": [('d42/generation/_regex_generator.py', '\n__all__ = ("RegexGenerator",)\n\n\nclass RegexGenerator:\n    def __init__(self, random: Random, *,\n                 alphabet: Optional[Dict[str, str]] = None,\n                 max_repeat: int = 32) -> None:\n        self._random = random\n        self._alphabet = {\n            "letters": string.ascii_letters + string.digits + string.punctuation + " ",\n            "digits": string.digits,\n            "word": string.ascii_letters + string.digits + "_",\n        }\n        if alphabet:\n            self._alphabet.update(alphabet)\n        self._max_repeat = max_repeat\n', '\n__all__ = ("RegexGenerator",)\n\nDEFAULT_ALPHABET: Dict[str, str] = {\n    "letters": string.ascii_letters + string.digits + string.punctuation + " ",\n    "digits": string.digits,\n    "word": string.ascii_letters + string.digits + "_",\n}\n\n\nclass RegexGenerator:\n    def __init__(self, random: Random, *,\n                 alphabet: Optional[Dict[str, str]] = None,\n                 max_repeat: int = 32) -> None:\n        self._random = random\n        self._alphabet = DEFAULT_ALPHABET\n        if alphabet:\n            self._alphabet.update(alphabet)\n        self._max_repeat = max_repeat\n')]},
    {"name": 'seeded C17-P', "rule": 'ORDER-TAINT',
     "edits": [('d42/utils/_make_required.py', '\n    if schema.props.keys is Nil:\n        return schema\n    else:\n        updated_keys = {}\n        for key, (val, is_optional) in props_keys.items():\n            updated_keys[key] = (val, False if (key in keys) else is_optional)\n        return schema.__class__(schema.props.update(keys=updated_keys))\n', '\n    if schema.props.keys is Nil:\n        return schema\n\n    updated_keys = {key: (props_keys[key][0], False) for key in keys}\n    for key, declared in props_keys.items():\n        updated_keys.setdefault(key, declared)\n    return schema.__class__(schema.props.update(keys=updated_keys))\n')]},
]
