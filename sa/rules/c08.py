"""C08 - validation is total: any Python value yields a result, and failing is reporting.

TOTAL (every partial operation on every validator path is total for the operand kinds the guards on that path
establish, or is caught), FORMAT-TOTAL (formatter methods are total on the kinds each error class is built
with and render a non-empty message), OR-FAIL-SHAPE (validate_or_fail).
"""
from __future__ import annotations

import ast
import re
from typing import Any, Dict, List, Optional, Set, Tuple

from ..engine import Interp, kwargs_spread
from ..interp import Event, Path
from ..loader import AnalysisError, ClassInfo, FuncInfo, Program
from ..model import Model
from ..partial import RENDER_SAFE, escapes, kind_on_path
from ..report import Run
from ..values import (NIL, Const, ExcV, Inst, ListV, StrV, Sym, Term, TupleV, V)
from ..visits import configs_for, run_visit, validator_ctx

VALIDATORS = ("Validator", "SubstitutorValidator")


def check(run: Run, prog: Program, model: Model, tier: str) -> None:
    run.explanation = (
        "Every path of every Validator/SubstitutorValidator visit method is enumerated under each prop-set, list "
        "shape and key table with a symbolic value of unknown kind. Every partial operation on such a path "
        "(ordering comparisons, len, iteration, `in`, subscripts, attribute access, round/int/floor, re.search, "
        "division) is looked up in the partial-operation table under the operand kinds established by the "
        "isinstance guards taken so far on that path, by finiteness / membership / range guards, and by enclosing "
        "handlers; an operation that may raise and is neither guarded nor caught is a violation. Explicit raises "
        "inside a visit method are violations. Formatter methods are evaluated on an error object whose "
        "actual_value has each kind the validator builds that error class with. validate_or_fail is checked for "
        "its shape. Objects whose own special methods raise are out of scope, as in the property."
        " Hashing (set/dict membership and stores) of a value not known to be hashable, int()/float() of a value of unknown kind and str.format on a template that embeds a runtime value are partial operations.")
    run.explanation += ' RENDER-TOTAL: str()/repr()/f-string conversion of an error field that the validator fills from the validated value, with a kind that can hold an int of unbounded size, raises ValueError beyond sys.get_int_max_str_digits(); it must be handled. Lengths and loop indices are bounded. Format specs are partial operations.'
    run.explanation += ' hex()/oct()/bin() are partial operations (TypeError outside int): a fallback of _format_value must be total for every kind.'
    run.rule_text = ("obligations: (visitor method, prop-set/shape) for TOTAL; (formatter method, value kind) for FORMAT-TOTAL; "
                     "clauses of validate_or_fail; non-trivial = at least one partial operation was judged on the paths")
    from ..entry import entry_transparent
    entry_transparent(run, prog, model, "validate", "VALIDATE-ENTRY")
    run.trusted += ["partial-operation table of DESIGN appendix A", "comparison / len / in / iteration are total on built-in kinds "
                    "and their plain subclasses", "re.search with a pattern that compiled at declaration does not raise"]
    err_kinds: Dict[str, Set[str]] = {}
    prov: Dict[Tuple[str, str], Set[Tuple[str, Optional[str]]]] = {}
    npaths = total_obligations(run, prog, model, tier, VALIDATORS, err_kinds, prov)
    run.analysed["validator_paths"] = npaths
    run.floor("TOTAL", 150)
    _formatter(run, prog, model, err_kinds, prov)
    _or_fail(run, prog, model)
    # "returns True exactly when there are no errors" reads the result through has_errors() / get_errors()
    from .c02 import _result_acc
    _result_acc(run, prog, model, "RESULT-ACC")


def total_obligations(run: Run, prog: Program, model: Model, tier: str, validators: Any,
                      err_kinds: Optional[Dict[str, Set[str]]] = None,
                      prov: Optional[Dict[Tuple[str, str], Set[Tuple[str, Optional[str]]]]] = None) -> int:
    """TOTAL for the given validator classes (also used by C12 for the validator the substitutor runs)."""
    unroll = 1 if tier == "quick" else 2
    err_kinds = {} if err_kinds is None else err_kinds
    prov = {} if prov is None else prov
    npaths = 0
    for vis in validators:
        for hook, f in model.visit_methods(vis).items():
            st = model.by_hook[hook]
            for cfg in configs_for(st, tier):
                paths = run_visit(prog, model, vis, hook, cfg, validator_ctx, unroll=unroll)
                construct = f"{vis}.{hook} {cfg.label}"
                bad: List[str] = []
                und: List[str] = []
                judged = 0
                for p in paths:
                    npaths += 1
                    if p.outcome == "limit":
                        und.append("path limit")
                        continue
                    if p.outcome == "raise":
                        exc = p.value
                        assert isinstance(exc, ExcV)
                        if not p.implicit:
                            bad.append(f"explicit raise of {exc.cls_name} at line {getattr(p.exc_node, 'lineno', 0)}")
                        else:
                            bad.append(f"{exc.cls_name} raised by an operation that always fails at line {getattr(p.exc_node, 'lineno', 0)}")
                    for e in p.events:
                        if e.kind == "partial":
                            judged += 1
                            for x, why in escapes(p, e):
                                if why == "arity":
                                    continue
                                bad.append(f"{getattr(x, '__name__', x)} may escape: {why} @ {e.loc(prog)}")
                        elif e.kind == "unknown_callee":
                            und.append(f"unknown callee {e.data.get('callee')}")
                        elif e.kind == "unsupported":
                            und.append(f"unsupported construct {e.data.get('what')}")
                        elif e.kind == "construct" and e.data.get("cls") is not None and e.data["cls"].name.endswith("ValidationError"):
                            args = e.data["args"]
                            if len(args) >= 2:
                                k = kind_on_path(args[1], p, e.nfacts) or "object"
                                err_kinds.setdefault(e.data["cls"].name, set()).add(k)
                            init = e.data["cls"].lookup("__init__")
                            names = [a.arg for a in init.node.args.args[1:]] if init else []
                            for fld, a in zip(names, args):
                                prov.setdefault((e.data["cls"].name, fld), set()).add((a.key(), _render_kind(a, p, e.nfacts)))
                if bad:
                    run.violated("TOTAL", construct, f.loc, "; ".join(sorted(set(bad)))[:400],
                                 witness=f"validate(<schema with {cfg.label}>, <hostile value of the guarded kind>) raises instead of returning a result")
                elif und:
                    run.undecided("TOTAL", construct, f.loc, "; ".join(sorted(set(und)))[:300])
                else:
                    run.holds("TOTAL", construct, f.loc, f"{len(paths)} paths, {judged} partial operations judged total", nontrivial=judged > 0)
    return npaths


_FROM_VALUE = re.compile(r"(?<![\w.])value\b")


def _render_kind(a: V, p: Path, nfacts: int) -> Optional[str]:
    """Kind of an error-constructor argument for the purpose of rendering it: a loop index over the value and an
    attribute of a value of a render-safe kind (UUID.version) cannot be an int of unbounded size."""
    k = kind_on_path(a, p, nfacts)

    def bounded(x: Any) -> bool:
        # index arithmetic: constants, loop indices and lengths combined by + - max min
        if isinstance(x, Const):
            return isinstance(x.value, int)
        if isinstance(x, Sym):
            return bool(x.origin) and x.origin[0] in ("index", "range")      # loop index over a real sequence / range
        if isinstance(x, Term):
            if x.op == "len":
                return True
            if x.op in ("bin", "max", "min", "unary"):
                return all(bounded(y) for y in x.args if isinstance(y, V))
        return False
    if k == "int" and not isinstance(a, Const) and bounded(a):
        return "index"
    if isinstance(a, Term) and a.op == "attr" and a.args and isinstance(a.args[0], V) \
            and kind_on_path(a.args[0], p, nfacts) in RENDER_SAFE:
        return "index"
    return k


def _hostile_fields(prov: Dict[Tuple[str, str], Set[Tuple[str, Optional[str]]]], cls: str) -> Dict[str, Set[Optional[str]]]:
    """Fields of an error class that the validator fills from the validated value (field -> kinds seen)."""
    out: Dict[str, Set[Optional[str]]] = {}
    for (c, fld), seen in prov.items():
        if c != cls:
            continue
        ks = {k for key, k in seen if _FROM_VALUE.search(key)}
        if ks and not ks <= RENDER_SAFE:
            out[fld] = ks
    return out


def _formatter(run: Run, prog: Program, model: Model, err_kinds: Dict[str, Set[str]],
               prov: Optional[Dict[Tuple[str, str], Set[Tuple[str, Optional[str]]]]] = None) -> None:
    fm = prog.cls("validation._formatter.Formatter")
    prov = prov or {}
    errs = {c.name: c for c in prog.subclasses(prog.cls("validation.errors.ValidationError"))}
    for mname, m in sorted(fm.methods.items()):
        if not mname.startswith("format_"):
            continue
        args = m.node.args.args
        ann = ast.unparse(args[1].annotation) if len(args) > 1 and args[1].annotation is not None else ""
        ecls = errs.get(ann)
        if ecls is None:
            run.undecided("FORMAT-TOTAL", f"Formatter.{mname}", m.loc, f"parameter annotation {ann!r} is not an error class")
            continue
        kinds = sorted(err_kinds.get(ann, set())) or ["object"]
        init = ecls.lookup("__init__")
        fields = [a.arg for a in init.node.args.args[1:]] if init else []
        hostile = _hostile_fields(prov, ann)
        render_bad: Dict[str, Set[str]] = {}
        render_seen: Set[str] = set()
        for k in kinds:
            it = Interp(prog, model, unroll=1)
            it.int_str_limit = True       # type: ignore[attr-defined]

            def run1(i: Interp) -> V:
                fmt = i._construct(fm, [], {}, None)
                attrs: Dict[str, V] = {}
                for fld in fields:
                    if fld == "path":
                        attrs[fld] = Sym("error.path", "PathHolder", ("attr", "path"))
                    elif fld == "actual_value":
                        attrs[fld] = Sym("error.actual_value", None if k == "object" else k, ("attr", "actual_value"))
                    elif fld in ("length", "min_length", "max_length", "index", "actual_version", "expected_version"):
                        attrs[fld] = Sym(f"error.{fld}", "int", ("attr", fld))
                    elif fld in hostile and len(hostile[fld]) == 1:
                        attrs[fld] = Sym(f"error.{fld}", next(iter(hostile[fld])), ("attr", fld))
                    else:
                        attrs[fld] = Sym(f"error.{fld}", None, ("attr", fld))
                err = Inst(ecls, attrs)
                return i.call_function(m, [err], {}, self_val=fmt)
            ps = it.run_paths(run1)
            construct = f"Formatter.{mname} on actual_value: {k}"
            bad: List[str] = []
            for p in ps:
                if p.outcome == "raise":
                    bad.append(f"raises {p.value.key() if p.value else '?'}")
                for e in p.events:
                    if e.kind == "partial" and e.data.get("op") == "render":
                        # RENDER-TOTAL: only what the validator copied from the validated value is hostile
                        opk = e.data["operands"][0].key()
                        for fld in hostile:
                            if f"error.{fld}" in opk:
                                render_seen.add(fld)
                                for x, why in escapes(p, e):
                                    render_bad.setdefault(fld, set()).add(f"{why} @ {e.loc(prog)}")
                        continue
                    if e.kind == "partial":
                        for x, why in escapes(p, e):
                            if why != "arity":
                                bad.append(f"{getattr(x, '__name__', x)} may escape: {why} @ {e.loc(prog)}")
                if p.outcome == "return":
                    v = p.value
                    lit = isinstance(v, StrV) and any(isinstance(x, str) and x.strip() for x in v.pieces) or \
                        (isinstance(v, Const) and isinstance(v.value, str) and v.value.strip())
                    if not lit:
                        bad.append("rendered message has no literal text (may be empty)")
            if bad:
                run.violated("FORMAT-TOTAL", construct, m.loc, "; ".join(sorted(set(bad)))[:300],
                             witness=f"error.format(Formatter()) raises / is empty for a {ann} built on a {k} value")
            else:
                run.holds("FORMAT-TOTAL", construct, m.loc, f"{len(ps)} paths total; message has literal text", nontrivial=True)
        for fld in sorted(render_seen):
            c = f"Formatter.{mname}: rendering error.{fld}"
            if fld in render_bad:
                run.violated("RENDER-TOTAL", c, m.loc, "; ".join(sorted(render_bad[fld]))[:400],
                             witness=f"format_result(validate(S, v)) raises ValueError when the {ann} carries 10**5000 "
                                     f"(or a container holding it) as {fld}: e.g. validate(schema.str, 10**5000)")
            else:
                run.holds("RENDER-TOTAL", c, m.loc, "kind cannot hold an unbounded int, or ValueError is handled", nontrivial=True)
    run.floor("FORMAT-TOTAL", 12)
    run.floor("RENDER-TOTAL", 8)


def _no_errors_fact(t: Any, b: bool) -> bool:
    """Does the decided condition (t is b) establish that the result carries no errors?  Recognised: the error list -
    or a list built one-for-one from it - is empty (`len(X) == 0`, `not X`, `not len(X) > 0`), `not result.has_errors()`."""
    from ..partial import _one_for_one_source
    from ..interp_expr import ExprMixin

    def is_errors(x: Any) -> bool:
        x = ExprMixin._unwrap1(x)
        src = _one_for_one_source(x)
        if src is not None:
            x = src
        return isinstance(x, Term) and x.op == "mcall" and len(x.args) >= 2 and x.args[1] == "get_errors"

    def length_of_errors(x: Any) -> bool:
        return isinstance(x, Term) and x.op == "len" and is_errors(x.args[0])
    if isinstance(t, Term) and t.op == "mcall" and len(t.args) >= 2 and t.args[1] == "has_errors":
        return b is False
    if isinstance(t, Term) and t.op == "eq" and len(t.args) == 2:
        a0, a1 = t.args
        for x, y in ((a0, a1), (a1, a0)):
            if isinstance(x, Const) and x.value == 0 and not isinstance(x.value, bool) and length_of_errors(y):
                return b is True
            if isinstance(x, (ListV, TupleV)) and x.concrete() and not x.items and is_errors(y):
                return b is True            # errors == []
    if isinstance(t, Term) and t.op == "lt" and len(t.args) == 2:
        a0, a1 = t.args
        if isinstance(a0, Const) and a0.value == 0 and length_of_errors(a1):
            return b is False          # not (0 < len(errors))
        if isinstance(a1, Const) and a1.value == 1 and length_of_errors(a0):
            return b is True           # len(errors) < 1
    if length_of_errors(t) or is_errors(t):
        return b is False              # truthiness of the list / of its length
    return False


def _or_fail(run: Run, prog: Program, model: Model) -> None:
    f = prog.func("d42.validation.validate_or_fail")
    it = Interp(prog, model, unroll=1)
    it.accept_summary = lambda recv, v: True    # type: ignore

    def run1(i: Interp) -> V:
        return i.call_function(f, [Sym("schema", "Schema", ("param", "schema")), Sym("value", None, ("param", "value"))],
                               kwargs_spread("extra"))
    ps = it.run_paths(run1)
    rets = [p for p in ps if p.outcome == "return"]
    raises = [p for p in ps if p.outcome == "raise"]
    site = f.loc
    probs: List[str] = []
    for p in rets:
        if not (isinstance(p.value, Const) and p.value.value is True):
            probs.append(f"returns {p.value.key()[:30] if p.value else None} instead of True")
        if not any(_no_errors_fact(t, b) for _, t, b in p.facts):
            probs.append("returns True on a path that did not establish `no errors`")
    for p in raises:
        exc = p.value
        if not (isinstance(exc, ExcV) and exc.cls_name == "ValidationException"):
            probs.append(f"raises {exc.key() if exc else '?'} instead of ValidationException")
    if not rets:
        probs.append("never returns True")
    if not raises:
        probs.append("never raises ValidationException")
    for p in ps:
        for e in p.events:
            if e.kind == "comp_iter" and e.func == f.qualname and e.data.get("conds"):
                probs.append("errors are filtered before being formatted: some errors are not reported")
            if e.kind == "partial":
                for x, why in escapes(p, e):
                    if why != "arity":
                        probs.append(f"{getattr(x, '__name__', x)} may escape: {why}")
    fmt = [e for p in ps for e in p.events if e.kind == "call" and "format" in str(e.data.get("callee"))]
    if not fmt:
        probs.append("errors are not formatted into the exception message")
    if probs:
        run.violated("OR-FAIL-SHAPE", "validate_or_fail", site, "; ".join(sorted(set(probs)))[:300],
                     witness="validate_or_fail returns True although there are errors / raises something else / drops errors")
    else:
        run.holds("OR-FAIL-SHAPE", "validate_or_fail", site,
                  "True only when the (unfiltered) formatted error list is empty, ValidationException otherwise", nontrivial=True)
    run.floor("OR-FAIL-SHAPE", 1)


V_ = "d42/validation/_validator.py"
F_ = "d42/validation/_formatter.py"
FMT_ = "d42/validation/_formatter.py"
MUTANTS = [
    {"name": "type error renders the offending value with !r again (fix 7fcb16c reverted at one site)", "rule": "RENDER-TOTAL",
     "edits": [(FMT_, "        return (f\"Value {self._format_value(error.actual_value)}{formatted_path} \"", "        return (f\"Value {error.actual_value!r}{formatted_path} \"")]},
    {"name": "extra key rendered through str()", "rule": "RENDER-TOTAL",
     "edits": [(FMT_, "contains extra key {self._format_value(error.extra_key)}\"", "contains extra key \" + str(error.extra_key)")]},
    {"name": "_format_value catches TypeError instead of ValueError", "rule": "RENDER-TOTAL",
     "edits": [(FMT_, "        try:\n            return repr(value)\n        except ValueError:", "        try:\n            return repr(value)\n        except TypeError:")]},
    {"name": "neutral: alphabet error (str value) rendered through _format_value too", "expect": "SILENT",
     "edits": [(FMT_, "must contain only {error.alphabet!r}, but {error.actual_value!r} given", "must contain only {error.alphabet!r}, but {self._format_value(error.actual_value)} given")]},
    {"name": "neutral: _format_value catches Exception", "expect": "SILENT",
     "edits": [(FMT_, "        try:\n            return repr(value)\n        except ValueError:", "        try:\n            return repr(value)\n        except Exception:")]},
    {"name": "typed-list elements that passed are remembered in a set keyed by (type, value)", "rule": "TOTAL",
     "edits": [(V_, "            for index, elem in enumerate(value):\n                nested_path = deepcopy(path)[index]\n                res = type_schema.__accept__(self, value=elem, path=nested_path, **kwargs)\n                result.add_errors(res.get_errors())",
                "            passed: Any = set()\n            for index, elem in enumerate(value):\n                if (type(elem), elem) in passed:\n                    continue\n                nested_path = deepcopy(path)[index]\n                res = type_schema.__accept__(self, value=elem, path=nested_path, **kwargs)\n                result.add_errors(res.get_errors())\n                if not res.has_errors():\n                    passed.add((type(elem), elem))")]},
    {"name": "value.version before the type guard", "rule": "TOTAL",
     "edits": [(V_, "        if error := self._validate_type(path, value, UUID):\n            return result.add_error(error)\n\n        if value.version != 4:",
                "        if value.version != 4 and isinstance(value, UUID):\n            return result.add_error(\n                InvalidUUIDVersionValidationError(path, value, value.version, 4))\n\n        if error := self._validate_type(path, value, UUID):\n            return result.add_error(error)\n\n        if value.version != 4:")]},
    {"name": "len(error.actual_value) in the min-value formatter", "rule": "FORMAT-TOTAL",
     "edits": [(F_, "    def format_min_value_error(self, error: MinValueValidationError) -> str:\n        actual_type = self._get_type(error.actual_value)",
                "    def format_min_value_error(self, error: MinValueValidationError) -> str:\n        actual_type = self._get_type(error.actual_value) + str(len(error.actual_value))")]},
    {"name": "unguarded value[0] in visit_str", "rule": "TOTAL",
     "edits": [(V_, "        if schema.props.substr is not Nil:\n            if schema.props.substr not in value:", "        if schema.props.substr is not Nil:\n            if value[0] != schema.props.substr[0] and schema.props.substr not in value:")]},
    {"name": "finite guard removed (F4 reverted)", "rule": "TOTAL",
     "edits": [(V_, "                if isfinite(scaled_actual) and isfinite(scaled_expected):", "                if True:")]},
    {"name": "int min compared before the type guard", "rule": "TOTAL",
     "edits": [(V_, "        if error := self._validate_type(path, value, int):\n            return result.add_error(error)\n\n        if schema.props.value is not Nil:\n            if error := self._validate_value(path, value, schema.props.value):\n                return result.add_error(error)\n\n        if schema.props.min is not Nil:\n            if value < schema.props.min:",
                "        if schema.props.min is not Nil and value < schema.props.min:\n            return result.add_error(MinValueValidationError(path, value, schema.props.min))\n\n        if error := self._validate_type(path, value, int):\n            return result.add_error(error)\n\n        if schema.props.value is not Nil:\n            if error := self._validate_value(path, value, schema.props.value):\n                return result.add_error(error)\n\n        if schema.props.min is not Nil:\n            if value < schema.props.min:")]},
    {"name": "dict member read without the membership test", "rule": "TOTAL",
     "edits": [(V_, "            if key in value:\n                nested_path = deepcopy(path)[key]\n                res = val.__accept__(self, value=value[key], path=nested_path, **kwargs)",
                "            if key in value or not is_optional:\n                nested_path = deepcopy(path)[key]\n                res = val.__accept__(self, value=value[key], path=nested_path, **kwargs)")]},
    {"name": "validate_or_fail returns True when only type errors remain filtered", "rule": "OR-FAIL-SHAPE",
     "edits": [("d42/validation/__init__.py", "    errors = [e.format(_formatter) for e in result.get_errors()]", "    errors = [e.format(_formatter) for e in result.get_errors() if e.path]")]},
    {"name": "validator raises on an empty value in the exact list form", "rule": "TOTAL",
     "edits": [(V_, "        errors = self._validate_elements(path, value, elements, **kwargs)\n        result.add_errors(errors)\n        if len(value) > len(elements):",
                "        if len(value) == 0 and len(elements) > 0:\n            raise ValueError(\"empty value\")\n        errors = self._validate_elements(path, value, elements, **kwargs)\n        result.add_errors(errors)\n        if len(value) > len(elements):")]},
    {"name": "missing-element lookup no longer caught", "rule": "TOTAL",
     "edits": [(V_, "            except IndexError:\n                errors.append(MissingElementValidationError(path, value, real_index))\n                break", "            except KeyError:\n                errors.append(MissingElementValidationError(path, value, real_index))\n                break")]},
    {"name": "neutral: try/except instead of the finite guard", "expect": "SILENT",
     "edits": [(V_, "                if isfinite(scaled_actual) and isfinite(scaled_expected):\n                    is_equal = isclose(round(scaled_expected), round(scaled_actual),\n                                       rel_tol=0, abs_tol=0)\n                else:\n                    is_equal = bool(value == schema.props.value)",
                "                try:\n                    is_equal = isclose(round(scaled_expected), round(scaled_actual),\n                                       rel_tol=0, abs_tol=0)\n                except (OverflowError, ValueError):\n                    is_equal = bool(value == schema.props.value)")]},
    {"name": "neutral: membership via `not in` early continue", "expect": "SILENT",
     "edits": [(V_, "            if key in value:\n                nested_path = deepcopy(path)[key]\n                res = val.__accept__(self, value=value[key], path=nested_path, **kwargs)\n                result.add_errors(res.get_errors())\n            else:\n                if not is_optional:\n                    result.add_error(MissingKeyValidationError(path, value, key))",
                "            if key not in value:\n                if not is_optional:\n                    result.add_error(MissingKeyValidationError(path, value, key))\n                continue\n            nested_path = deepcopy(path)[key]\n            res = val.__accept__(self, value=value[key], path=nested_path, **kwargs)\n            result.add_errors(res.get_errors())")]},
]

# round 7: the seeded changes that were missed on first contact, replayed against the current tree
MUTANTS += [
    {"name": 'seeded C08-M', "rule": 'FORMAT-TOTAL',
     "edits": [('d42/validation/_formatter.py', '        try:\n            return repr(value)\n        except ValueError:\n            # e.g. an int with more digits than sys.get_int_max_str_digits()\n            return object.__repr__(value)\n\n    def _pluralize(self, count: int, options: Sequence[str]) -> str:\n        return options[0] if count == 1 else options[-1]\n', '        try:\n            return repr(value)\n        except ValueError:\n            # an int with more digits than sys.get_int_max_str_digits():\n            # hex() has no digit limit and, unlike "<int object at 0x...>", shows the value\n            return hex(value)\n\n    def _pluralize(self, count: int, options: Sequence[str]) -> str:\n        return options[0] if count == 1 else options[-1]\n')]},
]
