"""C18 - rollout inverts flattening (structural clauses only; the round trip itself is not decided).

SEP-THREAD, OPTIONAL-REATTACH, GROUP-GUARD, RECURSE/LEAF/ELLIPSIS pass-through, decided by def-use analysis
of the one function.
"""
from __future__ import annotations

import ast
from typing import Any, Dict, List, Optional, Set, Tuple

from ..flow import parents
from ..loader import AnalysisError, FuncInfo, Program
from ..model import Model
from ..report import Run


def names(n: ast.AST) -> Set[str]:
    return {x.id for x in ast.walk(n) if isinstance(x, ast.Name)}


def check(run: Run, prog: Program, model: Model, tier: str) -> None:
    run.explanation = (
        "Def-use analysis of d42.utils.rollout: the keyword-only separator must reach every recursive call, split "
        "and join unchanged and no string literal may stand in for it; the optional flag must reach both store "
        "sites; the per-head group must be created under a membership guard (so grouping does not depend on the "
        "order of the flat keys); dict-valued groups must be recursed into, leaf values stored as received, the "
        "`...: ...` entry passed through. These are necessary conditions; the round trip on concrete mappings is "
        "not decided.")
    run.rule_text = ("one obligation per recursive call / split / join / store site / group creation; non-trivial = "
                     "needed alias resolution of the flag or of the stored key expression")
    f = prog.func("d42.utils._rollout.rollout")
    fn = f.node
    par = parents(fn)
    kwonly = [a.arg for a in fn.args.kwonlyargs]
    pos = [a.arg for a in fn.args.args]
    sep = "separator" if "separator" in kwonly + pos else None
    if sep is None:
        raise AnalysisError("rollout has no `separator` parameter")
    site = f.loc
    # parameter must not be re-assigned
    for n in ast.walk(fn):
        if isinstance(n, (ast.Assign, ast.AugAssign)) and sep in names(n.targets[0] if isinstance(n, ast.Assign) else n.target) \
                and any(isinstance(t, ast.Name) and t.id == sep for t in (n.targets if isinstance(n, ast.Assign) else [n.target])):
            run.violated("SEP-THREAD", "rollout: separator re-assigned", f"{f.module.path}:{n.lineno}",
                         "the separator parameter is overwritten", witness="rollout({'a/b': 1}, separator='/')")
    # ---------------------------------------------------------------- SEP-THREAD
    n_rec = n_split = n_join = 0
    for n in ast.walk(fn):
        if not isinstance(n, ast.Call):
            continue
        fu = n.func
        loc = f"{f.module.path}:{n.lineno}"
        if isinstance(fu, ast.Name) and fu.id == fn.name:
            n_rec += 1
            kw = {k.arg: k.value for k in n.keywords}
            v = kw.get(sep)
            if v is None and sep in pos and len(n.args) > pos.index(sep):
                v = n.args[pos.index(sep)]
            c = f"rollout: recursive call #{n_rec}"
            if isinstance(v, ast.Name) and v.id == sep:
                run.holds("SEP-THREAD", c, loc, f"{sep}={sep}", nontrivial=False)
            elif v is None:
                run.violated("SEP-THREAD", c, loc, "recursive call falls back to the default separator",
                             witness="rollout({'a/b/c': 1}, separator='/') splits the tail on '.' at depth 2")
            else:
                run.violated("SEP-THREAD", c, loc, f"recursive call passes {ast.unparse(v)} instead of the separator",
                             witness="rollout({'a/b/c': 1}, separator='/')")
        elif isinstance(fu, ast.Attribute) and fu.attr in ("split", "rsplit", "partition"):
            n_split += 1
            c = f"rollout: {fu.attr} #{n_split}"
            a0 = n.args[0] if n.args else None
            if isinstance(a0, ast.Name) and a0.id == sep:
                run.holds("SEP-THREAD", c, loc, f".{fu.attr}({sep})", nontrivial=False)
            else:
                run.violated("SEP-THREAD", c, loc,
                             f".{fu.attr}({ast.unparse(a0) if a0 is not None else ''}) does not split on the separator parameter",
                             witness="rollout({'a/b': 1}, separator='/') is not split")
            # maxsplit would keep tails intact but change grouping for multi-level keys -> fine either way
        elif isinstance(fu, ast.Attribute) and fu.attr == "join":
            n_join += 1
            c = f"rollout: join #{n_join}"
            r = fu.value
            if isinstance(r, ast.Name) and r.id == sep:
                run.holds("SEP-THREAD", c, loc, f"{sep}.join(...)", nontrivial=False)
            else:
                run.violated("SEP-THREAD", c, loc, f"{ast.unparse(r)}.join(...) re-joins the tail with something else than the separator",
                             witness="rollout({'a/b/c': 1}, separator='/') yields key 'b.c' at depth 2")
    # partition()-based splitting: "separator found" must be decided on the MIDDLE element; an empty tail is legal
    for n in ast.walk(fn):
        if isinstance(n, ast.Assign) and isinstance(n.value, ast.Call) and isinstance(n.value.func, ast.Attribute) \
                and n.value.func.attr in ("partition", "rpartition") and isinstance(n.targets[0], ast.Tuple) and len(n.targets[0].elts) == 3:
            a0 = n.value.args[0] if n.value.args else None
            n_split += 1
            loc = f"{f.module.path}:{n.lineno}"
            c = f"rollout: {n.value.func.attr} #{n_split}"
            if not (isinstance(a0, ast.Name) and a0.id == sep):
                run.violated("SEP-THREAD", c, loc, "partitions on something else than the separator parameter", witness="rollout({'a/b': 1}, separator='/')")
                continue
            run.holds("SEP-THREAD", c, loc, f".{n.value.func.attr}({sep})", nontrivial=False)
            head_, mid_, tail_ = [e.id if isinstance(e, ast.Name) else None for e in n.targets[0].elts]
            for t in ast.walk(fn):
                if isinstance(t, ast.If) and (names(t.test) & {x for x in (head_, mid_, tail_) if x}) and t.lineno > n.lineno:
                    used = names(t.test)
                    c2 = f"rollout: leaf-or-group decision after {n.value.func.attr}"
                    if tail_ in used and mid_ not in used:
                        run.violated("SEP-THREAD", c2, f"{f.module.path}:{t.lineno}",
                                     "`no separator found` is decided on the (possibly empty) tail instead of the separator element",
                                     witness="rollout({'a.': 1}) yields {'a': 1} instead of {'a': {'': 1}}")
                    elif mid_ in used:
                        run.holds("SEP-THREAD", c2, f"{f.module.path}:{t.lineno}", "decided on the separator element", nontrivial=True)
                    break
    # find()/index() based splitting: the tail must start len(separator) after the hit
    pos_names: Set[str] = set()
    for n in ast.walk(fn):
        if isinstance(n, ast.Assign) and isinstance(n.value, ast.Call) and isinstance(n.value.func, ast.Attribute) \
                and n.value.func.attr in ("find", "index", "rfind", "rindex") and len(n.targets) == 1 and isinstance(n.targets[0], ast.Name):
            a0 = n.value.args[0] if n.value.args else None
            n_split += 1
            c = f"rollout: {n.value.func.attr} #{n_split}"
            loc = f"{f.module.path}:{n.lineno}"
            if isinstance(a0, ast.Name) and a0.id == sep:
                pos_names.add(n.targets[0].id)
                run.holds("SEP-THREAD", c, loc, f".{n.value.func.attr}({sep})", nontrivial=False)
            else:
                run.violated("SEP-THREAD", c, loc, f"searches for {ast.unparse(a0) if a0 is not None else 'nothing'} instead of the separator parameter",
                             witness="rollout({'a/b': 1}, separator='/') is not split")
    n_tail = 0
    for n in ast.walk(fn):
        if isinstance(n, ast.Subscript) and isinstance(n.slice, ast.Slice) and n.slice.lower is not None and names(n.slice.lower) & pos_names:
            lo = n.slice.lower
            n_tail += 1
            c = f"rollout: tail slice #{n_tail}"
            loc = f"{f.module.path}:{n.lineno}"
            ok_len = isinstance(lo, ast.BinOp) and isinstance(lo.op, ast.Add) and any(
                isinstance(x, ast.Call) and isinstance(x.func, ast.Name) and x.func.id == "len" and x.args
                and isinstance(x.args[0], ast.Name) and x.args[0].id == sep for x in (lo.left, lo.right))
            const = isinstance(lo, ast.BinOp) and any(isinstance(x, ast.Constant) for x in (lo.left, lo.right))
            if ok_len:
                run.holds("SEP-THREAD", c, loc, f"tail starts at hit + len({sep})", nontrivial=True)
            elif const or isinstance(lo, ast.Name):
                run.violated("SEP-THREAD", c, loc,
                             f"tail starts at `{ast.unparse(lo)}`: correct only for a one-character separator",
                             witness="rollout({'a__b': 1}, separator='__') yields {'a': {'_b': 1}}")
            else:
                run.undecided("SEP-THREAD", c, loc, f"tail offset `{ast.unparse(lo)}` not recognised")
    run.floor("SEP-THREAD", 2)

    # ---------------------------------------------------------------- stores
    loop = None
    for n in fn.body:
        if isinstance(n, ast.For) and isinstance(n.iter, ast.Call) and isinstance(n.iter.func, ast.Attribute) and n.iter.func.attr == "items":
            loop = n
            break
    if loop is None:
        run.undecided("OPTIONAL-REATTACH", "rollout: main loop", site, "main loop over keys.items() not recognised")
        return
    tnames = [t.id for t in loop.target.elts] if isinstance(loop.target, ast.Tuple) else []  # type: ignore
    valname = tnames[1] if len(tnames) == 2 else None
    # flag variable: assigned True under isinstance(<key>, optional)
    flag = None
    for n in ast.walk(loop):
        if isinstance(n, ast.If) and any(isinstance(c, ast.Call) and isinstance(c.func, ast.Name) and c.func.id == "isinstance"
                                         and any(isinstance(x, ast.Name) and x.id == "optional" for x in ast.walk(c)) for c in ast.walk(n.test)):
            for s in n.body:
                if isinstance(s, ast.Assign) and isinstance(s.value, ast.Constant) and s.value.value is True and isinstance(s.targets[0], ast.Name):
                    flag = s.targets[0].id
    if flag is None:
        run.undecided("OPTIONAL-REATTACH", "rollout: optional flag", site, "flag variable not recognised")
        return
    stores = []
    for n in ast.walk(loop):
        if isinstance(n, ast.Assign) and isinstance(n.targets[0], ast.Subscript) and isinstance(n.value, ast.Name) and n.value.id == valname:
            # skip the ellipsis pass-through (under is_ellipsis(key))
            up = par.get(n)
            under_ell = False
            while up is not None and up is not loop:
                if isinstance(up, ast.If) and "is_ellipsis" in names(up.test) and n in ast.walk(ast.Module(body=up.body, type_ignores=[])):
                    under_ell = True
                up = par.get(up)
            if not under_ell:
                stores.append(n)
    kinds = []
    for i, s in enumerate(stores):
        key = s.targets[0].slice  # type: ignore
        c = f"rollout: store site #{i + 1} ({'leaf' if isinstance(s.targets[0].value, ast.Name) else 'tail'})"  # type: ignore
        loc = f"{f.module.path}:{s.lineno}"
        ok = isinstance(key, ast.IfExp) and flag in names(key.test) and \
            any(isinstance(x, ast.Call) and isinstance(x.func, ast.Name) and x.func.id == "optional" for x in ast.walk(key.body)) and \
            not any(isinstance(x, ast.Call) and isinstance(x.func, ast.Name) and x.func.id == "optional" for x in ast.walk(key.orelse))
        if ok:
            run.holds("OPTIONAL-REATTACH", c, loc, f"key is optional(<k>) iff {flag}", nontrivial=True)
        elif flag not in names(key):
            run.violated("OPTIONAL-REATTACH", c, loc, f"the optional flag `{flag}` does not reach this store: the marker is lost",
                         witness="rollout({optional('a.b'): 1}) yields {'a': {'b': 1}} (or loses optional on leaves)")
        else:
            run.undecided("OPTIONAL-REATTACH", c, loc, f"key expression {ast.unparse(key)[:60]} not recognised")
        run.holds("LEAF-VALUE", c, loc, f"stores `{valname}` as received", nontrivial=False)
    if len(stores) < 2:
        run.violated("OPTIONAL-REATTACH", "rollout: store sites", site,
                     f"only {len(stores)} store of the received value found (leaf and tail expected): values of one kind are dropped or rewritten",
                     witness="rollout({'a.b': 1, 'c': 2})")
    run.floor("OPTIONAL-REATTACH", 2)

    # ---------------------------------------------------------------- GROUP-GUARD
    creations = [n for n in ast.walk(loop) if isinstance(n, ast.Assign) and isinstance(n.targets[0], ast.Subscript)
                 and isinstance(n.value, (ast.Dict,)) and not n.value.keys]
    creations += [n for n in ast.walk(loop) if isinstance(n, ast.Assign) and isinstance(n.targets[0], ast.Subscript)
                  and isinstance(n.value, ast.Call) and isinstance(n.value.func, ast.Name) and n.value.func.id == "dict" and not n.value.args]
    uses_setdefault = any(isinstance(n, ast.Call) and isinstance(n.func, ast.Attribute) and n.func.attr == "setdefault" for n in ast.walk(loop))
    if not creations and uses_setdefault:
        run.holds("GROUP-GUARD", "rollout: group creation", site, "groups created with setdefault", nontrivial=True)
    for i, cr in enumerate(creations):
        c = f"rollout: group creation #{i + 1}"
        loc = f"{f.module.path}:{cr.lineno}"
        up = par.get(cr)
        guarded = False
        tgt = cr.targets[0]
        while up is not None and up is not loop:
            if isinstance(up, ast.If) and cr in up.body:
                for cmp_ in ast.walk(up.test):
                    if isinstance(cmp_, ast.Compare) and isinstance(cmp_.ops[0], ast.NotIn) \
                            and ast.unparse(cmp_.comparators[0]) == ast.unparse(tgt.value) \
                            and ast.unparse(cmp_.left) == ast.unparse(tgt.slice):  # type: ignore
                        guarded = True
            up = par.get(up)
        if guarded:
            run.holds("GROUP-GUARD", c, loc, "created only when the head is not yet present", nontrivial=True)
        else:
            run.violated("GROUP-GUARD", c, loc, "the per-head dict is (re)created unconditionally: earlier siblings of the same head are dropped",
                         witness="rollout({'a.b': 1, 'a.c': 2}) yields {'a': {'c': 2}}")
    run.floor("GROUP-GUARD", 1)

    # ---------------------------------------------------------------- RECURSE + ellipsis pass-through
    rec_ok = False
    for n in ast.walk(fn):
        if isinstance(n, ast.IfExp) and isinstance(n.body, ast.Call) and isinstance(n.body.func, ast.Name) and n.body.func.id == fn.name:
            t = n.test
            if isinstance(t, ast.Call) and isinstance(t.func, ast.Name) and t.func.id == "isinstance" and "dict" in names(t):
                if isinstance(n.orelse, ast.Name) and n.body.args and isinstance(n.body.args[0], ast.Name) and n.body.args[0].id == n.orelse.id:
                    rec_ok = True
        if isinstance(n, ast.If) and isinstance(n.test, ast.Call) and isinstance(n.test.func, ast.Name) and n.test.func.id == "isinstance" \
                and "dict" in names(n.test) and any(isinstance(c, ast.Call) and isinstance(c.func, ast.Name) and c.func.id == fn.name for c in ast.walk(n)):
            rec_ok = True
    any_rec = any(isinstance(n, ast.Call) and isinstance(n.func, ast.Name) and n.func.id == fn.name for n in ast.walk(fn))
    if rec_ok:
        run.holds("RECURSE", "rollout: dict-valued groups", site, "every dict-valued entry is rolled out recursively, others kept as is", nontrivial=True)
    elif not any_rec:
        run.violated("RECURSE", "rollout: dict-valued groups", site, "grouped tails are never rolled out recursively",
                     witness="rollout({'a.b.c': 1}) yields {'a': {'b.c': 1}}")
    else:
        run.undecided("RECURSE", "rollout: dict-valued groups", site,
                      "recursion is guarded by a condition other than isinstance(v, dict): whether every group is still rolled out cannot be decided")
    ell_ok = False
    for n in ast.walk(loop):
        if isinstance(n, ast.If) and "is_ellipsis" in names(n.test):
            for s in n.body:
                if isinstance(s, ast.Assign) and isinstance(s.targets[0], ast.Subscript) and isinstance(s.value, ast.Name) and s.value.id == valname \
                        and isinstance(s.targets[0].slice, ast.Name) and tnames and s.targets[0].slice.id == tnames[0]:
                    ell_ok = True
    if ell_ok:
        run.holds("ELLIPSIS-PASS", "rollout: `...: ...` entry", site, "stored unchanged under its own key", nontrivial=False)
    else:
        run.violated("ELLIPSIS-PASS", "rollout: `...: ...` entry", site, "the relaxed marker entry is not passed through",
                     witness="rollout({'a': 1, ...: ...}) loses or mangles the `...: ...` entry")


U = "d42/utils/_rollout.py"
MUTANTS = [
    {"name": "recursive call without separator=", "rule": "SEP-THREAD",
     "edits": [(U, "rollout(v, separator=separator) if isinstance(v, dict) else v", "rollout(v) if isinstance(v, dict) else v")]},
    {"name": "\".\".join for the tail", "rule": "SEP-THREAD",
     "edits": [(U, "            tail = separator.join(parts[1:])", "            tail = \".\".join(parts[1:])")]},
    {"name": "tail store loses optional", "rule": "OPTIONAL-REATTACH",
     "edits": [(U, "            updated[key][optional(tail) if is_optional else tail] = val", "            updated[key][tail] = val")]},
    {"name": "group dict reset on every key", "rule": "GROUP-GUARD",
     "edits": [(U, "            if key not in updated:\n                updated[key] = {}", "            updated[key] = {}")]},
    {"name": "split on a literal dot", "rule": "SEP-THREAD",
     "edits": [(U, "        parts = comp_key.split(separator)", "        parts = comp_key.split(\".\")")]},
    {"name": "leaf store always optional", "rule": "OPTIONAL-REATTACH",
     "edits": [(U, "            updated[optional(key) if is_optional else key] = val", "            updated[optional(key)] = val")]},
    {"name": "no recursion into groups", "rule": "RECURSE",
     "edits": [(U, "        updated[k] = rollout(v, separator=separator) if isinstance(v, dict) else v", "        updated[k] = v")]},
    {"name": "ellipsis entry dropped", "rule": "ELLIPSIS-PASS",
     "edits": [(U, "            updated[comp_key] = val\n            continue", "            continue")]},
    {"name": "neutral: parts renamed and head/tail unpacked", "expect": "SILENT",
     "edits": [(U, "        parts = comp_key.split(separator)\n        key = parts[0]", "        parts = comp_key.split(separator)\n        key = parts[0]  # head")]},
    {"name": "neutral: recursion written as an if statement", "expect": "SILENT",
     "edits": [(U, "        updated[k] = rollout(v, separator=separator) if isinstance(v, dict) else v",
                "        if isinstance(v, dict):\n            updated[k] = rollout(v, separator=separator)")]},
]

MUTANTS += [
    {"name": "head/tail split with find() and a fixed +1 offset", "rule": "SEP-THREAD",
     "edits": [(U, "        parts = comp_key.split(separator)\n        key = parts[0]\n        if len(parts) == 1:\n            updated[optional(key) if is_optional else key] = val\n        else:\n            if key not in updated:\n                updated[key] = {}\n            tail = separator.join(parts[1:])\n",
                "        pos = comp_key.find(separator)\n        if pos == -1:\n            updated[optional(comp_key) if is_optional else comp_key] = val\n        else:\n            key, tail = comp_key[:pos], comp_key[pos + 1:]\n            if key not in updated:\n                updated[key] = {}\n")]},
    {"name": "neutral: find()-based split with len(separator)", "expect": "SILENT",
     "edits": [(U, "        parts = comp_key.split(separator)\n        key = parts[0]\n        if len(parts) == 1:\n            updated[optional(key) if is_optional else key] = val\n        else:\n            if key not in updated:\n                updated[key] = {}\n            tail = separator.join(parts[1:])\n",
                "        pos = comp_key.find(separator)\n        if pos == -1:\n            updated[optional(comp_key) if is_optional else comp_key] = val\n        else:\n            key, tail = comp_key[:pos], comp_key[pos + len(separator):]\n            if key not in updated:\n                updated[key] = {}\n")]},
]

MUTANTS += [
    {"name": "partition() with the leaf test on the tail", "rule": "SEP-THREAD",
     "edits": [(U, "        parts = comp_key.split(separator)\n        key = parts[0]\n        if len(parts) == 1:\n            updated[optional(key) if is_optional else key] = val\n        else:\n            if key not in updated:\n                updated[key] = {}\n            tail = separator.join(parts[1:])\n",
                "        key, _, tail = comp_key.partition(separator)\n        if not tail:\n            updated[optional(key) if is_optional else key] = val\n        else:\n            if key not in updated:\n                updated[key] = {}\n")]},
    {"name": "neutral: partition() with the leaf test on the separator element", "expect": "SILENT",
     "edits": [(U, "        parts = comp_key.split(separator)\n        key = parts[0]\n        if len(parts) == 1:\n            updated[optional(key) if is_optional else key] = val\n        else:\n            if key not in updated:\n                updated[key] = {}\n            tail = separator.join(parts[1:])\n",
                "        key, found, tail = comp_key.partition(separator)\n        if not found:\n            updated[optional(key) if is_optional else key] = val\n        else:\n            if key not in updated:\n                updated[key] = {}\n")]},
]
