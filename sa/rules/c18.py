"""C18 - rollout inverts flattening (structural clauses only; the round trip itself is not decided).

rollout() is evaluated abstractly on a symbolic flat mapping with one (and, for GROUP-GUARD, two) symbolic entries
K: V.  Every path yields a path condition and an abstract result table; the rules read the table:

  ELLIPSIS-PASS      K is `...`            ->  {K: V}
  LEAF-VALUE / OPTIONAL-REATTACH
                     K has no separator   ->  {HEAD(K) | optional(HEAD(K)): V}
                     K has a separator    ->  {HEAD(K): rollout({TAIL(K) | optional(TAIL(K)): V}, separator=separator)}
  RECURSE            the group is handed to rollout again (or the path excludes a further separator in the tail)
  SEP-THREAD         HEAD / TAIL / the leaf-or-group decision are computed from K with the `separator` parameter in
                     one of the recognised idioms (split + join, split(sep, 1), partition, find + slices); joins and
                     recursive calls carry the same parameter
  GROUP-GUARD        two entries with the same head end up in ONE group holding both tails

Any spelling of the control flow, helpers, comprehensions or setdefault produces the same tables.
"""
from __future__ import annotations

from typing import Any, Dict, List, Optional, Set, Tuple

from ..engine import Interp
from ..interp import Event, Path
from ..loader import AnalysisError, FuncInfo, Program
from ..model import Model
from ..report import Run
from ..values import Const, DictV, Inst, ListV, StrV, Sym, Term, TupleV, V, is_ell

SEP = "separator"


def _paths(prog: Program, model: Model, f: FuncInfo, unroll: int, split_on_store: bool = False) -> List[Path]:
    it = Interp(prog, model, unroll=unroll, max_depth=10)
    it.split_on_store = split_on_store      # type: ignore[attr-defined]

    def run1(i: Interp) -> V:
        return i.call_function(f, [Sym("keys", "dict", ("param", "keys"))],
                               {SEP: Sym(SEP, "str", ("param", SEP))})
    return it.run_paths(run1, max_paths=4000)


class Idioms:
    """Recognised ways of cutting `comp` at the first separator (keys of the abstract terms)."""

    def __init__(self, comp: str) -> None:
        self.comp = comp
        sp, sp1 = f"mcall({comp}, split, {SEP})", f"mcall({comp}, split, {SEP}, 1)"
        rsp = f"mcall({comp}, rsplit, {SEP})"
        pa = f"mcall({comp}, partition, {SEP})"
        self.pos = [f"mcall({comp}, find, {SEP})", f"mcall({comp}, index, {SEP})"]
        self.split_terms = [sp, sp1, rsp]
        self.partition = pa
        self.head: Set[str] = set()
        self.tail: Set[str] = set()
        self.tail_wrong: Dict[str, str] = {}
        for P in (sp, sp1, rsp, pa):
            self.head |= {f"getitem({P}, 0)", f"unpack({P}, 0)"}
        for P in (sp, rsp):
            self.tail.add(f"mcall({SEP}, join, slice({P}, 1, None, None))")
        self.tail |= {f"getitem({sp1}, 1)", f"unpack({sp1}, 1)", f"getitem({pa}, 2)", f"unpack({pa}, 2)"}
        for pos in self.pos:
            self.head |= {f"slice({comp}, None, {pos}, None)", f"slice({comp}, 0, {pos}, None)"}
            self.tail |= {f"slice({comp}, bin(+, {pos}, len({SEP})), None, None)",
                          f"slice({comp}, bin(+, len({SEP}), {pos}), None, None)"}
            self.tail_wrong[f"slice({comp}, bin(+, {pos}, 1), None, None)"] = \
                "the tail is cut at find() + 1: wrong for a separator longer than one character"
            self.tail_wrong[f"slice({comp}, bin(+, 1, {pos}), None, None)"] = self.tail_wrong[f"slice({comp}, bin(+, {pos}, 1), None, None)"]
        self.found = {f"getitem({pa}, 1)", f"unpack({pa}, 1)"}

    def decision(self, t: Any, b: bool) -> Optional[str]:
        """Meaning of a decided condition for the leaf-or-group choice: 'leaf', 'group', 'bad:<why>' or None."""
        k = t.key() if isinstance(t, V) else ""
        # number of parts n = len(split)
        for P in self.split_terms:
            lk = f"len({P})"
            if lk in k and isinstance(t, Term) and t.op in ("lt", "eq"):
                outs = set()
                for n in (1, 2, 3):
                    r = _eval_int(t, lk, n)
                    if r is None:
                        return None
                    if r == b:
                        outs.add(n)
                if outs == {1}:
                    return "leaf"
                if outs == {2, 3}:
                    return "group"
                return "bad:the number of parts is tested against the wrong bound"
            if k == f"slice({P}, 1, None, None)":
                return "group" if b else "leaf"             # truthiness of parts[1:]
        if k in self.found:
            return "group" if b else "leaf"
        for fk in self.found:
            if isinstance(t, Term) and t.op == "eq" and {a.key() for a in t.args if isinstance(a, V)} == {fk, "''"}:
                return "leaf" if b else "group"
        if k in self.tail and isinstance(t, V):
            return "bad:the leaf-or-group decision is made on the tail, which is also empty for a key that ENDS with the separator"
        for pos in self.pos:
            if pos in k and isinstance(t, Term) and t.op in ("lt", "eq"):
                outs = set()
                for n in (-1, 0, 1, 2):
                    r = _eval_int(t, pos, n)
                    if r is None:
                        return None
                    if r == b:
                        outs.add(n)
                if outs == {-1}:
                    return "leaf"
                if outs == {0, 1, 2}:
                    return "group"
                return "bad:the find() position is tested against the wrong bound"
        if isinstance(t, Term) and t.op == "in" and len(t.args) == 2 and t.args[0].key() == SEP and t.args[1].key() == self.comp:
            return "group" if b else "leaf"
        return None


def _eval_int(t: Any, var: str, n: int) -> Optional[bool]:
    def val(x: Any) -> Optional[int]:
        if isinstance(x, Const) and isinstance(x.value, int) and not isinstance(x.value, bool):
            return x.value
        if isinstance(x, V) and x.key() == var:
            return n
        if isinstance(x, Term) and x.op == "bin" and x.args[0] in ("+", "-"):
            a, b = val(x.args[1]), val(x.args[2])
            if a is None or b is None:
                return None
            return a + b if x.args[0] == "+" else a - b
        return None
    if isinstance(t, Term) and t.op in ("lt", "eq") and len(t.args) == 2:
        a, b = val(t.args[0]), val(t.args[1])
        if a is None or b is None:
            return None
        return a < b if t.op == "lt" else a == b
    return None


def _walk(v: Any, seen: Optional[Set[int]] = None) -> Any:
    if seen is None:
        seen = set()
    if not isinstance(v, V) or id(v) in seen:
        return
    seen.add(id(v))
    yield v
    if isinstance(v, Term):
        for a in v.args:
            yield from _walk(a, seen)
    elif isinstance(v, (ListV, TupleV)):
        for a in v.items:
            yield from _walk(getattr(a, "value", a), seen)
    elif isinstance(v, DictV):
        for it in v.items:
            if isinstance(it, tuple):
                yield from _walk(it[0], seen)
                yield from _walk(it[1], seen)
    elif isinstance(v, Inst):
        for a in v.attrs.values():
            yield from _walk(a, seen)
    elif isinstance(v, StrV):
        for pc in v.pieces:
            if not isinstance(pc, str):
                yield from _walk(pc[0], seen)


def _opt_payload(k: V) -> Optional[V]:
    """optional(X) instance -> X"""
    if isinstance(k, Inst) and k.cls is not None and k.cls.name == "optional":
        for a in ("key", "_key"):
            if a in k.attrs:
                return k.attrs[a]
        vals = list(k.attrs.values())
        return vals[0] if len(vals) == 1 else None
    return None


def _group_of(v: V) -> Tuple[Optional[DictV], Optional[Event], bool]:
    """value stored for a head -> (group table, was it handed to rollout?)"""
    if isinstance(v, DictV):
        return v, None, False
    if isinstance(v, Term) and v.op == "call" and v.args and str(v.args[0]).endswith("rollout") and len(v.args) >= 2 \
            and isinstance(v.args[1], DictV):
        return v.args[1], None, True
    return None, None, False


def check(run: Run, prog: Program, model: Model, tier: str) -> None:
    run.explanation = (
        "d42.utils.rollout is evaluated abstractly on a symbolic flat mapping with one symbolic entry K: V (and with "
        "two entries for the grouping rule); str methods, optional() and the recursive call are uninterpreted terms. "
        "Each returning path gives an abstract result table, which is compared with the specification of one rollout "
        "step: `...` passes through; a key without separator is stored under its head (wrapped in optional iff K was), "
        "value untouched; a key with a separator is stored as {head: rollout({tail: V}, separator=separator)} with the "
        "optional marker on the tail; head, tail and the leaf-or-group decision must be computed from K and the "
        "separator parameter in a recognised idiom; two entries whose heads coincide land in one group. These are "
        "necessary conditions of the round-trip property; the round trip on concrete mappings is not decided.")
    run.explanation += ' OPTIONAL-KEY-STORED: optional(k).key evaluates to k itself.'
    run.explanation += " PASS-THROUGH: a path that returns the mapping as it came while holding an optional key has tested that key's name for the separator."
    run.rule_text = ("one obligation per clause and key form (plain / optional / `...`), read off the abstract result tables; "
                     "non-trivial = needed the evaluation of both loops of rollout and of the recursive call's arguments")
    f = prog.func("d42.utils._rollout.rollout")
    site = f.loc
    params = [a.arg for a in f.node.args.kwonlyargs + f.node.args.args]
    if SEP not in params:
        raise AnalysisError("rollout has no `separator` parameter")
    paths = _paths(prog, model, f, 1)
    run.analysed["paths_one_entry"] = len(paths)
    K, Vv = "key0@keys", "val0@keys"
    verdicts: Dict[Tuple[str, str], List[Tuple[str, str]]] = {}

    def rec(rule: str, construct: str, status: str, detail: str = "") -> None:
        verdicts.setdefault((rule, construct), []).append((status, detail))

    # ---------------------------------------------------------------- SEP-THREAD (joins, recursive calls, cuts)
    for p in paths:
        for e in p.events:
            if e.kind == "join" and e.func.endswith("rollout"):
                sp = e.data.get("sep")
                it = e.data.get("iterable")
                if it is not None and K in it.key():
                    if isinstance(sp, V) and sp.key() == SEP:
                        rec("SEP-THREAD", "rollout: join of the tail", "holds")
                    else:
                        rec("SEP-THREAD", "rollout: join of the tail", "violated",
                            f"the tail is joined with {sp.key() if isinstance(sp, V) else sp} instead of the separator parameter")
            if e.kind == "call" and isinstance(e.data.get("callee"), str) and e.data["callee"].endswith("._rollout.rollout") \
                    and e.data.get("recursive"):
                kw = e.data.get("kwargs") or {}
                a = e.data.get("args") or []
                given = kw.get(SEP) if SEP in kw else (a[1] if len(a) > 1 else None)
                if isinstance(given, V) and given.key() == SEP:
                    rec("SEP-THREAD", "rollout: recursive call", "holds")
                else:
                    rec("SEP-THREAD", "rollout: recursive call", "violated",
                        "the recursive call does not pass the separator on: nested levels are split on the default '.'")
        for _, t, _b in p.facts:
            for x in _walk(t):
                _cut_term(x, rec)
        if p.value is not None:
            for x in _walk(p.value):
                _cut_term(x, rec)

    # ---------------------------------------------------------------- PASS-THROUGH: a path that hands the mapping back as it
    # came (a fast path) must have established, for an optional key too, that the key's NAME holds no separator
    for p in paths:
        if p.outcome != "return" or p.value is None:
            continue
        vk = p.value.key()
        if vk not in ("keys", "call(builtins.dict, keys)", "mcall(keys, copy)", "{**keys}") and not vk.startswith("call(builtins.dict, keys"):
            continue
        facts = {k: b for k, _, b in p.facts}
        opt_fact = next((b for k, b in facts.items() if k.startswith("isinstance(") and "optional" in k and "@keys" in k), None)
        if opt_fact is not True:
            continue
        payload_tested = any(("attr(" in k and ", key)" in k and ("separator" in k or "sep" in k.lower())) for k in facts)
        c = "rollout: mapping returned as it came (optional key)"
        if payload_tested:
            rec("PASS-THROUGH", c, "holds")
        else:
            rec("PASS-THROUGH", c, "violated", "a path returns the mapping unchanged although it holds an optional key whose name was never "
                "tested for the separator: optional('a.b') stays flat")
    # ---------------------------------------------------------------- one-entry tables
    for p in paths:
        if p.outcome != "return" or not isinstance(p.value, DictV):
            continue
        facts = {k: b for k, _, b in p.facts}
        if not any(K in k for k in facts):
            continue                        # no entry iterated
        if facts.get(f"isinstance({K}, ellipsis)") is True:
            tbl = p.value.pairs()
            if len(tbl) == 1 and tbl[0][0].key() == K and tbl[0][1].key() == Vv:
                rec("ELLIPSIS-PASS", "rollout: `...` entry", "holds")
            else:
                rec("ELLIPSIS-PASS", "rollout: `...` entry", "violated",
                    f"a `...: ...` entry yields {p.value.key()[:60]} instead of being passed through")
            continue
        is_opt = facts.get(f"isinstance({K}, optional)")
        if is_opt is None:
            continue
        comp = f"attr({K}, key)" if is_opt else K
        form = "optional key" if is_opt else "plain key"
        idi = Idioms(comp)
        meanings = [idi.decision(t, b) for _, t, b in p.facts]
        bad = [m for m in meanings if m and m.startswith("bad:")]
        dec = [m for m in meanings if m in ("leaf", "group")]
        tbl = p.value.pairs()
        if bad:
            rec("SEP-THREAD", "rollout: leaf-or-group decision", "violated", bad[0][4:])
            continue
        if not dec:
            rec("SEP-THREAD", "rollout: leaf-or-group decision", "undecided",
                "no recognised test of whether the key contains the separator on a returning path")
            continue
        rec("SEP-THREAD", "rollout: leaf-or-group decision", "holds")
        kind = dec[-1]
        if len(tbl) != 1:
            rec("LEAF-VALUE", f"rollout: {form}, one entry in", "violated", f"{len(tbl)} entries come out of one ({p.value.key()[:60]})")
            continue
        k, v = tbl[0]
        if kind == "leaf":
            pay = _opt_payload(k)
            name = pay if pay is not None else k
            c = f"rollout: leaf store ({form})"
            if (pay is not None) != bool(is_opt):
                rec("OPTIONAL-REATTACH", c, "violated",
                    "an optional key comes out required" if is_opt else "a required key comes out optional")
            elif name.key() in idi.head or name.key() == comp:
                rec("OPTIONAL-REATTACH", c, "holds")
            else:
                rec("OPTIONAL-REATTACH", c, "undecided", f"stored under {name.key()[:60]}: not a recognised spelling of the key")
            if v.key() == Vv or (isinstance(v, Term) and v.op == "call" and str(v.args[0]).endswith("rollout")
                                 and len(v.args) > 1 and v.args[1].key() == Vv):
                rec("LEAF-VALUE", f"rollout: leaf value ({form})", "holds")
            else:
                rec("LEAF-VALUE", f"rollout: leaf value ({form})", "violated", f"the leaf value is stored as {v.key()[:60]}, not as received")
            continue
        # group
        c = f"rollout: group store ({form})"
        if _opt_payload(k) is not None:
            rec("OPTIONAL-REATTACH", c, "violated", "the optional marker is attached to the HEAD (the group) instead of the tail")
            continue
        if k.key() not in idi.head:
            rec("SEP-THREAD", f"rollout: head ({form})", "undecided" if k.key() != comp else "violated",
                f"the group is stored under {k.key()[:60]}" + (": the whole key, not its head" if k.key() == comp else ": not a recognised head"))
        else:
            rec("SEP-THREAD", f"rollout: head ({form})", "holds")
        grp, _, recursed = _group_of(v)
        if grp is None or len(grp.pairs()) != 1:
            rec("RECURSE", f"rollout: group ({form})", "violated" if not isinstance(v, Term) else "undecided",
                f"the value stored for the head is {v.key()[:60]}, not a group table holding the tail")
            continue
        k2, v2 = grp.pairs()[0]
        pay = _opt_payload(k2)
        name = pay if pay is not None else k2
        if (pay is not None) != bool(is_opt):
            rec("OPTIONAL-REATTACH", c, "violated",
                "the optional marker is lost on the tail" if is_opt else "a required tail comes out optional")
        else:
            rec("OPTIONAL-REATTACH", c, "holds")
        nk = name.key()
        if nk in idi.tail:
            rec("SEP-THREAD", f"rollout: tail ({form})", "holds")
        elif nk in idi.tail_wrong:
            rec("SEP-THREAD", f"rollout: tail ({form})", "violated", idi.tail_wrong[nk])
        elif "join" in nk and SEP not in nk.split("join")[0][-30:] and "mcall(" in nk:
            rec("SEP-THREAD", f"rollout: tail ({form})", "violated", f"the tail {nk[:60]} is not joined with the separator parameter")
        else:
            rec("SEP-THREAD", f"rollout: tail ({form})", "undecided", f"tail {nk[:70]} is not a recognised spelling of the rest of the key")
        if v2.key() != Vv:
            rec("LEAF-VALUE", f"rollout: grouped value ({form})", "violated", f"the value is stored as {v2.key()[:60]}, not as received")
        else:
            rec("LEAF-VALUE", f"rollout: grouped value ({form})", "holds")
        if recursed:
            rec("RECURSE", f"rollout: group ({form})", "holds")
        else:
            # legitimate only if the path excludes a further separator in the tail and a dict payload
            excl = any((isinstance(t, Term) and t.op == "in" and t.args[0].key() == SEP and t.args[1].key() == nk and b is False)
                       for _, t, b in p.facts)
            two = any(f"len(mcall({comp}, split, {SEP}))" in kk and isinstance(t, Term) and t.op == "eq"
                      and _eval_int(t, f"len(mcall({comp}, split, {SEP}))", 2) == b and _eval_int(t, f"len(mcall({comp}, split, {SEP}))", 3) != b
                      for kk, t, b in p.facts)
            if excl or two:
                rec("RECURSE", f"rollout: group ({form})", "holds")
            else:
                rec("RECURSE", f"rollout: group ({form})", "violated",
                    "the group is stored without being rolled out although its tail may still contain the separator"
                    + (" (the tail is wrapped in optional, so a test on str keys does not see it)" if is_opt else ""))

    # ---------------------------------------------------------------- GROUP-GUARD (two entries, same head)
    _group_guard(run, prog, model, f, rec)

    # ---------------------------------------------------------------- OPTIONAL-KEY-EQ
    # rollout re-creates every optional marker from a piece of the split key (a plain str); the result equals the nested
    # mapping only if optional(a) == optional(b) - and their hashes - are decided by a == b alone
    oc = prog.cls("declaration.types._optional.optional")
    for mname in ("__eq__", "__hash__"):
        m = oc.methods.get(mname)
        if m is None:
            rec("OPTIONAL-KEY-EQ", f"optional.{mname}", "violated", f"optional has no {mname}: re-created markers never equal the original ones")
            continue
        it = Interp(prog, model, unroll=1)

        def run_o(i: Interp) -> V:
            a = i._construct(oc, [Sym("key_a", None, ("param", "a"))], {}, None)
            b = i._construct(oc, [Sym("key_b", None, ("param", "b"))], {}, None)
            return i.call_function(m, [b] if mname == "__eq__" else [], {}, self_val=a)
        foreign: List[str] = []
        seen = 0
        for p in it.run_paths(run_o):
            if p.outcome != "return":
                continue
            seen += 1
            for k, t, b in p.facts:
                if isinstance(t, Term) and t.op == "isinstance":
                    continue
                if isinstance(t, Term) and t.op == "eq" and {a_.key() for a_ in t.args if isinstance(a_, V)} == {"key_a", "key_b"}:
                    continue
                foreign.append(("" if b else "not ") + k[:70])
            if mname == "__hash__" and p.value is not None:
                for x in _walk(p.value):
                    if isinstance(x, Term) and ((x.op == "attr" and len(x.args) == 2 and x.args[1] == "__class__" and "key_a" in x.key())
                                                or (x.op == "call" and x.args and x.args[0] == "builtins.type")):
                        foreign.append(f"hash mixes in {x.key()[:50]}")
        if foreign:
            rec("OPTIONAL-KEY-EQ", f"optional.{mname}", "violated",
                f"the outcome also depends on `{foreign[0]}`: a marker re-created from a plain str piece differs from one built "
                "on an equal key of another class (a str subclass / enum member)")
        elif seen:
            rec("OPTIONAL-KEY-EQ", f"optional.{mname}", "holds")
        else:
            rec("OPTIONAL-KEY-EQ", f"optional.{mname}", "undecided", "no returning path")

    # ---------------------------------------------------------------- OPTIONAL-KEY-STORED
    # rollout re-wraps every still-compound tail in optional(tail) and unwraps it one level down: the round trip
    # optional(k).key must give back k itself, or group names / leaves are altered on the way
    it = Interp(prog, model, unroll=1)

    def run_k(i: Interp) -> V:
        o = i._construct(oc, [Sym("key_a", "str", ("param", "a"))], {}, None)
        return i.getattr(o, "key", None)
    try:
        kp = it.run_paths(run_k)
    except Exception as ex:      # no attribute-evaluation entry point under that name
        kp = []
        rec("OPTIONAL-KEY-STORED", "optional(key).key", "undecided", f"could not evaluate the accessor: {ex}")
    rets = [p for p in kp if p.outcome == "return"]
    for p in rets:
        if p.value is None or p.value.key() != "key_a":
            rec("OPTIONAL-KEY-STORED", "optional(key).key", "violated",
                f"optional(k).key is {p.value.key()[:50] if p.value is not None else None}, not k: the tail re-wrapped at one level "
                "is a different string at the next")
        else:
            rec("OPTIONAL-KEY-STORED", "optional(key).key", "holds")
    if kp and not rets:
        rec("OPTIONAL-KEY-STORED", "optional(key).key", "undecided", "no returning path")

    # ---------------------------------------------------------------- report
    for (rule, construct), vs in sorted(verdicts.items()):
        bad = sorted({d for s_, d in vs if s_ == "violated"})
        und = sorted({d for s_, d in vs if s_ == "undecided"})
        if bad:
            run.violated(rule, construct, site, "; ".join(bad)[:300], witness=_WITNESS.get(rule, ""))
        elif und:
            run.undecided(rule, construct, site, und[0])
        else:
            run.holds(rule, construct, site, f"on {len(vs)} paths", nontrivial=True)
    for rule, c in (("SEP-THREAD", "rollout: recursive call"), ("RECURSE", "rollout: group (plain key)"),
                    ("OPTIONAL-REATTACH", "rollout: group store (optional key)"), ("ELLIPSIS-PASS", "rollout: `...` entry")):
        if (rule, c) not in verdicts:
            run.undecided(rule, c, site, "no path of the abstract evaluation reaches this case")
    run.floor("SEP-THREAD", 2)
    run.floor("OPTIONAL-REATTACH", 2)
    run.floor("OPTIONAL-KEY-STORED", 1)
    run.floor("OPTIONAL-KEY-EQ", 2)


_WITNESS = {
    "SEP-THREAD": "rollout({'a/b/c': 1}, separator='/') / rollout({'a::b': 1}, separator='::') / rollout({'a.': 1})",
    "OPTIONAL-REATTACH": "rollout({optional('a.b'): 1}) != {'a': {optional('b'): 1}}",
    "RECURSE": "rollout({optional('a.b.c'): 0}) != {'a': {'b': {optional('c'): 0}}}",
    "LEAF-VALUE": "rollout({'a.b': v})['a']['b'] is not v",
    "ELLIPSIS-PASS": "rollout({...: ..., 'a.b': 1}) loses the `...: ...` entry",
    "GROUP-GUARD": "rollout({'a.b': 1, 'x': 0, 'a.c': 2}) != {'a': {'b': 1, 'c': 2}, 'x': 0}",
    "PASS-THROUGH": "rollout({'id': 1, optional('meta.deleted_at'): None}) comes back unchanged",
    "OPTIONAL-KEY-STORED": "rollout({optional('user. nick.value'): 1, 'user. nick.kind': 2}) splits the group ' nick' in two",
    "OPTIONAL-KEY-EQ": "class F(str, Enum): ZIP = 'zip'; rollout({optional('a.zip'): 1}) != {'a': {optional(F.ZIP): 1}}",
}


def _cut_term(x: Any, rec: Any) -> None:
    """str-cutting calls on the key must take the separator parameter."""
    if isinstance(x, Term) and x.op == "mcall" and len(x.args) >= 2 and x.args[1] in (
            "split", "rsplit", "partition", "rpartition", "find", "rfind", "index", "rindex") \
            and isinstance(x.args[0], V) and "@keys" in x.args[0].key():
        arg = x.args[2] if len(x.args) > 2 else None
        c = f"rollout: {x.args[1]}() of the key"
        if x.args[1] in ("rpartition", "rfind", "rindex") or (x.args[1] == "rsplit" and len(x.args) > 3):
            rec("SEP-THREAD", c, "violated", f"{x.args[1]}() cuts at the LAST separator: the head must end at the first one")
        elif isinstance(arg, V) and arg.key() == SEP:
            rec("SEP-THREAD", c, "holds")
        elif isinstance(arg, Const) or arg is None:
            rec("SEP-THREAD", c, "violated", f"the key is cut with {arg.key() if isinstance(arg, V) else 'whitespace'} instead of the separator parameter")
        else:
            rec("SEP-THREAD", c, "undecided", f"the key is cut with {arg.key()[:40]}")


def _group_guard(run: Run, prog: Program, model: Model, f: FuncInfo, rec: Any) -> None:
    paths = _paths(prog, model, f, 2, split_on_store=True)
    run.analysed["paths_two_entries"] = len(paths)
    K0, K1, V0, V1 = "key0@keys", "key1@keys", "val0@keys", "val1@keys"
    seen = 0
    for p in paths:
        if p.outcome != "return" or not isinstance(p.value, DictV):
            continue
        if not any(K1 in k for k, _, _ in p.facts):
            continue
        # second head unified with the first head
        unified = [e for e in p.events if e.kind == "cond" and e.data.get("unified") is not None and e.data.get("value")
                   and K1 in e.data["term"].args[0].key() and K0 in e.data["unified"].key()]
        if not unified:
            continue
        # the property's domain: both keys contain the separator (a key that is both a leaf and a group is excluded)
        both = True
        for kk in (K0, K1):
            opt = next((b for k_, _, b in p.facts if k_ == f"isinstance({kk}, optional)"), None)
            if opt is None:
                both = False
                break
            idi = Idioms(f"attr({kk}, key)" if opt else kk)
            ms = [idi.decision(t, b) for _, t, b in p.facts]
            if "group" not in ms or "leaf" in ms:
                both = False
        if not both:
            continue
        # only the heads may coincide: equal tails under equal heads would be one and the same flat key
        heads = {kk: Idioms(f"attr({kk}, key)").head | Idioms(kk).head for kk in (K0, K1)}
        allu = [e for e in p.events if e.kind == "cond" and e.data.get("unified") is not None and e.data.get("value")]
        if any(not (e.data["term"].args[0].key() in heads[K1] and e.data["unified"].key() in heads[K0]) for e in allu):
            continue
        # both values must be reachable from the result
        vals = {x.key() for x in _walk(p.value)}
        seen += 1
        if V0 in vals and V1 in vals:
            tops = p.value.pairs()
            if len(tops) == 1:
                rec("GROUP-GUARD", "rollout: two keys with one head", "holds")
            else:
                rec("GROUP-GUARD", "rollout: two keys with one head", "violated",
                    f"keys with the same head end up in {len(tops)} top-level entries")
        else:
            lost = V0 if V0 not in vals else V1
            rec("GROUP-GUARD", "rollout: two keys with one head", "violated",
                f"the entry of {'the first' if lost == V0 else 'the second'} key is lost when a later key has the same head "
                "(the group is re-created instead of extended)")
    if not seen:
        rec("GROUP-GUARD", "rollout: two keys with one head", "undecided",
            "no path on which the head of the second key is found among the groups created so far")


U = "d42/utils/_rollout.py"
MUTANTS = [
    {"name": "fast path returns a mapping without compound str keys as it came (seeded C18-L)", "rule": "PASS-THROUGH",
     "edits": [("d42/utils/_rollout.py", "def rollout(", "def _flat(keys: Any, separator: str) -> bool:\n    for key, val in keys.items():\n        if isinstance(key, str):\n            if separator in key:\n                return False\n        elif not isinstance(key, optional):\n            return False\n        if isinstance(val, dict):\n            return False\n    return True\n\n\ndef rollout("),
               ("d42/utils/_rollout.py", "    updated: ", "    if _flat(keys, separator):\n        return dict(keys)\n    updated: ")]},
    {"name": "optional() strips whitespace from string keys (seeded C18-J)", "rule": "OPTIONAL-KEY-STORED",
     "edits": [("d42/declaration/types/_optional.py", "        self._key = key\n", "        self._key = key.strip() if isinstance(key, str) else key\n")]},
    {"name": "optional equality also compares the classes of the keys", "rule": "OPTIONAL-KEY-EQ",
     "edits": [("d42/declaration/types/_optional.py", "        return isinstance(other, self.__class__) and (self._key == other.key)",
                "        return isinstance(other, self.__class__) and type(self._key) is type(other.key) and (self._key == other.key)")]},
    {"name": "neutral: optional equality with an early return", "expect": "SILENT",
     "edits": [("d42/declaration/types/_optional.py", "        return isinstance(other, self.__class__) and (self._key == other.key)",
                "        if not isinstance(other, self.__class__):\n            return False\n        return bool(self._key == other.key)")]},
    {"name": "recursive call without separator=", "rule": "SEP-THREAD",
     "edits": [(U, "rollout(v, separator=separator) if isinstance(v, dict) else v", "rollout(v) if isinstance(v, dict) else v")]},
    {"name": "\".\".join for the tail", "rule": "SEP-THREAD",
     "edits": [(U, "            tail = separator.join(parts[1:])", "            tail = \".\".join(parts[1:])")]},
    {"name": "tail store loses optional", "rule": "OPTIONAL-REATTACH",
     "edits": [(U, "            updated[key][optional(tail) if is_optional else tail] = val", "            updated[key][tail] = val")]},
    {"name": "group dict reset on every key", "rule": "GROUP-GUARD",
     "edits": [(U, "            if key not in updated:\n                updated[key] = {}", "            updated[key] = {}")]},
    {"name": "split on a literal dot", "rule": "SEP-THREAD",
     "edits": [(U, "        parts = comp_key.split(separator)", "        parts = comp_key.split(\".\")")]},
    {"name": "leaf store always optional", "rule": "OPTIONAL-REATTACH",
     "edits": [(U, "            updated[optional(key) if is_optional else key] = val", "            updated[optional(key)] = val")]},
    {"name": "no recursion into groups", "rule": "RECURSE",
     "edits": [(U, "        updated[k] = rollout(v, separator=separator) if isinstance(v, dict) else v", "        updated[k] = v")]},
    {"name": "ellipsis entry dropped", "rule": "ELLIPSIS-PASS",
     "edits": [(U, "            updated[comp_key] = val\n            continue", "            continue")]},
    {"name": "neutral: parts renamed and head/tail unpacked", "expect": "SILENT",
     "edits": [(U, "        parts = comp_key.split(separator)\n        key = parts[0]", "        parts = comp_key.split(separator)\n        key = parts[0]  # head")]},
    {"name": "neutral: recursion written as an if statement", "expect": "SILENT",
     "edits": [(U, "        updated[k] = rollout(v, separator=separator) if isinstance(v, dict) else v",
                "        if isinstance(v, dict):\n            updated[k] = rollout(v, separator=separator)")]},
]

MUTANTS += [
    {"name": "head/tail split with find() and a fixed +1 offset", "rule": "SEP-THREAD",
     "edits": [(U, "        parts = comp_key.split(separator)\n        key = parts[0]\n        if len(parts) == 1:\n            updated[optional(key) if is_optional else key] = val\n        else:\n            if key not in updated:\n                updated[key] = {}\n            tail = separator.join(parts[1:])\n",
                "        pos = comp_key.find(separator)\n        if pos == -1:\n            updated[optional(comp_key) if is_optional else comp_key] = val\n        else:\n            key, tail = comp_key[:pos], comp_key[pos + 1:]\n            if key not in updated:\n                updated[key] = {}\n")]},
    {"name": "neutral: find()-based split with len(separator)", "expect": "SILENT",
     "edits": [(U, "        parts = comp_key.split(separator)\n        key = parts[0]\n        if len(parts) == 1:\n            updated[optional(key) if is_optional else key] = val\n        else:\n            if key not in updated:\n                updated[key] = {}\n            tail = separator.join(parts[1:])\n",
                "        pos = comp_key.find(separator)\n        if pos == -1:\n            updated[optional(comp_key) if is_optional else comp_key] = val\n        else:\n            key, tail = comp_key[:pos], comp_key[pos + len(separator):]\n            if key not in updated:\n                updated[key] = {}\n")]},
]

MUTANTS += [
    {"name": "partition() with the leaf test on the tail", "rule": "SEP-THREAD",
     "edits": [(U, "        parts = comp_key.split(separator)\n        key = parts[0]\n        if len(parts) == 1:\n            updated[optional(key) if is_optional else key] = val\n        else:\n            if key not in updated:\n                updated[key] = {}\n            tail = separator.join(parts[1:])\n",
                "        key, _, tail = comp_key.partition(separator)\n        if not tail:\n            updated[optional(key) if is_optional else key] = val\n        else:\n            if key not in updated:\n                updated[key] = {}\n")]},
    {"name": "neutral: partition() with the leaf test on the separator element", "expect": "SILENT",
     "edits": [(U, "        parts = comp_key.split(separator)\n        key = parts[0]\n        if len(parts) == 1:\n            updated[optional(key) if is_optional else key] = val\n        else:\n            if key not in updated:\n                updated[key] = {}\n            tail = separator.join(parts[1:])\n",
                "        key, found, tail = comp_key.partition(separator)\n        if not found:\n            updated[optional(key) if is_optional else key] = val\n        else:\n            if key not in updated:\n                updated[key] = {}\n")]},
]
