"""C19 - v1-to-v2 migration rewrites imports and nothing else.

Decided statically: (1) every mapping target resolves in /repo's own source (whole clause 1);
(2) the rewrite binds the same local name; (3) only top-level, absolute `from` imports are
touched, unmapped names stay on the original module, aliases survive; (4) the splice is
column-aware.  The behaviour of the rewriter over all programs is NOT decided.
"""
from __future__ import annotations

import ast
from typing import Any, Dict, List, Optional, Set, Tuple

from ..loader import AnalysisError, ClassInfo, FuncInfo, Module, Program
from ..model import Model
from ..report import Run
from ..engine import Interp
from ..values import Const, DictV, Inst, ListV, StrV, Sym, Term, TupleV, V

MOD = "d42.migration.migrate_v1_to_v2"


def _names_in(node: ast.AST) -> Set[str]:
    return {n.id for n in ast.walk(node) if isinstance(n, ast.Name)}


def _attrs_in(node: ast.AST) -> Set[str]:
    return {n.attr for n in ast.walk(node) if isinstance(n, ast.Attribute)}


def check(run: Run, prog: Program, model: Model, tier: str) -> None:
    run.explanation = (
        "Static import resolution of every (module, name) target of the v1->v2 mapping literal against "
        "/repo's own module and binding tables (re-exports chased to a definition). rewrite_imports itself is "
        "evaluated abstractly with one symbolic top-level statement N and one symbolic alias A of it (ast.parse, "
        "splitlines are uninterpreted): on every path that records a replacement for N the path condition has "
        "established isinstance(N, ast.ImportFrom) and N.level == 0, N is a member of ast.parse(..).body; the recorded "
        "replacement text is a symbolic string from which `from <module> import <name>[ as <alias>]` is read off and "
        "compared with mapping[N.module][A.name] (mapped) or N.module / A.name (unmapped); the value spliced into the "
        "line list keeps the prefix [:col_offset] and suffix [end_col_offset:] of the shared lines, cut from the "
        "encoded line, read at application time. Any spelling of guards, helpers, loops or comprehensions yields the "
        "same paths. Clause 1 (all targets importable) is decided completely; the rewriter's behaviour on all programs "
        "(several imports, several aliases per import, exotic layouts) is not.")
    run.explanation += " LINE-TABLE: the list indexed by ast line numbers is not built by str.splitlines() / split('\\n'). NOTHING-TO-DO: a None return before ast.parse is accepted for substring tests only."
    run.explanation += ' SPLICE-TERMINATED: with the alias loop unrolled twice, every element spliced into the line table that is followed by another one ends in a literal line terminator; the text cut from behind the import (no terminator when the file does not end in a newline) may only be the tail of the last element.'
    run.rule_text = ("one obligation per mapping entry (target resolves; name preserved) and per structural "
                     "clause of rewrite_imports; non-trivial = needed re-export chasing through >=1 package "
                     "__init__ or a def-use derivation inside rewrite_imports")
    run.trusted += ["Python import semantics for absolute `from m import n` (module file exists and binds n at "
                    "top level, or n is a submodule)", "ast node attributes lineno/end_lineno/col_offset"]
    mod = prog.module(MOD)
    b = mod.bindings.get("mapping")
    if b is None or not isinstance(b.node, ast.Dict):
        raise AnalysisError("mapping literal not found in migrate_v1_to_v2")
    try:
        mapping = ast.literal_eval(b.node)
    except Exception as e:
        # not a pure literal (a comprehension over constant names, say): evaluate the expression abstractly
        mapping = _eval_constant(prog, model, mod, b.node)
        if not isinstance(mapping, dict):
            raise AnalysisError(f"mapping is not a literal: {e}")

    # ---------------------------------------------------------------- (1) TARGETS-RESOLVE, (2) NAME
    n_entries = 0
    renamed: List[Tuple[str, str, str]] = []
    for old_mod, names in mapping.items():
        for old_name, target in names.items():
            n_entries += 1
            construct = f"mapping[{old_mod!r}][{old_name!r}]"
            if not (isinstance(target, tuple) and len(target) == 2):
                run.violated("TARGETS-RESOLVE", construct, mod.path, f"target {target!r} is not (module, name)")
                continue
            new_mod, new_name = target
            if new_mod not in prog.modules:
                run.violated("TARGETS-RESOLVE", construct, mod.path,
                             f"module {new_mod!r} does not exist under /repo",
                             witness=f"from {new_mod} import {new_name}")
                continue
            r = prog.resolve(new_mod, new_name)
            m2 = prog.modules[new_mod]
            direct = new_name in m2.bindings and m2.bindings[new_name].kind in ("def", "class", "assign")
            if r is None or (isinstance(r, tuple) and r[0] != "assign"):
                run.violated("TARGETS-RESOLVE", construct, mod.path,
                             f"name {new_name!r} is not bound at top level of {new_mod}",
                             witness=f"from {new_mod} import {new_name}")
            elif not prog.runtime_bound(new_mod, new_name):
                run.violated("TARGETS-RESOLVE", construct, mod.path,
                             f"name {new_name!r} is only imported under `if TYPE_CHECKING:` on the way from {new_mod}: it does not "
                             "exist at run time",
                             witness=f"from {new_mod} import {new_name}   # ImportError in the migrated module")
            else:
                where = getattr(r, "qualname", None) or (r.name if isinstance(r, Module) else str(r)[:60])
                run.holds("TARGETS-RESOLVE", construct, mod.path, f"-> {where}", nontrivial=not direct)
            if new_name != old_name:
                renamed.append((old_mod, old_name, new_name))
    run.floor("TARGETS-RESOLVE", 60)
    run.analysed["mapping_entries"] = n_entries

    fn = prog.func(f"{MOD}.rewrite_imports")
    body = fn.node

    # ---------------------------------------------------------------- abstract evaluation of rewrite_imports
    # one symbolic top-level statement N with one symbolic alias A; every rule below reads the paths
    paths, records = _evaluate(prog, model, fn)
    run.analysed["rewrite_imports_paths"] = len(paths)
    run.analysed["recording_paths"] = len(records)

    # ---------------------------------------------------------------- (3) SCOPE
    _scope_toplevel(run, fn, records)
    _scope_guards(run, fn, records)

    # ---------------------------------------------------------------- (2) what is emitted for an alias
    alias_safe = _emissions(run, mod, fn, records)
    if not renamed:
        run.holds("NAME-PRESERVING", "mapping (all entries)", mod.path,
                  f"all {n_entries} entries map a name to the same name", nontrivial=False)
    else:
        for old_mod, old_name, new_name in renamed:
            c = f"mapping[{old_mod!r}][{old_name!r}] -> {new_name}"
            if alias_safe:
                run.holds("NAME-PRESERVING", c, fn.loc, "rewriter emits `as <old name>` for renamed entries",
                          nontrivial=True)
            else:
                run.violated("NAME-PRESERVING", c, fn.loc,
                             "entry renames the symbol and rewrite_imports emits the new name without "
                             "`as <old name>`, so the local binding changes",
                             witness=f"from {old_mod} import {old_name}  # then use {old_name}")

    # ---------------------------------------------------------------- (4) SPAN
    _span(run, fn, records)
    _nothing_to_do(run, fn, paths)
    _splice_terminated(run, prog, model, fn)
    run.floor("SPLICE-TERMINATED", 1)
    # vacuity guard: if no path of the abstract evaluation records a replacement, every rule above is undecided
    run.floor("SCOPE-IMPORTFROM", 1)



def _eval_constant(prog: Program, model: Model, mod: Any, node: ast.expr) -> Any:
    """Value of a module-level expression built from constants only (literals, comprehensions over them)."""
    from ..interp import Frame
    out: Dict[str, Any] = {}

    def to_py(v: Any) -> Any:
        if isinstance(v, Const):
            return v.value
        if isinstance(v, StrV) and all(isinstance(pc, str) for pc in v.pieces):
            return "".join(v.pieces)            # an f-string over constants
        if isinstance(v, DictV) and v.concrete():
            return {to_py(k): to_py(x) for k, x in v.pairs()}
        if isinstance(v, (TupleV, ListV)) and v.concrete():
            items = [to_py(x) for x in v.items]
            return tuple(items) if isinstance(v, TupleV) else items
        raise ValueError(f"not a constant: {getattr(v, 'key', lambda: v)()}")
    it = Interp(prog, model, unroll=64)

    def run1(i: Interp) -> V:
        out["v"] = i.eval(node, Frame(None, mod, {}, None, None))
        return out["v"]
    try:
        ps = it.run_paths(run1)
        if len(ps) != 1 or ps[0].outcome != "return":
            return None
        return to_py(ps[0].value)
    except Exception:
        return None

def _evaluate(prog: Program, model: Model, fn: FuncInfo) -> Tuple[List[Any], List[Any]]:
    it = Interp(prog, model, unroll=1)

    def run1(i: Interp) -> V:
        return i.call_function(fn, [Sym("source_code", "str", ("param", "source_code")),
                                    Sym("mapping", "dict", ("param", "mapping"))], {})
    paths = it.run_paths(run1)
    records = []      # (path, event, node symbol): the first write on the path whose value carries N.lineno
    for p in paths:
        for e in p.events:
            if e.kind != "write":
                continue
            vals = list(e.data.get("args") or []) + ([e.data["value"]] if isinstance(e.data.get("value"), V) else [])
            node = None
            for a in vals:
                for x in _walk_values(a):
                    if isinstance(x, Term) and x.op == "attr" and len(x.args) == 2 and x.args[1] == "lineno" \
                            and isinstance(x.args[0], Sym) and x.args[0].origin and x.args[0].origin[0] == "elem":
                        node = x.args[0]
            if node is not None:
                records.append((p, e, node))
                break
    return paths, records



def _nothing_to_do(run: Run, fn: FuncInfo, paths: List[Any]) -> None:
    """NOTHING-TO-DO: "reports nothing to do" is a statement about the module's top-level imports, i.e. about the
    parsed tree.  A path that returns None before the source has been parsed has decided it on the raw text: a plain
    substring test for the v1 package names is implied by the absence of such imports (sound), a regular expression
    (anchored at line starts, say) is not - `import os; from district42 import schema` has no line starting with
    `from`."""
    c = "rewrite_imports: `nothing to do` is decided on the parsed module"
    early = []
    for p in paths:
        if p.outcome != "return" or not (isinstance(p.value, Const) and p.value.value is None):
            continue
        parsed = any(e.kind == "call" and isinstance(e.data.get("callee"), str) and e.data["callee"] in ("ast.parse", "builtins.compile")
                     for e in p.events)
        if not parsed:
            early.append(p)
    if not early:
        run.holds("NOTHING-TO-DO", c, fn.loc, "every path that returns None has parsed the source", nontrivial=True)
        return
    regex = []
    other = []
    for p in early:
        ks = [k for k, _, _ in p.facts]
        if any(("re." in k or "Pattern" in k or "mcall(call(re.compile" in k or ", search," in k or ", match," in k) for k in ks):
            regex.append(ks[-1] if ks else "")
        elif ks and all(k.startswith("in(") or k.startswith("any(") or k.startswith("not") for k in ks):
            continue        # substring tests only
        else:
            other.append(ks[-1] if ks else "unconditionally")
    if regex:
        run.violated("NOTHING-TO-DO", c, fn.loc, f"a path returns None before parsing, on a regular-expression test of the raw text ({regex[0][:70]}): "
                     "imports that the pattern cannot see (not first on their physical line, CR line ends, continuation lines) are left on v1",
                     witness='rewrite_imports("import os; from district42 import schema\n", mapping) returns None')
    elif other:
        run.undecided("NOTHING-TO-DO", c, fn.loc, f"a path returns None before parsing ({other[0][:70]})")
    else:
        run.holds("NOTHING-TO-DO", c, fn.loc, "early exits are substring tests for the v1 package names only", nontrivial=True)

def _scope_toplevel(run: Run, fn: FuncInfo, records: List[Any]) -> None:
    c = "rewrite_imports: statement loop"
    if not records:
        run.undecided("SCOPE-TOPLEVEL", c, fn.loc, "no path records a replacement: collection not recognised")
        return
    srcs = {node.origin[1].key() for _, _, node in records if isinstance(node.origin[1], V)}
    walk = sorted(k for k in srcs if "ast.walk" in k or "ast.iter_child_nodes" in k or "walk(" in k)
    body = sorted(k for k in srcs if k.startswith("attr(call(ast.parse") and k.endswith(", body)"))
    if walk:
        run.violated("SCOPE-TOPLEVEL", c, fn.loc,
                     f"statements are taken from {walk[0][:60]}: nested imports are rewritten too",
                     witness="def f():\n    from district42 import schema\n")
    elif body and len(body) == len(srcs):
        run.holds("SCOPE-TOPLEVEL", c, fn.loc, "rewritten statements are members of ast.parse(source).body (top level only)", nontrivial=True)
    else:
        run.undecided("SCOPE-TOPLEVEL", c, fn.loc, f"statements come from {sorted(srcs)[0][:80]}")


def _span(run: Run, fn: FuncInfo, records: List[Any]) -> None:
    """SPAN / SPAN-BYTES / SPAN-FRESH on the value spliced into the line list for the recorded statement N:
    the text around the import on its first / last physical line is cut with N.col_offset / N.end_col_offset (SPAN),
    from the UTF-8 encoded line because ast offsets are byte offsets (SPAN-BYTES), and from the line as it is when
    the replacement is applied, not from a copy taken while collecting (SPAN-FRESH: replacements are applied
    last-to-first on one shared list, two imports on one physical line would otherwise overwrite each other)."""
    site = fn.loc
    c = "rewrite_imports: splice granularity"
    splices = []        # (path, record event, splice event, node)
    for p, e, node in records:
        seen_rec = False
        for ev in p.events:
            if ev is e:
                seen_rec = True
                continue
            if seen_rec and ev.kind == "write" and ev.data.get("how") == "setitem" and isinstance(ev.data.get("index"), Term) \
                    and ev.data["index"].op == "sliceobj":
                splices.append((p, e, ev, node))
    if not splices:
        for r in ("SPAN",):
            run.undecided(r, c, site, "no slice assignment into the line list follows the recording of a replacement")
        return
    # ---- LINE-TABLE: the list that is indexed with ast line numbers must be cut at exactly the terminators the tokenizer
    # counts (\n, \r\n, \r).  str.splitlines() also breaks at \x0b \x0c \x1c-\x1e \x85 \u2028 \u2029, all legal inside
    # comments and string literals (form feed also between tokens): every such character before an import shifts the splice
    # window by one "line".  split("\n") misses a lone \r.
    tables = {ev.data["target"].key(): ev.data["target"] for _, _, ev, _ in splices if isinstance(ev.data.get("target"), V)}
    ct = "rewrite_imports: the line table agrees with ast line numbers"
    for tk, tv in sorted(tables.items()):
        if "splitlines" in tk:
            run.violated("LINE-TABLE", ct, site, f"the spliced list is {tk[:60]}: str.splitlines() breaks at more characters than the tokenizer "
                         "counts as line ends (form feed, VT, FS/GS/RS, NEL, U+2028, U+2029)",
                         witness='rewrite_imports("x = 1\n\x0c\nfrom district42 import schema\n", mapping) keeps the v1 import and adds a second '
                                 'statement; with "x = \'a\x0cb\'\n..." the output is not valid Python')
        elif "mcall(" in tk and ", split," in tk:
            run.violated("LINE-TABLE", ct, site, f"the spliced list is {tk[:60]}: a lone \\r is a line end for ast but not for this split",
                         witness="a module with CR-only line ends")
        elif "readlines" in tk or "re.findall" in tk or "re.split" in tk or "tokenize" in tk:
            run.holds("LINE-TABLE", ct, site, f"line list built by {tk[:60]}", nontrivial=True)
        else:
            run.undecided("LINE-TABLE", ct, site, f"line list built by {tk[:60]}: terminator set not recognised")
    cuts: Dict[str, Tuple[Term, Any, Any, str]] = {}        # key -> (slice term, path, record event, which)
    per_path = []
    for p, e, ev, node in splices:
        nk = node.key()
        colk, endk = f"attr({nk}, col_offset)", f"attr({nk}, end_col_offset)"
        found = set()
        for x in _walk_values(ev.data["value"]):
            if isinstance(x, Term) and x.op == "slice" and len(x.args) == 4:
                lo, hi = x.args[1], x.args[2]
                if isinstance(hi, V) and hi.key() == colk and isinstance(lo, Const) and lo.value in (None, 0):
                    cuts.setdefault(x.key(), (x, p, e, "prefix"))
                    found.add("prefix")
                if isinstance(lo, V) and lo.key() == endk and isinstance(hi, Const) and hi.value is None:
                    cuts.setdefault(x.key(), (x, p, e, "suffix"))
                    found.add("suffix")
        per_path.append((p, ev, found))
    kinds = {w for _, _, _, w in cuts.values()}
    if not cuts:
        uses_segments = any("get_source_segment" in k or "tokenize" in k for p, _, ev, _ in splices for k in [ev.data["value"].key()])
        if uses_segments:
            run.undecided("SPAN", c, site, "splice built from source segments / tokens")
        else:
            run.violated("SPAN", c, site,
                         "the replacement is spliced over whole physical lines lineno..end_lineno and never consults "
                         "col_offset/end_col_offset: other statements sharing a line with the import are dropped",
                         witness='rewrite_imports("from district42 import schema; x = 1\\n", mapping) loses `x = 1`')
        return
    probs = []
    if "prefix" not in kinds:
        probs.append("text BEFORE the import on its first line is never kept")
    if "suffix" not in kinds:
        probs.append("text AFTER the import on its last line is never kept")
    # a splice that keeps neither must be on a path that established both are blank
    for p, ev, found in per_path:
        for which in ("prefix", "suffix"):
            if which in found or which not in kinds:
                continue
            blank = False
            for k, t, b in p.facts[:ev.nfacts]:
                if b is False and any(ck in k for ck, (_, _, _, w) in cuts.items() if w == which) and "strip" in k:
                    blank = True
            if not blank:
                probs.append(f"a replacement is spliced without the {which} on a path that did not establish it is blank")
    if probs:
        run.violated("SPAN", c, site, "; ".join(sorted(set(probs))),
                     witness='rewrite_imports("x = 1; from district42 import schema; y = 2\\n", mapping) loses a statement')
    else:
        run.holds("SPAN", c, site, "prefix [:col_offset] and suffix [end_col_offset:] of the shared lines are kept unless blank", nontrivial=True)
    # SPAN-ONELINE: where prefix / suffix are kept, the generated statements sit INSIDE one physical line, so no line
    # terminator may survive in them (a generated line ends in a literal terminator that has to be stripped completely)
    oneline_bad: List[str] = []
    oneline_seen = 0
    for p, ev, found in per_path:
        if not found:
            continue
        val = ev.data["value"]
        items = val.items if isinstance(val, ListV) else [val]
        def terminators(v: Any) -> None:
            """literal line terminators that survive in the text `v` denotes (strip calls applied to literal tails)"""
            nonlocal oneline_seen
            if isinstance(v, Term) and v.op == "mcall" and len(v.args) >= 2 and v.args[1] in ("rstrip", "strip") \
                    and isinstance(v.args[0], StrV):
                chars = v.args[2].value if len(v.args) > 2 and isinstance(v.args[2], Const) else " \t\n\r\x0b\x0c"
                sh = _line_shape(v.args[0])
                if sh and sh[-1][0] == "lit":
                    sh[-1] = ("lit", sh[-1][1].rstrip(chars))
                check(sh)
                return
            if isinstance(v, StrV):
                check(_line_shape(v))
                for piece in v.pieces:
                    if not isinstance(piece, str):
                        terminators(piece[0])
                return
            if isinstance(v, Term) and v.op in ("listcomp", "gencomp", "setcomp") and v.args and isinstance(v.args[0], V):
                terminators(v.args[0])      # what the comprehension yields; its source is an input, not part of the text
                return
            if isinstance(v, Term):
                for a in v.args:
                    if isinstance(a, V) and not (isinstance(a, Term) and a.op == "src"):
                        terminators(a)
            elif isinstance(v, (ListV, TupleV)):
                for a in v.items:
                    terminators(getattr(a, "value", a))

        def check(sh: List[Tuple[str, str]]) -> None:
            nonlocal oneline_seen
            if "import" not in "".join(t for k, t in sh if k == "lit"):
                return
            oneline_seen += 1
            for sh_k, sh_t in sh:
                if sh_k == "lit" and ("\r" in sh_t or "\n" in sh_t):
                    oneline_bad.append(f"a generated statement keeps {sh_t[-2:]!r} when it is joined into the shared line")
        for item in items:
            terminators(item)
    c_ol = "rewrite_imports: one-line splice"
    if oneline_bad:
        run.violated("SPAN-ONELINE", c_ol, site, "; ".join(sorted(set(oneline_bad)))[:200],
                     witness="a CRLF module: 'from district42 import schema; x = 1\\r\\n' is rewritten with a bare \\r in the middle of the line")
    elif oneline_seen:
        run.holds("SPAN-ONELINE", c_ol, site, "no line terminator survives inside the joined replacement", nontrivial=True)
    else:
        run.undecided("SPAN-ONELINE", c_ol, site, "the joined replacement is not a symbolic string")
    for i, (ck, (x, p, e, which)) in enumerate(sorted(cuts.items(), key=lambda kv: kv[1][3])):
        cc = f"rewrite_imports: column slice #{i + 1}"
        recv = x.args[0]
        loc = f"{fn.module.path}:{getattr(x.node, 'lineno', 0)}"
        if isinstance(recv, Term) and recv.op == "mcall" and len(recv.args) >= 2 and recv.args[1] == "encode":
            run.holds("SPAN-BYTES", cc, loc, f"{which}: column offset applied to the encoded (bytes) line", nontrivial=True)
        elif isinstance(recv, Term) and recv.op == "getitem" or (isinstance(recv, V) and getattr(recv, "kind", None) == "str"):
            run.violated("SPAN-BYTES", cc, loc,
                         f"{which}: a UTF-8 byte offset is applied to a str: wrong cut when a non-ASCII character precedes it",
                         witness="\"t = 'über'; from district42 import schema\\n\" is spliced one character off")
        else:
            run.undecided("SPAN-BYTES", cc, loc, f"{which}: receiver {recv.key()[:60]} of the column slice not recognised")
        # the line read that feeds the cut
        line_reads = [t for t in _walk_values(recv) if isinstance(t, Term) and t.op == "getitem"]
        if isinstance(recv, Term) and recv.op == "getitem":
            line_reads.append(recv)
        pos_rec = p.events.index(e)
        pos_read = None
        for t in line_reads:
            for j, ev2 in enumerate(p.events):
                if ev2.kind == "partial" and ev2.data.get("op") == "getitem" and ev2.node is t.node:
                    pos_read = j if pos_read is None else min(pos_read, j)
        if pos_read is None:
            run.undecided("SPAN-FRESH", cc, loc, f"{which}: the read of the line that is cut was not located")
        elif pos_read > pos_rec:
            run.holds("SPAN-FRESH", cc, loc, f"{which}: cut from the current line while applying", nontrivial=True)
        else:
            run.violated("SPAN-FRESH", cc, loc,
                         f"{which}: the text kept around the import is cut while collecting; replacements are applied last-to-first, so for "
                         "two imports on one physical line the stale text of the first overwrites the rewritten second",
                         witness="'from district42 import schema; from valera import validate' keeps the v1 `valera` import")


def _splice_terminated(run: Run, prog: Program, model: Model, fn: FuncInfo) -> None:
    """SPLICE-TERMINATED: the output is ''.join(lines), so every element spliced into the line table that is followed by
    another spliced element must end in a line terminator of its own.  The generated statements do (literal tail of the
    f-string); the text cut from behind the import on its last physical line does only when the file goes on - the last line
    of a file need not end in a newline - so it may only ever be the tail of the LAST spliced element.  Evaluated with the
    alias loop unrolled twice (two generated statements for one import)."""
    from ..engine import Interp
    it = Interp(prog, model, unroll=1)
    it.unroll_of = lambda v: 2 if v.key().endswith(", names)") else 1     # type: ignore[attr-defined]

    def run1(i: Any) -> V:
        return i.call_function(fn, [Sym("source_code", "str", ("param", "source_code")),
                                    Sym("mapping", "dict", ("param", "mapping"))], {})
    c = "rewrite_imports: every spliced line but the last carries its own terminator"
    try:
        paths = it.run_paths(run1, max_paths=3000)
    except Exception as ex:        # pragma: no cover
        run.undecided("SPLICE-TERMINATED", c, fn.loc, f"evaluation failed: {ex}")
        return

    def tail(v: Any) -> Tuple[str, str]:
        """('lit', text) | ('cut', key) - the text behind the import taken from the source line | ('?', key)"""
        if isinstance(v, Const) and isinstance(v.value, str):
            return ("lit", v.value)
        if isinstance(v, StrV):
            sh = _line_shape(v)
            if sh and sh[-1][0] == "lit":
                return ("lit", sh[-1][1])
            if v.pieces and not isinstance(v.pieces[-1], str):
                return tail(v.pieces[-1][0])
            return ("?", v.key())
        if isinstance(v, Term) and v.op == "bin" and len(v.args) == 3 and v.args[0] == "+":
            return tail(v.args[2])
        if isinstance(v, Term) and any(isinstance(x, Term) and x.op == "slice" and len(x.args) == 4 and isinstance(x.args[1], V)
                                       and "end_col_offset" in x.args[1].key() for x in _walk_values(v)):
            return ("cut", v.key())
        return ("?", v.key() if isinstance(v, V) else repr(v))
    multi = 0
    bad: List[str] = []
    unknown: List[str] = []
    for p in paths:
        for ev in p.events:
            if ev.kind == "write" and ev.data.get("how") == "setitem" and isinstance(ev.data.get("index"), Term) \
                    and ev.data["index"].op == "sliceobj" and isinstance(ev.data.get("value"), ListV):
                items = ev.data["value"].items
                if len(items) < 2:
                    continue
                multi += 1
                for x in items[:-1]:
                    kind, txt = tail(x)
                    if kind == "lit" and txt.endswith(("\n", "\r")):
                        continue
                    guarded = any("endswith" in k for k, _, _ in p.facts[:ev.nfacts])
                    if kind == "cut" and not guarded:
                        bad.append("a spliced element that is followed by another one ends with the text cut from behind the import "
                                   "on its last physical line: that text has no terminator when the file does not end in a newline")
                    elif kind == "lit" and not guarded:
                        bad.append(f"a spliced element that is followed by another one ends in {txt[-12:]!r}, not in a line terminator")
                    else:
                        unknown.append(f"tail {txt[:60]} of a non-final spliced element")
    if any(p.outcome == "limit" for p in paths):
        run.undecided("SPLICE-TERMINATED", c, fn.loc, "path limit")
    elif bad:
        run.violated("SPLICE-TERMINATED", c, fn.loc, "; ".join(sorted(set(bad)))[:400],
                     witness="rewrite_imports('from district42 import schema, optional_key  # noqa', m) glues the second generated import "
                             "into the comment of the first when the file has no final newline")
    elif unknown:
        run.undecided("SPLICE-TERMINATED", c, fn.loc, "; ".join(sorted(set(unknown)))[:300])
    elif multi:
        run.holds("SPLICE-TERMINATED", c, fn.loc, f"{multi} splices of two generated statements, each non-final element ends in a literal terminator", nontrivial=True)
    else:
        run.holds("SPLICE-TERMINATED", c, fn.loc, "no splice of more than one element with two aliases", nontrivial=False)


def _only_exits(body: List[ast.stmt]) -> bool:
    return all(isinstance(x, (ast.Continue, ast.Pass)) for x in body)


def _walk_values(v: Any, seen: Optional[Set[int]] = None) -> Any:
    if seen is None:
        seen = set()
    if id(v) in seen:
        return
    seen.add(id(v))
    yield v
    if isinstance(v, Term):
        for a in v.args:
            yield from _walk_values(a, seen)
    elif isinstance(v, (ListV, TupleV)):
        for a in v.items:
            yield from _walk_values(getattr(a, "value", a), seen)
    elif isinstance(v, StrV):
        for piece in v.pieces:
            if not isinstance(piece, str):
                yield from _walk_values(piece[0], seen)
    elif isinstance(v, DictV):
        for it in v.items:
            if isinstance(it, tuple):
                yield from _walk_values(it[0], seen)
                yield from _walk_values(it[1], seen)
            else:
                yield from _walk_values(getattr(it, "value", it), seen)
    elif isinstance(v, Inst):
        for a in v.attrs.values():
            yield from _walk_values(a, seen)
    elif isinstance(v, Sym) and v.origin:
        for a in v.origin:
            if isinstance(a, V):
                yield from _walk_values(a, seen)


def _scope_guards(run: Run, fn: FuncInfo, records: List[Any]) -> None:
    """SCOPE-IMPORTFROM / SCOPE-ABSOLUTE, decided on the paths of rewrite_imports (abstract evaluation with one
    symbolic top-level statement): whenever a replacement is recorded for a statement - some container receives a
    value carrying that statement's `lineno` - the path has established isinstance(node, ast.ImportFrom) and
    node.level == 0.  Independent of how the guards are spelled (nested ifs, early `continue`, helper functions)."""
    site = fn.loc
    if not records:
        for r in ("SCOPE-IMPORTFROM", "SCOPE-ABSOLUTE"):
            run.undecided(r, "rewrite_imports: " + ("node kind guard" if r.endswith("FROM") else "relative imports"), site,
                          "no path records a replacement carrying a statement's line number: collection not recognised")
        return
    kinds_bad: Set[str] = set()
    no_guard = undecided_kind = False
    rel: Set[str] = set()
    for p, e, node in records:
        nk = node.key()
        facts = p.facts[:e.nfacts]
        isin = [(t, b) for _, t, b in facts if isinstance(t, Term) and t.op == "isinstance" and t.args[0].key() == nk]
        pos = [str(t.args[1]) for t, b in isin if b]
        if any(lab.split(".")[-1] == "ImportFrom" for lab in pos):
            pass
        elif pos:
            kinds_bad |= {k for lab in pos for k in lab.split("|")}
        elif any(nk in k for k, _, _ in facts):
            undecided_kind = True
        else:
            no_guard = True
        # admitted values of node.level in {0..3}
        lk = f"attr({nk}, level)"
        admitted = set(range(4))
        unknown = False
        for k, t, b in facts:
            if lk not in k:
                continue
            ok_vals = set()
            for lv in admitted:
                r = _eval_level(t, lk, lv)
                if r is None:
                    unknown = True
                    ok_vals.add(lv)
                elif r == b:
                    ok_vals.add(lv)
            admitted = ok_vals
        if admitted == {0}:
            rel.add("ok")
        elif unknown:
            rel.add("unknown")
        else:
            rel.add("bad")
    c1 = "rewrite_imports: node kind guard"
    if kinds_bad:
        run.violated("SCOPE-IMPORTFROM", c1, site, f"a replacement is recorded for nodes of kind {sorted(kinds_bad)}", witness="import district42")
    elif no_guard:
        run.violated("SCOPE-IMPORTFROM", c1, site, "a replacement is recorded without any test of the statement's kind",
                     witness="import district42 / x = 1 (no .module, no .names)")
    elif undecided_kind:
        run.undecided("SCOPE-IMPORTFROM", c1, site, "the statement is tested, but not with isinstance(node, ast.ImportFrom)")
    else:
        run.holds("SCOPE-IMPORTFROM", c1, site, f"isinstance(node, ast.ImportFrom) holds on all {len(records)} recording paths", nontrivial=True)
    c2 = "rewrite_imports: relative imports"
    if "bad" in rel:
        run.violated("SCOPE-ABSOLUTE", c2, site,
                     "a replacement is recorded on a path that admits node.level > 0: `from .district42 import schema` would be rewritten",
                     witness="from .district42 import schema\n")
    elif "unknown" in rel:
        run.undecided("SCOPE-ABSOLUTE", c2, site, "node.level is tested in a form that is not evaluated")
    else:
        run.holds("SCOPE-ABSOLUTE", c2, site, f"node.level == 0 is established on all {len(records)} recording paths", nontrivial=True)


def _eval_level(t: Any, lk: str, lv: int) -> Optional[bool]:
    """Truth of a decided condition over node.level for level == lv (None: not evaluable)."""
    def val(x: Any) -> Optional[int]:
        if isinstance(x, Const) and isinstance(x.value, int):
            return int(x.value)
        if isinstance(x, V) and x.key() == lk:
            return lv
        if isinstance(x, Term) and x.op == "bin" and x.args[0] in ("+", "-"):
            a, b = val(x.args[1]), val(x.args[2])
            if a is None or b is None:
                return None
            return a + b if x.args[0] == "+" else a - b
        return None
    if isinstance(t, V) and t.key() == lk:
        return bool(lv)
    if isinstance(t, Term) and t.op in ("lt", "eq") and len(t.args) == 2:
        a, b = val(t.args[0]), val(t.args[1])
        if a is None or b is None:
            return None
        return a < b if t.op == "lt" else a == b
    if isinstance(t, Term) and t.op == "in" and len(t.args) == 2 and isinstance(t.args[1], (TupleV, ListV)):
        a = val(t.args[0])
        bs = [val(x) for x in t.args[1].items]
        if a is None or any(x is None for x in bs):
            return None
        return a in bs
    return None


def _norm_key(v: Any) -> str:
    """Key of a value with `a, b = T` unpacking and `T[i]` indexing identified."""
    import re as _re
    k = v.key() if isinstance(v, V) else str(v)
    return _re.sub(r"\bunpack\(", "getitem(", k)


def _line_shape(sv: StrV) -> List[Tuple[str, str]]:
    out: List[Tuple[str, str]] = []
    for piece in sv.pieces:
        if isinstance(piece, str):
            out.append(("lit", piece))
        else:
            x, conv = piece
            if isinstance(x, StrV) and not conv:
                out.extend(_line_shape(x))
            elif isinstance(x, Const) and isinstance(x.value, str) and not conv:
                out.append(("lit", x.value))
            else:
                out.append(("val" + (conv or ""), _norm_key(x)))
    merged: List[Tuple[str, str]] = []
    for kind, txt in out:
        if kind == "lit" and merged and merged[-1][0] == "lit":
            merged[-1] = ("lit", merged[-1][1] + txt)
        else:
            merged.append((kind, txt))
    return merged


def _emissions(run: Run, mod: Module, fn: FuncInfo, records: List[Any]) -> bool:
    """UNMAPPED-KEPT / ALIAS-KEPT / MAPPED-TARGET, decided on the value that is recorded as replacement text on each
    path (abstract evaluation with one symbolic statement N and one symbolic alias A of it): the text is a symbolic
    string whose pieces are literals and values, so `from <X> import <Y>[ as <Z>]` can be read off it:
      * A not in the mapping  ->  a line `from N.module import A.name[ as A.asname]`;
      * A in the mapping      ->  a line `from mapping[N.module][A.name][0] import mapping[..][1][ as A.asname]`;
      * A.asname set          ->  the alias follows the name it renames."""
    site = fn.loc
    alias_safe = False
    verdicts: Dict[str, List[Tuple[str, str]]] = {"UNMAPPED-KEPT": [], "MAPPED-TARGET": [], "ALIAS-KEPT|mapped": [], "ALIAS-KEPT|unmapped": []}
    for p, e, node in records:
        nk = node.key()
        vals = list(e.data.get("args") or []) + ([e.data["value"]] if isinstance(e.data.get("value"), V) else [])
        alias = None
        lines: List[StrV] = []
        mentions_name = False
        for a in vals:
            for x in _walk_values(a):
                if isinstance(x, Sym) and x.origin and x.origin[0] == "elem" and isinstance(x.origin[1], V) \
                        and x.origin[1].key() == f"attr({nk}, names)":
                    alias = x
                if isinstance(x, StrV):
                    lines.append(x)
        if alias is None:
            # the alias may have been dropped from the recorded text altogether: look for it in the path conditions
            for k, t, b in p.facts[:e.nfacts]:
                for x in _walk_values(t):
                    if isinstance(x, Sym) and x.origin and x.origin[0] == "elem" and isinstance(x.origin[1], V) \
                            and x.origin[1].key() == f"attr({nk}, names)":
                        alias = x
        if alias is None:
            continue                    # no alias iterated on this path
        ak = alias.key()
        modk = f"attr({nk}, module)"
        namek, asnamek = f"attr({ak}, name)", f"attr({ak}, asname)"
        tgt = f"getitem(getitem(mapping, {modk}), {namek})"
        newmod, newname = f"getitem({tgt}, 0)", f"getitem({tgt}, 1)"
        facts = p.facts[:e.nfacts]
        in_mod = in_name = None
        asname: Optional[bool] = None
        for k, t, b in facts:
            if isinstance(t, Term) and t.op == "in" and len(t.args) == 2:
                a0, a1 = t.args[0].key(), _norm_key(t.args[1])
                if a0 == modk and a1 == "mapping":
                    in_mod = b
                if a0 == namek and a1 == f"getitem(mapping, {modk})":
                    in_name = b
            if isinstance(t, V) and t.key() == asnamek:
                asname = b
            if isinstance(t, Term) and t.op == "is" and t.args[0].key() == asnamek and isinstance(t.args[1], Const) and t.args[1].value is None:
                asname = not b
        for k, t, b in facts:
            if isinstance(t, Term) and t.op == "eq" and {_norm_key(t.args[0]), _norm_key(t.args[1])} == {newname, namek}:
                alias_safe = True          # the emitted text depends on whether the entry renames the symbol
        if in_mod is True and in_name is True:
            cls = "mapped"
        elif in_mod is False or in_name is False:
            cls = "unmapped"
        else:
            cls = None
        shapes = [_line_shape(sv) for sv in lines]
        shapes = [sh for sh in shapes if any(k == "lit" and "import" in t for k, t in sh)]
        # outermost lines only (a line nested in another one is a fragment of it)
        carrying = [sh for sh in shapes if any(k.startswith("val") and t in (namek, newname) for k, t in sh)]
        where = f"{cls or 'unclassified'} alias, asname {'set' if asname else ('unset' if asname is False else '?')}"
        if cls is None:
            for r in ("UNMAPPED-KEPT", "MAPPED-TARGET"):
                verdicts[r].append(("undecided", f"membership of the alias in the mapping is not tested in a recognised form ({where})"))
            continue
        rule = "UNMAPPED-KEPT" if cls == "unmapped" else "MAPPED-TARGET"
        if not carrying:
            opaque = any(isinstance(x, Term) and (namek in _norm_key(x) or newname in _norm_key(x)) for a in vals for x in _walk_values(a)
                         if not isinstance(x, StrV))
            if opaque:
                verdicts[rule].append(("undecided", "the replacement text is not a recognisable symbolic string"))
            elif cls == "unmapped":
                verdicts[rule].append(("violated", "a name that is not in the mapping is not re-emitted: it vanishes from the import"))
            else:
                verdicts[rule].append(("violated", "a mapped name is not emitted in any replacement line"))
            continue
        for sh in carrying:
            # from <X> import ... <name> [as <asname>]
            modpiece = None
            for i, (k, t) in enumerate(sh):
                if k == "lit" and t.rstrip().endswith("from") and i + 1 < len(sh) and sh[i + 1][0].startswith("val"):
                    modpiece = sh[i + 1][1]
                    break
            idx = next(i for i, (k, t) in enumerate(sh) if k.startswith("val") and t in (namek, newname))
            npiece = sh[idx][1]
            if cls == "unmapped":
                if modpiece is None:
                    verdicts[rule].append(("undecided", "module position of the emitted line not recognised"))
                elif modpiece != modk:
                    verdicts[rule].append(("violated", f"an unmapped name is re-emitted from {modpiece[:60]}, not from its original module"))
                else:
                    verdicts[rule].append(("holds", ""))
            else:
                if modpiece is None:
                    verdicts[rule].append(("undecided", "module position of the emitted line not recognised"))
                elif modpiece == newmod and npiece == newname:
                    verdicts[rule].append(("holds", ""))
                elif modpiece == modk:
                    verdicts[rule].append(("violated", "a mapped name is emitted from its OLD module"))
                elif modpiece == newname or npiece == newmod:
                    verdicts[rule].append(("violated", "target module and target name of the mapping entry are swapped"))
                elif npiece == namek and modpiece == newmod:
                    verdicts[rule].append(("undecided", "the old name is emitted from the new module (equal only for name-preserving entries)"))
                else:
                    verdicts[rule].append(("violated", f"a mapped name is emitted as `from {modpiece[:40]} import {npiece[:40]}`"))
            ar = f"ALIAS-KEPT|{cls}"
            nxt = sh[idx + 1] if idx + 1 < len(sh) else None
            nxt2 = sh[idx + 2] if idx + 2 < len(sh) else None
            has_as = nxt is not None and nxt[0] == "lit" and nxt[1].startswith(" as ") and nxt2 is not None and nxt2[1] == asnamek
            if asname is True:
                if has_as:
                    verdicts[ar].append(("holds", ""))
                else:
                    verdicts[ar].append(("violated", "asname is not re-emitted after the name: the local binding of an aliased import changes"))
            elif asname is False:
                if nxt is not None and nxt[0] == "lit" and nxt[1].startswith(" as "):
                    verdicts[ar].append(("violated", "` as ` is emitted for an import without alias"))
                else:
                    verdicts[ar].append(("holds", ""))
            elif has_as:
                verdicts[ar].append(("violated", "`as <asname>` is emitted without testing whether the import has an alias (`as None`)"))
            else:
                verdicts[ar].append(("violated", "the alias of the import is never consulted on this path: `as <asname>` is lost"))
    names = {"UNMAPPED-KEPT": ("UNMAPPED-KEPT", "rewrite_imports: unmapped names", "from district42 import schema, my_own_helper"),
             "MAPPED-TARGET": ("MAPPED-TARGET", "rewrite_imports: mapped names", "from district42 import schema"),
             "ALIAS-KEPT|mapped": ("ALIAS-KEPT", "rewrite_imports: asname (mapped branch)", "from district42 import schema as s"),
             "ALIAS-KEPT|unmapped": ("ALIAS-KEPT", "rewrite_imports: asname (unmapped branch)", "from district42 import helper as h")}
    for key, (rule, construct, wit) in names.items():
        vs = verdicts[key]
        bad = sorted({d for v, d in vs if v == "violated"})
        und = sorted({d for v, d in vs if v == "undecided"})
        ok = sum(1 for v, _ in vs if v == "holds")
        if bad:
            run.violated(rule, construct, site, "; ".join(bad)[:300], witness=wit)
        elif und or not ok:
            run.undecided(rule, construct, site, (und[0] if und else "no path of the abstract evaluation reaches this case"))
        else:
            run.holds(rule, construct, site, f"read off the recorded replacement text on {ok} paths", nontrivial=True)
    return alias_safe


M = "d42/migration/migrate_v1_to_v2.py"
MUTANTS = [
    {"name": "regex over the raw text decides `nothing to do` (seeded C19-L)", "rule": "NOTHING-TO-DO",
     "edits": [("d42/migration/migrate_v1_to_v2.py", "    tree = ast.parse(source_code)\n", "    if not re.search(r\"^from\\s+(?:district42|blahblah|revolt|valera)\\b\", source_code, re.MULTILINE):\n        return None\n    tree = ast.parse(source_code)\n")]},
    {"name": "neutral: substring test for the v1 package names before parsing", "expect": "SILENT",
     "edits": [("d42/migration/migrate_v1_to_v2.py", "    tree = ast.parse(source_code)\n", "    if not any(pkg in source_code for pkg in (\"district42\", \"blahblah\", \"revolt\", \"valera\")):\n        return None\n    tree = ast.parse(source_code)\n")]},
    {"name": "line table built with str.splitlines again (fix 8e3c08c reverted)", "rule": "LINE-TABLE",
     "edits": [("d42/migration/migrate_v1_to_v2.py", "    lines = re.findall(r\"[^\\r\\n]*(?:\\r\\n|\\r|\\n)|[^\\r\\n]+\", source_code)\n", "    lines = source_code.splitlines(keepends=True)\n")]},
    {"name": "line table built with split on \\n only", "rule": "LINE-TABLE",
     "edits": [("d42/migration/migrate_v1_to_v2.py", "    lines = re.findall(r\"[^\\r\\n]*(?:\\r\\n|\\r|\\n)|[^\\r\\n]+\", source_code)\n", "    lines = [x + \"\\n\" for x in source_code.split(\"\\n\")]\n")]},
    {"name": "neutral: line table read through io.StringIO(newline='')", "expect": "SILENT",
     "edits": [("d42/migration/migrate_v1_to_v2.py", "    lines = re.findall(r\"[^\\r\\n]*(?:\\r\\n|\\r|\\n)|[^\\r\\n]+\", source_code)\n", "    import io\n    lines = io.StringIO(source_code, newline=\"\").readlines()\n")]},
    {"name": "a migration target is re-exported under `if TYPE_CHECKING:` only", "rule": "TARGETS-RESOLVE",
     "edits": [("d42/utils/__init__.py", "from ..declaration._is_ellipsis import EllipsisType, TypeOrEllipsis, is_ellipsis",
                "from typing import TYPE_CHECKING\n\nfrom ..declaration._is_ellipsis import is_ellipsis\n\nif TYPE_CHECKING:\n    from ..declaration._is_ellipsis import EllipsisType, TypeOrEllipsis")]},
    {"name": "generated lines keep the module's CRLF but only \\n is stripped when joining", "rule": "SPAN-ONELINE",
     "edits": [(M, "    replacements = []\n", "    replacements = []\n    eol = \"\\r\\n\" if \"\\r\\n\" in source_code else \"\\n\"\n"),
               (M, "replacement_lines.append(f'from {new_module} import {names_str}\\n')", "replacement_lines.append(f'from {new_module} import {names_str}{eol}')"),
               (M, "replacement_lines.append(f'from {module} import {names_str}\\n')", "replacement_lines.append(f'from {module} import {names_str}{eol}')")]},
    {"name": "a mapping target misspelt", "rule": "TARGETS-RESOLVE",
     "edits": [(M, '"Substitutor": ("d42.substitution", "Substitutor")', '"Substitutor": ("d42.substitution", "Substitutr")')]},
    {"name": "a mapping target module misspelt", "rule": "TARGETS-RESOLVE",
     "edits": [(M, '("d42.substitution.errors", "SubstitutionError")', '("d42.substitution.error", "SubstitutionError")')]},
    {"name": "an entry renames without alias", "rule": "NAME-PRESERVING",
     "edits": [(M, '"substitute": ("d42", "substitute")', '"substitute": ("d42", "validate")')]},
    {"name": "relative imports rewritten", "rule": "SCOPE-ABSOLUTE",
     "edits": [(M, "            if node.level > 0:\n                continue  # Skip relative imports like 'from .module import ...'\n", "")]},
    {"name": "unmapped names dropped", "rule": "UNMAPPED-KEPT",
     "edits": [(M, "                    unmapped_names.append(import_name)", "                    pass")]},
    {"name": "nested imports rewritten too", "rule": "SCOPE-TOPLEVEL",
     "edits": [(M, "    for node in tree.body:", "    for node in ast.walk(tree):")]},
    {"name": "asname dropped for mapped names", "rule": "ALIAS-KEPT",
     "edits": [(M, '                    import_name = f"{new_name} as {asname}" if asname else new_name', '                    import_name = new_name')]},
    {"name": "whole-line splice (F13 reverted)", "rule": "SPAN",
     "edits": [(M, "        prefix = lines[start_line].encode()[:col].decode()\n        suffix = lines[end_line].encode()[end_col:].decode()\n        if prefix.strip() or suffix.strip():", "        prefix = suffix = ''\n        if prefix.strip() or suffix.strip():"),
               (M, "node.col_offset, node.end_col_offset,", "0, 0,")]},
    {"name": "unmapped names re-emitted from the NEW module", "rule": "UNMAPPED-KEPT",
     "edits": [(M, "                replacement_lines.append(f'from {module} import {names_str}\\n')", "                replacement_lines.append(f'from {new_module} import {names_str}\\n')")]},
    {"name": "mapped name emitted from its old module", "rule": "MAPPED-TARGET",
     "edits": [(M, "                    new_imports[new_module].append(import_name)", "                    new_imports[module].append(import_name)")]},
    {"name": "mapping target unpacked in the wrong order", "rule": "MAPPED-TARGET",
     "edits": [(M, "                    new_module, new_name = mapping[module][name]", "                    new_name, new_module = mapping[module][name]")]},
    {"name": "alias emitted unconditionally (as None)", "rule": "ALIAS-KEPT",
     "edits": [(M, '                    import_name = f"{name} as {asname}" if asname else name', '                    import_name = f"{name} as {asname}"')]},
    {"name": "neutral: mapping target read by index", "expect": "SILENT",
     "edits": [(M, "                    new_module, new_name = mapping[module][name]", "                    target = mapping[module][name]\n                    new_module, new_name = target[0], target[1]")]},
    {"name": "neutral: guard clauses instead of nesting, alias text by a helper", "expect": "SILENT",
     "edits": [(M, "        if isinstance(node, ast.ImportFrom):\n            module = node.module\n            if node.level > 0:\n                continue  # Skip relative imports like 'from .module import ...'\n",
                "        if not isinstance(node, ast.ImportFrom) or node.level:\n            continue\n        if True:\n            module = node.module\n")]},
    {"name": "neutral: relative guard written as != 0", "expect": "SILENT",
     "edits": [(M, "            if node.level > 0:", "            if node.level != 0:")]},
    {"name": "neutral: loop variable renamed", "expect": "SILENT",
     "edits": [(M, "            for alias in node.names:\n                name = alias.name\n                asname = alias.asname", "            for item in node.names:\n                name = item.name\n                asname = item.asname")]},
]

MUTANTS += [
    {"name": "column offsets applied to str instead of bytes", "rule": "SPAN-BYTES",
     "edits": [(M, "        prefix = lines[start_line].encode()[:col].decode()\n        suffix = lines[end_line].encode()[end_col:].decode()", "        prefix = lines[start_line][:col]\n        suffix = lines[end_line][end_col:]")]},
    {"name": "prefix/suffix precomputed while collecting", "rule": "SPAN-FRESH",
     "edits": [(M, "            replacements.append((start_line, end_line, node.col_offset, node.end_col_offset,\n                                 replacement_lines))",
                "            prefix = lines[start_line].encode()[:node.col_offset].decode()\n            suffix = lines[end_line].encode()[node.end_col_offset:].decode()\n            if prefix.strip() or suffix.strip():\n                replacement_lines = [prefix + \"; \".join(x.rstrip(\"\\n\") for x in replacement_lines) + suffix]\n            replacements.append((start_line, end_line, 0, 0, replacement_lines))"),
               (M, "        prefix = lines[start_line].encode()[:col].decode()\n        suffix = lines[end_line].encode()[end_col:].decode()\n        if prefix.strip() or suffix.strip():", "        prefix = suffix = \"\"\n        if prefix.strip() or suffix.strip():")]},
]

_SPLICE_OLD = "        if prefix.strip() or suffix.strip():\n            statements"
MUTANTS += [
    {"name": "a trailing comment is kept on the FIRST of the generated imports (seeded C19-N)", "rule": "SPLICE-TERMINATED",
     "edits": [(M, _SPLICE_OLD, "        if not prefix.strip() and suffix.lstrip().startswith(\"#\"):\n            first_line = replacement_lines[0].rstrip(\"\\n\") + suffix\n            replacement_lines = [first_line] + replacement_lines[1:]\n        elif prefix.strip() or suffix.strip():\n            statements")]},
    {"name": "neutral: a trailing comment is kept on the LAST of the generated imports", "expect": "SILENT",
     "edits": [(M, _SPLICE_OLD, "        if not prefix.strip() and suffix.lstrip().startswith(\"#\"):\n            last_line = replacement_lines[-1].rstrip(\"\\n\") + suffix\n            replacement_lines = replacement_lines[:-1] + [last_line]\n        elif prefix.strip() or suffix.strip():\n            statements")]},
]
