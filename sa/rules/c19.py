"""C19 - v1-to-v2 migration rewrites imports and nothing else.

Decided statically: (1) every mapping target resolves in /repo's own source (whole clause 1);
(2) the rewrite binds the same local name; (3) only top-level, absolute `from` imports are
touched, unmapped names stay on the original module, aliases survive; (4) the splice is
column-aware.  The behaviour of the rewriter over all programs is NOT decided.
"""
from __future__ import annotations

import ast
from typing import Any, Dict, List, Optional, Set, Tuple

from ..loader import AnalysisError, ClassInfo, FuncInfo, Module, Program
from ..model import Model
from ..report import Run
from ..engine import Interp
from ..values import Const, ListV, StrV, Sym, Term, TupleV, V

MOD = "d42.migration.migrate_v1_to_v2"


def _names_in(node: ast.AST) -> Set[str]:
    return {n.id for n in ast.walk(node) if isinstance(n, ast.Name)}


def _attrs_in(node: ast.AST) -> Set[str]:
    return {n.attr for n in ast.walk(node) if isinstance(n, ast.Attribute)}


def check(run: Run, prog: Program, model: Model, tier: str) -> None:
    run.explanation = (
        "Static import resolution of every (module, name) target of the v1->v2 mapping literal against "
        "/repo's own module and binding tables (re-exports chased to a definition), plus structure rules "
        "on rewrite_imports: iteration domain (tree.body only), ImportFrom/level guards, flow of unmapped "
        "names and aliases into the emitted text, and column-awareness of the splice. Clause 1 of the "
        "property (all targets importable) is decided completely; the rewriter's behaviour on all "
        "programs is not.")
    run.rule_text = ("one obligation per mapping entry (target resolves; name preserved) and per structural "
                     "clause of rewrite_imports; non-trivial = needed re-export chasing through >=1 package "
                     "__init__ or a def-use derivation inside rewrite_imports")
    run.trusted += ["Python import semantics for absolute `from m import n` (module file exists and binds n at "
                    "top level, or n is a submodule)", "ast node attributes lineno/end_lineno/col_offset"]
    mod = prog.module(MOD)
    b = mod.bindings.get("mapping")
    if b is None or not isinstance(b.node, ast.Dict):
        raise AnalysisError("mapping literal not found in migrate_v1_to_v2")
    try:
        mapping = ast.literal_eval(b.node)
    except Exception as e:
        raise AnalysisError(f"mapping is not a literal: {e}")

    # ---------------------------------------------------------------- (1) TARGETS-RESOLVE, (2) NAME
    n_entries = 0
    renamed: List[Tuple[str, str, str]] = []
    for old_mod, names in mapping.items():
        for old_name, target in names.items():
            n_entries += 1
            construct = f"mapping[{old_mod!r}][{old_name!r}]"
            if not (isinstance(target, tuple) and len(target) == 2):
                run.violated("TARGETS-RESOLVE", construct, mod.path, f"target {target!r} is not (module, name)")
                continue
            new_mod, new_name = target
            if new_mod not in prog.modules:
                run.violated("TARGETS-RESOLVE", construct, mod.path,
                             f"module {new_mod!r} does not exist under /repo",
                             witness=f"from {new_mod} import {new_name}")
                continue
            r = prog.resolve(new_mod, new_name)
            m2 = prog.modules[new_mod]
            direct = new_name in m2.bindings and m2.bindings[new_name].kind in ("def", "class", "assign")
            if r is None or (isinstance(r, tuple) and r[0] != "assign"):
                run.violated("TARGETS-RESOLVE", construct, mod.path,
                             f"name {new_name!r} is not bound at top level of {new_mod}",
                             witness=f"from {new_mod} import {new_name}")
            else:
                where = getattr(r, "qualname", None) or (r.name if isinstance(r, Module) else str(r)[:60])
                run.holds("TARGETS-RESOLVE", construct, mod.path, f"-> {where}", nontrivial=not direct)
            if new_name != old_name:
                renamed.append((old_mod, old_name, new_name))
    run.floor("TARGETS-RESOLVE", 60)
    run.analysed["mapping_entries"] = n_entries

    fn = prog.func(f"{MOD}.rewrite_imports")
    body = fn.node

    # how is the emitted name built for a mapped alias without `as`?
    alias_safe = _rename_emits_as(body)
    if not renamed:
        run.holds("NAME-PRESERVING", "mapping (all entries)", mod.path,
                  f"all {n_entries} entries map a name to the same name", nontrivial=False)
    else:
        for old_mod, old_name, new_name in renamed:
            c = f"mapping[{old_mod!r}][{old_name!r}] -> {new_name}"
            if alias_safe:
                run.holds("NAME-PRESERVING", c, fn.loc, "rewriter emits `as <old name>` for renamed entries",
                          nontrivial=True)
            else:
                run.violated("NAME-PRESERVING", c, fn.loc,
                             "entry renames the symbol and rewrite_imports emits the new name without "
                             "`as <old name>`, so the local binding changes",
                             witness=f"from {old_mod} import {old_name}  # then use {old_name}")

    # ---------------------------------------------------------------- (3) SCOPE
    loops = [n for n in ast.walk(body) if isinstance(n, ast.For)]
    tree_names = set()
    for n in ast.walk(body):
        if isinstance(n, ast.Assign) and isinstance(n.value, ast.Call):
            f = n.value.func
            if isinstance(f, ast.Attribute) and f.attr == "parse" and isinstance(f.value, ast.Name) and f.value.id == "ast":
                for t in n.targets:
                    if isinstance(t, ast.Name):
                        tree_names.add(t.id)
    node_loop = None
    for lp in loops:
        it = lp.iter
        if isinstance(it, ast.Attribute) and it.attr == "body" and isinstance(it.value, ast.Name) and it.value.id in tree_names:
            node_loop = lp
            run.holds("SCOPE-TOPLEVEL", "rewrite_imports: statement loop", f"{mod.path}:{lp.lineno}",
                      "iterates tree.body (top-level statements only)", nontrivial=True)
        elif isinstance(it, ast.Call) and isinstance(it.func, ast.Attribute) and it.func.attr == "walk" \
                and any(isinstance(a, ast.Name) and a.id in tree_names for a in it.args):
            node_loop = lp
            run.violated("SCOPE-TOPLEVEL", "rewrite_imports: statement loop", f"{mod.path}:{lp.lineno}",
                         "iterates ast.walk(tree): nested imports are rewritten with whole-line replacements",
                         witness="def f():\n    from district42 import schema\n")
    if node_loop is None:
        run.undecided("SCOPE-TOPLEVEL", "rewrite_imports: statement loop", fn.loc, "statement loop not recognised")
        return
    var = node_loop.target.id if isinstance(node_loop.target, ast.Name) else None
    # the statement guarded by isinstance(node, ast.ImportFrom) (subject of the syntactic UNMAPPED / ALIAS rules below)
    guard = None
    for st in node_loop.body:
        if isinstance(st, ast.If):
            t = st.test
            for c in ast.walk(t):
                if isinstance(c, ast.Call) and isinstance(c.func, ast.Name) and c.func.id == "isinstance" \
                        and len(c.args) == 2 and isinstance(c.args[0], ast.Name) and c.args[0].id == var:
                    guard = st
    gst = guard if guard is not None and not _only_exits(guard.body) else node_loop
    _scope_guards(run, prog, model, fn, mod)

    # unmapped names: list that receives names in the else-branch must be emitted with the ORIGINAL module
    _check_unmapped(run, mod, fn, gst)

    # ---------------------------------------------------------------- (4) SPAN
    uses_cols = bool({"col_offset", "end_col_offset"} & _attrs_in(body)) or \
        any(isinstance(n, ast.Attribute) and n.attr in ("get_source_segment",) for n in ast.walk(body)) or \
        "tokenize" in _names_in(body)
    slice_assign = [n for n in ast.walk(body) if isinstance(n, ast.Assign) and any(
        isinstance(t, ast.Subscript) and isinstance(t.slice, ast.Slice) for t in n.targets)]
    if slice_assign and not uses_cols:
        run.violated("SPAN", "rewrite_imports: splice granularity", f"{mod.path}:{slice_assign[0].lineno}",
                     "replacement splices whole physical lines lineno..end_lineno and never consults "
                     "col_offset/end_col_offset: other statements sharing a line with the import are dropped",
                     witness='rewrite_imports("from district42 import schema; x = 1\\n", mapping) loses `x = 1`')
    elif uses_cols:
        run.holds("SPAN", "rewrite_imports: splice granularity", fn.loc,
                  "splice consults column offsets / source segments", nontrivial=True)
        _column_slices(run, mod, fn, body, node_loop, slice_assign)
    else:
        run.undecided("SPAN", "rewrite_imports: splice granularity", fn.loc, "splice statement not recognised")


def _only_exits(body: List[ast.stmt]) -> bool:
    return all(isinstance(x, (ast.Continue, ast.Pass)) for x in body)


def _walk_values(v: Any, seen: Optional[Set[int]] = None) -> Any:
    if seen is None:
        seen = set()
    if id(v) in seen:
        return
    seen.add(id(v))
    yield v
    if isinstance(v, Term):
        for a in v.args:
            yield from _walk_values(a, seen)
    elif isinstance(v, (ListV, TupleV)):
        for a in v.items:
            yield from _walk_values(getattr(a, "value", a), seen)
    elif isinstance(v, StrV):
        for piece in v.pieces:
            if not isinstance(piece, str):
                yield from _walk_values(piece[0], seen)
    elif isinstance(v, Sym) and v.origin:
        for a in v.origin:
            if isinstance(a, V):
                yield from _walk_values(a, seen)


def _scope_guards(run: Run, prog: Program, model: Model, fn: FuncInfo, mod: Module) -> None:
    """SCOPE-IMPORTFROM / SCOPE-ABSOLUTE, decided on the paths of rewrite_imports (abstract evaluation with one
    symbolic top-level statement): whenever a replacement is recorded for a statement - some container receives a
    value carrying that statement's `lineno` - the path has established isinstance(node, ast.ImportFrom) and
    node.level == 0.  Independent of how the guards are spelled (nested ifs, early `continue`, helper functions)."""
    it = Interp(prog, model, unroll=1)

    def run1(i: Interp) -> V:
        return i.call_function(fn, [Sym("source_code", "str", ("param", "source_code")),
                                    Sym("mapping", "dict", ("param", "mapping"))], {})
    paths = it.run_paths(run1)
    records = []      # (path, event, node symbol)
    for p in paths:
        for e in p.events:
            if e.kind != "write":
                continue
            vals = list(e.data.get("args") or []) + ([e.data["value"]] if isinstance(e.data.get("value"), V) else [])
            node = None
            for a in vals:
                for x in _walk_values(a):
                    if isinstance(x, Term) and x.op == "attr" and len(x.args) == 2 and x.args[1] == "lineno" \
                            and isinstance(x.args[0], Sym) and x.args[0].origin and x.args[0].origin[0] == "elem":
                        node = x.args[0]
            if node is not None:
                records.append((p, e, node))
                break          # the first recording on the path
    site = fn.loc
    if not records:
        for r in ("SCOPE-IMPORTFROM", "SCOPE-ABSOLUTE"):
            run.undecided(r, "rewrite_imports: " + ("node kind guard" if r.endswith("FROM") else "relative imports"), site,
                          "no path records a replacement carrying a statement's line number: collection not recognised")
        return
    kinds_bad: Set[str] = set()
    no_guard = undecided_kind = False
    rel: Set[str] = set()
    for p, e, node in records:
        nk = node.key()
        facts = p.facts[:e.nfacts]
        isin = [(t, b) for _, t, b in facts if isinstance(t, Term) and t.op == "isinstance" and t.args[0].key() == nk]
        pos = [str(t.args[1]) for t, b in isin if b]
        if any(lab.split(".")[-1] == "ImportFrom" for lab in pos):
            pass
        elif pos:
            kinds_bad |= {k for lab in pos for k in lab.split("|")}
        elif any(nk in k for k, _, _ in facts):
            undecided_kind = True
        else:
            no_guard = True
        # admitted values of node.level in {0..3}
        lk = f"attr({nk}, level)"
        admitted = set(range(4))
        unknown = False
        for k, t, b in facts:
            if lk not in k:
                continue
            ok_vals = set()
            for lv in admitted:
                r = _eval_level(t, lk, lv)
                if r is None:
                    unknown = True
                    ok_vals.add(lv)
                elif r == b:
                    ok_vals.add(lv)
            admitted = ok_vals
        if admitted == {0}:
            rel.add("ok")
        elif unknown:
            rel.add("unknown")
        else:
            rel.add("bad")
    c1 = "rewrite_imports: node kind guard"
    if kinds_bad:
        run.violated("SCOPE-IMPORTFROM", c1, site, f"a replacement is recorded for nodes of kind {sorted(kinds_bad)}", witness="import district42")
    elif no_guard:
        run.violated("SCOPE-IMPORTFROM", c1, site, "a replacement is recorded without any test of the statement's kind",
                     witness="import district42 / x = 1 (no .module, no .names)")
    elif undecided_kind:
        run.undecided("SCOPE-IMPORTFROM", c1, site, "the statement is tested, but not with isinstance(node, ast.ImportFrom)")
    else:
        run.holds("SCOPE-IMPORTFROM", c1, site, f"isinstance(node, ast.ImportFrom) holds on all {len(records)} recording paths", nontrivial=True)
    c2 = "rewrite_imports: relative imports"
    if "bad" in rel:
        run.violated("SCOPE-ABSOLUTE", c2, site,
                     "a replacement is recorded on a path that admits node.level > 0: `from .district42 import schema` would be rewritten",
                     witness="from .district42 import schema\n")
    elif "unknown" in rel:
        run.undecided("SCOPE-ABSOLUTE", c2, site, "node.level is tested in a form that is not evaluated")
    else:
        run.holds("SCOPE-ABSOLUTE", c2, site, f"node.level == 0 is established on all {len(records)} recording paths", nontrivial=True)


def _eval_level(t: Any, lk: str, lv: int) -> Optional[bool]:
    """Truth of a decided condition over node.level for level == lv (None: not evaluable)."""
    def val(x: Any) -> Optional[int]:
        if isinstance(x, Const) and isinstance(x.value, int):
            return int(x.value)
        if isinstance(x, V) and x.key() == lk:
            return lv
        if isinstance(x, Term) and x.op == "bin" and x.args[0] in ("+", "-"):
            a, b = val(x.args[1]), val(x.args[2])
            if a is None or b is None:
                return None
            return a + b if x.args[0] == "+" else a - b
        return None
    if isinstance(t, V) and t.key() == lk:
        return bool(lv)
    if isinstance(t, Term) and t.op in ("lt", "eq") and len(t.args) == 2:
        a, b = val(t.args[0]), val(t.args[1])
        if a is None or b is None:
            return None
        return a < b if t.op == "lt" else a == b
    if isinstance(t, Term) and t.op == "in" and len(t.args) == 2 and isinstance(t.args[1], (TupleV, ListV)):
        a = val(t.args[0])
        bs = [val(x) for x in t.args[1].items]
        if a is None or any(x is None for x in bs):
            return None
        return a in bs
    return None


def _column_slices(run: Run, mod: Module, fn: FuncInfo, body: ast.FunctionDef, node_loop: ast.For, slice_assign: List[ast.Assign]) -> None:
    """Column-aware splicing has two further necessary conditions:
    SPAN-BYTES  - ast column offsets are UTF-8 byte offsets, so they must index the encoded line;
    SPAN-FRESH  - replacements are applied last-to-first on a shared `lines` list, so the text kept around an
                  import must be cut from the CURRENT line inside the apply loop, not precomputed while collecting
                  (two rewritten imports on one physical line would otherwise overwrite each other)."""
    # names carrying column offsets: direct attribute reads, tuple positions unpacked in a later loop
    col_names: Set[str] = set()
    for n in ast.walk(body):
        if isinstance(n, ast.Assign) and isinstance(n.value, ast.Attribute) and n.value.attr in ("col_offset", "end_col_offset"):
            col_names |= {t.id for t in n.targets if isinstance(t, ast.Name)}
    tuple_pos: Dict[int, bool] = {}
    for n in ast.walk(body):
        if isinstance(n, ast.Call) and isinstance(n.func, ast.Attribute) and n.func.attr == "append" and n.args and isinstance(n.args[0], ast.Tuple):
            for i, e in enumerate(n.args[0].elts):
                if isinstance(e, ast.Attribute) and e.attr in ("col_offset", "end_col_offset"):
                    tuple_pos[i] = True
                if isinstance(e, ast.Name) and e.id in col_names:
                    tuple_pos[i] = True
    for n in ast.walk(body):
        if isinstance(n, ast.For) and isinstance(n.target, ast.Tuple):
            for i, e in enumerate(n.target.elts):
                if tuple_pos.get(i) and isinstance(e, ast.Name):
                    col_names.add(e.id)
    apply_loop = None
    for n in ast.walk(body):
        if isinstance(n, ast.For) and any(sa_ in ast.walk(n) for sa_ in slice_assign):
            apply_loop = n
    sites = []
    for n in ast.walk(body):
        if isinstance(n, ast.Subscript) and isinstance(n.slice, ast.Slice):
            bounds = [b for b in (n.slice.lower, n.slice.upper) if b is not None]
            uses_col = any((isinstance(b, ast.Name) and b.id in col_names) or
                           (isinstance(b, ast.Attribute) and b.attr in ("col_offset", "end_col_offset")) for b in bounds)
            if uses_col:
                sites.append(n)
    if not sites:
        return
    for i, n in enumerate(sites):
        base = n.value
        c = f"rewrite_imports: column slice #{i + 1}"
        loc = f"{mod.path}:{n.lineno}"
        is_bytes = isinstance(base, ast.Call) and isinstance(base.func, ast.Attribute) and base.func.attr == "encode"
        if is_bytes:
            run.holds("SPAN-BYTES", c, loc, "column offset applied to the encoded (bytes) line", nontrivial=True)
        else:
            run.violated("SPAN-BYTES", c, loc,
                         f"`{ast.unparse(n)[:60]}` applies a UTF-8 byte offset to a str: wrong cut when a non-ASCII character precedes it",
                         witness="\"t = 'über'; from district42 import schema\\n\" is spliced one character off")
        inside = apply_loop is not None and any(n is x for x in ast.walk(apply_loop))
        in_collect = any(n is x for x in ast.walk(node_loop))
        if inside:
            run.holds("SPAN-FRESH", c, loc, "surrounding text is cut from the current line while applying", nontrivial=True)
        elif in_collect:
            run.violated("SPAN-FRESH", c, loc,
                         "the text kept around the import is cut while collecting; replacements are applied last-to-first, so for two "
                         "imports on one physical line the stale text of the first overwrites the rewritten second",
                         witness="'from district42 import schema; from valera import validate' keeps the v1 `valera` import")
        else:
            run.undecided("SPAN-FRESH", c, loc, "column slice outside both loops")


def _rename_emits_as(fn: ast.FunctionDef) -> bool:
    """True if for a mapped alias WITHOUT asname the emitted text is `<new> as <old>` when they differ."""
    for n in ast.walk(fn):
        if isinstance(n, ast.Compare) and len(n.ops) == 1 and isinstance(n.ops[0], (ast.NotEq, ast.Eq)):
            names = _names_in(n)
            if {"new_name", "name"} <= names:
                return True
    return False


def _check_unmapped(run: Run, mod: Module, fn: FuncInfo, gst: ast.If) -> None:
    # find `for alias in node.names` loop
    alias_loop = None
    for n in ast.walk(gst):
        if isinstance(n, ast.For) and isinstance(n.iter, ast.Attribute) and n.iter.attr == "names":
            alias_loop = n
    if alias_loop is None:
        run.undecided("UNMAPPED-KEPT", "rewrite_imports: alias loop", fn.loc, "alias loop not recognised")
        return
    # classify: an `if <in mapping>` with else-branch that appends to some list
    mapped_lists: Set[str] = set()
    unmapped_lists: Set[str] = set()
    as_ok = {"mapped": False, "unmapped": False}
    for st in alias_loop.body:
        if isinstance(st, ast.If):
            for branch, tag in ((st.body, "mapped"), (st.orelse, "unmapped")):
                for x in branch:
                    for c in ast.walk(x):
                        if isinstance(c, ast.Call) and isinstance(c.func, ast.Attribute) and c.func.attr == "append":
                            base = c.func.value
                            nm = base.id if isinstance(base, ast.Name) else (
                                base.value.id if isinstance(base, ast.Subscript) and isinstance(base.value, ast.Name) else None)
                            if nm:
                                (mapped_lists if tag == "mapped" else unmapped_lists).add(nm)
                    # alias preserved: an f-string / expression mentioning asname with " as "
                    for c in ast.walk(x):
                        if isinstance(c, ast.JoinedStr):
                            txt = "".join(v.value for v in c.values if isinstance(v, ast.Constant))
                            if " as " in txt and "asname" in _names_in(c):
                                as_ok[tag] = True
    if not unmapped_lists:
        run.violated("UNMAPPED-KEPT", "rewrite_imports: unmapped names", f"{mod.path}:{alias_loop.lineno}",
                     "names that are not in the mapping are not collected for re-emission: they vanish from the import",
                     witness="from district42 import schema, my_own_helper")
        return
    # the unmapped list must flow into an emitted line `from {module} import ...` with the original module variable
    module_vars = set()
    for n in ast.walk(gst):
        if isinstance(n, ast.Assign) and isinstance(n.value, ast.Attribute) and n.value.attr == "module":
            for t in n.targets:
                if isinstance(t, ast.Name):
                    module_vars.add(t.id)
    emitted = False
    for n in ast.walk(gst):
        if isinstance(n, ast.If) and _names_in(n.test) & unmapped_lists:
            for c in ast.walk(n):
                if isinstance(c, ast.JoinedStr):
                    txt = "".join(v.value for v in c.values if isinstance(v, ast.Constant))
                    fv = [v for v in c.values if isinstance(v, ast.FormattedValue)]
                    if txt.startswith("from ") and " import " in txt and fv:
                        first = fv[0].value
                        if (isinstance(first, ast.Name) and first.id in module_vars) or \
                                (isinstance(first, ast.Attribute) and first.attr == "module"):
                            emitted = True
    if emitted:
        run.holds("UNMAPPED-KEPT", "rewrite_imports: unmapped names", f"{mod.path}:{alias_loop.lineno}",
                  f"unmapped names collected in {sorted(unmapped_lists)} and re-emitted as `from <original module> import ...`",
                  nontrivial=True)
    else:
        run.violated("UNMAPPED-KEPT", "rewrite_imports: unmapped names", f"{mod.path}:{alias_loop.lineno}",
                     "unmapped names are collected but not re-emitted from their original module",
                     witness="from district42 import schema, my_own_helper")
    for tag in ("mapped", "unmapped"):
        c = f"rewrite_imports: asname ({tag} branch)"
        if as_ok[tag]:
            run.holds("ALIAS-KEPT", c, f"{mod.path}:{alias_loop.lineno}", "`<name> as <asname>` emitted when asname is set",
                      nontrivial=True)
        else:
            run.violated("ALIAS-KEPT", c, f"{mod.path}:{alias_loop.lineno}",
                         "asname is not re-emitted: the local binding of an aliased import changes",
                         witness="from district42 import schema as s")




M = "d42/migration/migrate_v1_to_v2.py"
MUTANTS = [
    {"name": "a mapping target misspelt", "rule": "TARGETS-RESOLVE",
     "edits": [(M, '"Substitutor": ("d42.substitution", "Substitutor")', '"Substitutor": ("d42.substitution", "Substitutr")')]},
    {"name": "a mapping target module misspelt", "rule": "TARGETS-RESOLVE",
     "edits": [(M, '("d42.substitution.errors", "SubstitutionError")', '("d42.substitution.error", "SubstitutionError")')]},
    {"name": "an entry renames without alias", "rule": "NAME-PRESERVING",
     "edits": [(M, '"substitute": ("d42", "substitute")', '"substitute": ("d42", "validate")')]},
    {"name": "relative imports rewritten", "rule": "SCOPE-ABSOLUTE",
     "edits": [(M, "            if node.level > 0:\n                continue  # Skip relative imports like 'from .module import ...'\n", "")]},
    {"name": "unmapped names dropped", "rule": "UNMAPPED-KEPT",
     "edits": [(M, "                    unmapped_names.append(import_name)", "                    pass")]},
    {"name": "nested imports rewritten too", "rule": "SCOPE-TOPLEVEL",
     "edits": [(M, "    for node in tree.body:", "    for node in ast.walk(tree):")]},
    {"name": "asname dropped for mapped names", "rule": "ALIAS-KEPT",
     "edits": [(M, '                    import_name = f"{new_name} as {asname}" if asname else new_name', '                    import_name = new_name')]},
    {"name": "whole-line splice (F13 reverted)", "rule": "SPAN",
     "edits": [(M, "        prefix = lines[start_line].encode()[:col].decode()\n        suffix = lines[end_line].encode()[end_col:].decode()\n        if prefix.strip() or suffix.strip():", "        prefix = suffix = ''\n        if prefix.strip() or suffix.strip():"),
               (M, "node.col_offset, node.end_col_offset,", "0, 0,")]},
    {"name": "unmapped names re-emitted from the NEW module", "rule": "UNMAPPED-KEPT",
     "edits": [(M, "                replacement_lines.append(f'from {module} import {names_str}\\n')", "                replacement_lines.append(f'from {new_module} import {names_str}\\n')")]},
    {"name": "neutral: relative guard written as != 0", "expect": "SILENT",
     "edits": [(M, "            if node.level > 0:", "            if node.level != 0:")]},
    {"name": "neutral: loop variable renamed", "expect": "SILENT",
     "edits": [(M, "            for alias in node.names:\n                name = alias.name\n                asname = alias.asname", "            for item in node.names:\n                name = item.name\n                asname = item.asname")]},
]

MUTANTS += [
    {"name": "column offsets applied to str instead of bytes", "rule": "SPAN-BYTES",
     "edits": [(M, "        prefix = lines[start_line].encode()[:col].decode()\n        suffix = lines[end_line].encode()[end_col:].decode()", "        prefix = lines[start_line][:col]\n        suffix = lines[end_line][end_col:]")]},
    {"name": "prefix/suffix precomputed while collecting", "rule": "SPAN-FRESH",
     "edits": [(M, "            replacements.append((start_line, end_line, node.col_offset, node.end_col_offset,\n                                 replacement_lines))",
                "            prefix = lines[start_line].encode()[:node.col_offset].decode()\n            suffix = lines[end_line].encode()[node.end_col_offset:].decode()\n            if prefix.strip() or suffix.strip():\n                replacement_lines = [prefix + \"; \".join(x.rstrip(\"\\n\") for x in replacement_lines) + suffix]\n            replacements.append((start_line, end_line, 0, 0, replacement_lines))"),
               (M, "        prefix = lines[start_line].encode()[:col].decode()\n        suffix = lines[end_line].encode()[end_col:].decode()\n        if prefix.strip() or suffix.strip():", "        prefix = suffix = \"\"\n        if prefix.strip() or suffix.strip():")]},
]
