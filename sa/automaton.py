"""The declaration automaton extracted from source (DESIGN 2.5).

For each schema type: states = sets of declared props; for each refinement method and each argument
shape the method is evaluated abstractly in each state; outcomes are REJECT(exc) or
ACCEPT(new state, bindings) under value predicates (uninterpreted path facts).
"""
from __future__ import annotations

import ast
import itertools
from dataclasses import dataclass, field
from typing import Any, Callable, Dict, FrozenSet, Iterable, List, Optional, Set, Tuple

from .engine import Interp
from .interp import Event, Path
from .interp_expr import annotation_kind
from .loader import ClassInfo, FuncInfo, Program
from .model import Model, SchemaType
from .values import (ELL, NIL, ClassV, Const, DictV, ExcV, Inst, ListV, PropsV, SchemaV, Sym, Term, TupleV, V,
                     is_ell, is_nil)
from .visits import member


@dataclass
class Shape:
    method: str
    label: str                      # e.g. len(n, ...)
    build: Callable[[Interp], Tuple[List[V], Dict[str, V]]]
    well_typed: bool = True
    arg_names: Tuple[str, ...] = ()

    @property
    def key(self) -> str:
        return self.label


@dataclass
class Outcome:
    kind: str                       # ACCEPT | REJECT | ESCAPE | LIMIT
    exc: Optional[str] = None
    new_state: Optional[FrozenSet[str]] = None
    bindings: Tuple[Tuple[str, str], ...] = ()
    preds: Tuple[Tuple[str, bool], ...] = ()
    pred_terms: Tuple[Tuple[V, bool], ...] = ()
    path: Optional[Path] = None
    exc_site: str = ""


@dataclass
class TypeAutomaton:
    st: SchemaType
    shapes: List[Shape]
    trans: Dict[Tuple[FrozenSet[str], str], List[Outcome]] = field(default_factory=dict)
    states: List[FrozenSet[str]] = field(default_factory=list)

    def outcomes(self, state: FrozenSet[str], shape_key: str) -> List[Outcome]:
        return self.trans[(state, shape_key)]


PAYLOAD_OVERRIDES: Dict[str, Dict[str, Callable[[], V]]] = {}


def _param_options(p: ast.arg, default: Optional[ast.expr], mname: str) -> List[Tuple[str, Callable[[], V], bool]]:
    """(label, builder, well_typed) options for one parameter."""
    ann = ast.unparse(p.annotation) if p.annotation is not None else ""
    kind = annotation_kind(ann)
    name = f"{mname}.{p.arg}"
    opts: List[Tuple[str, Callable[[], V], bool]] = []
    opts.append((p.arg, (lambda n=name, k=kind: Sym(n, k, ("arg", n))), True))
    if "TypeOrEllipsis" in ann or "Ellipsis" in ann:
        opts.append(("...", (lambda: ELL), True))
    if default is not None:
        opts.append(("", (lambda: None), True))      # type: ignore  # absent
    opts.append(("<bad>", (lambda n=name: Sym(n + ":bad", "object", ("arg", n))), False))
    return opts


def shapes_for(st: SchemaType, tier: str) -> List[Shape]:
    out: List[Shape] = []
    n = st.cls.name
    for f in st.refinements():
        mname = f.name
        disp = "call" if mname == "__call__" else mname
        if n == "ListSchema" and mname == "__call__":
            from .visits import list_shapes
            out.append(Shape(mname, "(S)", lambda i: ([member("T")], {}), True, ("type",)))
            for label, mk in list_shapes(2 if tier == "quick" else 3):
                out.append(Shape(mname, f"({label})", (lambda i, mk=mk: ([mk()], {})), True, ("elements",)))
            out.append(Shape(mname, "([..., ...])", lambda i: ([ListV([ELL, ELL])], {}), True, ("elements",)))
            out.append(Shape(mname, "([S, ..., S])", lambda i: ([ListV([member("S1"), ELL, member("S2")])], {}), True, ("elements",)))
            out.append(Shape(mname, "([<bad>])", lambda i: ([ListV([Sym("x:bad", "object")])], {}), False, ("elements",)))
            out.append(Shape(mname, "(<bad>)", lambda i: ([Sym("x:bad", "object")], {}), False))
            continue
        if n == "DictSchema" and mname == "__call__":
            def raw(req: int, opt: int, rel: bool, bad: str = "") -> Callable[[Interp], Tuple[List[V], Dict[str, V]]]:
                def b(i: Interp) -> Tuple[List[V], Dict[str, V]]:
                    items: List[Tuple[V, V]] = []
                    for j in range(req):
                        items.append((Sym(f"r{j+1}", "key", ("dictkey", f"r{j+1}")), member(f"R{j+1}")))
                    oc = i.prog.cls("declaration.types._optional.optional")
                    for j in range(opt):
                        items.append((Inst(oc, {"_key": Sym(f"o{j+1}", "key", ("dictkey", f"o{j+1}"))}), member(f"O{j+1}")))
                    if rel:
                        items.append((ELL, ELL))
                    if bad == "val":
                        items.append((Sym("kb", "key"), Sym("v:bad", "object")))
                    if bad == "ellkey":
                        items.append((ELL, member("X")))
                    if bad == "ellval":
                        items.append((Sym("kb", "key"), ELL))
                    return [DictV(items)], {}
                return b
            for req, opt, rel in [(0, 0, False), (1, 0, False), (0, 1, False), (1, 1, True), (0, 0, True)]:
                lab = "({" + ", ".join([f"r{j+1}: R" for j in range(req)] + [f"optional(o{j+1}): O" for j in range(opt)] + (["...: ..."] if rel else [])) + "})"
                out.append(Shape(mname, lab, raw(req, opt, rel), True, ("keys",)))
            out.append(Shape(mname, "({k: <bad>})", raw(0, 0, False, "val"), False))
            out.append(Shape(mname, "({...: S})", raw(0, 0, False, "ellkey"), False))
            out.append(Shape(mname, "({k: ...})", raw(0, 0, False, "ellval"), False))
            out.append(Shape(mname, "(<bad>)", lambda i: ([Sym("x:bad", "object")], {}), False))
            continue
        if n == "AnySchema" and mname == "__call__":
            out.append(Shape(mname, "(S)", lambda i: ([member("A1")], {}), True))
            out.append(Shape(mname, "(S, S)", lambda i: ([member("A1"), member("A2")], {}), True))
            out.append(Shape(mname, "(<bad>)", lambda i: ([Sym("x:bad", "object")], {}), False))
            out.append(Shape(mname, "(S, <bad>)", lambda i: ([member("A1"), Sym("x:bad", "object")], {}), False))
            continue
        a = f.node.args
        params = (list(a.posonlyargs) + list(a.args))[1:]
        defaults = [None] * (len(params) - len(a.defaults)) + list(a.defaults)
        per_param = [_param_options(p, d, disp) for p, d in zip(params, defaults)]
        for combo in itertools.product(*per_param):
            labels = [c[0] for c in combo]
            # absent args must be trailing
            if "" in labels and any(l != "" for l in labels[labels.index(""):]):
                continue
            wt = all(c[2] for c in combo)
            if sum(1 for c in combo if not c[2]) > 1:
                continue
            lab = f"{disp}(" + ", ".join(l for l in labels if l != "") + ")"
            builders = [c[1] for c in combo if c[0] != ""]
            out.append(Shape(mname, lab, (lambda i, bs=builders: ([b() for b in bs], {})), wt,
                             tuple(p.arg for p in params)))
    return out


def _canon_pred(key: str) -> str:
    return key


def run_shape(prog: Program, model: Model, st: SchemaType, state: FrozenSet[str], shape: Shape,
              overrides: Optional[Dict[str, Callable[[], V]]] = None, max_depth: int = 6) -> List[Outcome]:
    it = Interp(prog, model, max_depth=max_depth, unroll=2)
    f = st.cls.methods[shape.method]

    def run(i: Interp) -> V:
        ov = {k: mk() for k, mk in (overrides or {}).items() if k in state}
        s = i.make_schema(st, sorted(state), ov, origin="self")
        args, kw = shape.build(i)
        return i.call_function(f, args, kw, self_val=s)
    outs: List[Outcome] = []
    for p in it.run_paths(run, max_paths=600):
        preds = tuple((k, b) for k, _, b in p.facts)
        terms = tuple((t, b) for _, t, b in p.facts)
        if p.outcome == "limit":
            outs.append(Outcome("LIMIT", path=p))
        elif p.outcome == "raise":
            exc = p.value
            assert isinstance(exc, ExcV)
            site = f"{getattr(p.exc_node, 'lineno', 0)}"
            outs.append(Outcome("REJECT" if not p.implicit else "ESCAPE", exc.cls_name, None, (), preds, terms, p, site))
        else:
            v = p.value
            if isinstance(v, SchemaV) and isinstance(v.props, PropsV):
                vals = {k: x for k, x in v.props.vals.items() if not is_nil(x)}
                ns = frozenset(vals)
                b = tuple(sorted((k, x.key()) for k, x in vals.items()))
                outs.append(Outcome("ACCEPT", None, ns, b, preds, terms, p))
            else:
                outs.append(Outcome("ACCEPT", None, None, (), preds, terms, p))
    return outs


def build(prog: Program, model: Model, st: SchemaType, tier: str,
          overrides: Optional[Dict[str, Callable[[], V]]] = None) -> TypeAutomaton:
    shapes = shapes_for(st, tier)
    ta = TypeAutomaton(st, shapes)
    start: FrozenSet[str] = frozenset()
    seen = {start}
    todo = [start]
    while todo:
        s = todo.pop()
        ta.states.append(s)
        for sh in shapes:
            outs = run_shape(prog, model, st, s, sh, overrides)
            ta.trans[(s, sh.key)] = outs
            for o in outs:
                if o.kind == "ACCEPT" and o.new_state is not None and o.new_state not in seen:
                    seen.add(o.new_state)
                    todo.append(o.new_state)
        if len(seen) > 400:
            break
    return ta


_ADMITTED: Dict[Tuple[int, str, str], Optional[FrozenSet[str]]] = {}
_EXCLUDED: Dict[Tuple[int, str, str], FrozenSet[str]] = {}


def excluded_kinds(prog: Program, model: Model, st: SchemaType, prop: str) -> FrozenSet[str]:
    """Kinds every accepting path of the declaration rules out for `prop` by a negative isinstance guard
    (e.g. `bool` when an int bound must not be a flag)."""
    admitted_kinds(prog, model, st, prop)
    return _EXCLUDED.get((id(prog), st.cls.qualname, prop), frozenset())


def admitted_kinds(prog: Program, model: Model, st: SchemaType, prop: str) -> Optional[FrozenSet[str]]:
    """Kinds of value the declaration stores under `prop`, read off the isinstance guards of the refinement methods:
    every method that updates the prop is run from the empty state with arguments of unknown kind; on each accepting
    path that stores an argument itself, the positive isinstance facts on it give the kinds (negative ones remove
    kinds).  None when some accepting path stores something whose kind no guard establishes."""
    ck = (id(prog), st.cls.qualname, prop)
    if ck in _ADMITTED:
        return _ADMITTED[ck]
    kinds: Set[str] = set()
    negs: List[FrozenSet[str]] = []
    unknown = False
    found = False
    for f in st.refinements():
        upd = st.update_keys.get(f.name, [])
        if upd and prop not in upd:
            continue        # (a method without a visible update site may delegate to a helper: it is run)
        params = [a.arg for a in f.node.args.posonlyargs + f.node.args.args if a.arg != "self"]
        it = Interp(prog, model, max_depth=6, unroll=1)

        def run(i: Interp, f: FuncInfo = f, params: List[str] = params) -> V:
            sc = i.make_schema(st, (), {}, origin="self")
            args = [Sym(f"{f.name}.{n}", None, ("arg", n)) for n in params]
            return i.call_function(f, args, {}, self_val=sc)
        for p in it.run_paths(run, max_paths=400):
            if p.outcome != "return" or not (isinstance(p.value, SchemaV) and isinstance(p.value.props, PropsV)):
                continue
            v = p.value.props.vals.get(prop)
            if v is None or is_nil(v):
                continue
            found = True
            if isinstance(v, Const):
                if v.kind:
                    kinds.add(v.kind)
                continue
            if not (isinstance(v, Sym) and v.origin and v.origin[0] == "arg"):
                if getattr(v, "kind", None):
                    kinds.add(v.kind)       # type: ignore[arg-type]
                else:
                    unknown = True
                continue
            pos: Set[str] = set()
            neg: Set[str] = set()
            for _, t, b in p.facts:
                if isinstance(t, Term) and t.op == "isinstance" and t.args and isinstance(t.args[0], V) and t.args[0].key() == v.key():
                    labels = set(str(t.args[1]).split("|"))
                    if b:
                        pos = labels if not pos else (pos & labels)
                    else:
                        neg |= labels
            if not pos:
                unknown = True
            kinds |= (pos - neg)
            negs.append(frozenset(neg))
    out = None if (unknown or not found) else frozenset(kinds)
    _ADMITTED[ck] = out
    _EXCLUDED[ck] = frozenset.intersection(*negs) if negs else frozenset()
    return out
