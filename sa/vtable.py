"""Decision table of the validator, extracted by abstract interpretation (used by C02, C10, C01)."""
from __future__ import annotations

from dataclasses import dataclass
from typing import Any, Dict, FrozenSet, List, Optional, Set, Tuple

from .interp import Event, Path
from .loader import Program
from .model import Model, SchemaType
from .values import Const, Ext, Sym, Term, V
from .visits import Config, run_visit, validator_ctx


@dataclass
class Row:
    visitor: str
    hook: str
    state: Tuple[str, ...]
    error: str                 # error class name
    term: Optional[V]          # failing predicate (last fact before the construction)
    polarity: Optional[bool]
    returns: bool              # path returns right after (short-circuit) vs accumulates
    site: str
    args: List[V]
    all_facts: List[Tuple[str, V, bool]]

    @property
    def pred_key(self) -> str:
        if self.term is None:
            return "<none>"
        return ("" if self.polarity else "not ") + self.term.key()


def subst(t: Any, mapping: Dict[str, V]) -> Any:
    if isinstance(t, V):
        k = t.key()
        if k in mapping:
            return mapping[k]
        if isinstance(t, Term):
            return Term(t.op, tuple(subst(a, mapping) for a in t.args), t.kind, t.node)
    return t


def _split_offset(v: V) -> Tuple[str, Optional[int]]:
    """X + c / X - c with a constant c -> (key of X, c)."""
    if isinstance(v, Term) and v.op == "bin" and v.args[0] in ("+", "-"):
        a, b = v.args[1], v.args[2]
        if isinstance(b, Const) and isinstance(b.value, int) and not isinstance(b.value, bool):
            return a.key(), (b.value if v.args[0] == "+" else -b.value)
        if isinstance(a, Const) and isinstance(a.value, int) and v.args[0] == "+":
            return b.key(), a.value
    return v.key(), 0


def relation(term: V, polarity: bool, x_key: str, y_key: str) -> Optional[FrozenSet[str]]:
    """Outcome set among {LT, EQ, GT} of (X ? Y) described by a comparison term with the given polarity.
    A comparison shifted by a constant covers only part of a region: LT_PART / GT_PART (never a full cover)."""
    if not isinstance(term, Term):
        return None
    if term.op == "lt":
        (a, ca), (b, cb) = _split_offset(term.args[0]), _split_offset(term.args[1])
        if ca is None or cb is None:
            return None
        # a literal bound c compared with X where Y is the literal y:  c == y + (c - y)
        for lit_key in (x_key, y_key):
            if lit_key.lstrip("-").isdigit():
                if a != lit_key and a.lstrip("-").isdigit() and b in (x_key, y_key) and b != lit_key:
                    a, ca = lit_key, ca + int(a) - int(lit_key)
                if b != lit_key and b.lstrip("-").isdigit() and a in (x_key, y_key) and a != lit_key:
                    b, cb = lit_key, cb + int(b) - int(lit_key)
        if (a, b) == (x_key, y_key):
            d = cb - ca                   # X + ca < Y + cb  <=>  X < Y + d
            s = {"LT"} if d == 0 else ({"LT_PART"} if d < 0 else {"LT", "EQ", "GT_PART"})
            comp = {"EQ", "GT"} if d == 0 else ({"LT_PART", "EQ", "GT"} if d < 0 else {"GT_PART"})
        elif (a, b) == (y_key, x_key):
            d = cb - ca                   # Y + ca < X + cb  <=>  X > Y - d
            s = {"GT"} if d == 0 else ({"GT_PART"} if d < 0 else {"GT", "EQ", "LT_PART"})
            comp = {"EQ", "LT"} if d == 0 else ({"GT_PART", "EQ", "LT"} if d < 0 else {"LT_PART"})
        else:
            return None
        return frozenset(s if polarity else comp)
    if term.op == "eq":
        ks = {term.args[0].key(), term.args[1].key()}
        if ks == {x_key, y_key}:
            return frozenset({"EQ"} if polarity else {"LT", "GT"})
    return None


def canonical(term: Optional[V], polarity: Optional[bool]) -> Optional[Tuple[str, str, str]]:
    """Special failing predicates: NOT_SUBSET(V, B), NOT_IN(B, V), SEARCH_NONE(P, V)."""
    if term is None or polarity is None or not isinstance(term, Term):
        return None
    # `B not in V`
    if term.op == "in" and polarity is False:
        a, b = term.args
        if isinstance(a, Sym) and a.origin and a.origin[0] == "elem":
            src = a.origin[1]
            bb = b.args[0] if isinstance(b, Term) and b.op == "set" else b
            return ("NOT_SUBSET", src.key(), bb.key())
        return ("NOT_IN", a.key(), b.key())
    # `re.search(P, V) is None`
    if term.op == "is" and polarity is True:
        a, b = term.args
        if isinstance(a, Term) and a.op == "call" and a.args and a.args[0] in ("re.search",) and isinstance(b, Const) and b.value is None:
            return ("SEARCH_NONE", a.args[1].key(), a.args[2].key())
    # `len({x for x in V if x not in B}) > 0`  /  `len(...) != 0`
    if (term.op == "lt" and polarity is True) or (term.op == "eq" and polarity is False):
        a, b = term.args
        if term.op == "eq" and isinstance(b, Const):
            a, b = b, a
        if isinstance(a, Const) and a.value == 0 and isinstance(b, Term) and b.op == "len":
            c = b.args[0]
            if isinstance(c, Term) and c.op in ("setcomp", "listcomp") and len(c.args) == 3:
                elt, src, conds = c.args
                cs = conds.items if hasattr(conds, "items") else []
                if len(cs) == 1 and isinstance(cs[0], Term) and cs[0].op == "not" and isinstance(cs[0].args[0], Term) \
                        and cs[0].args[0].op == "in" and isinstance(elt, Sym) and elt.origin and elt.origin[0] == "elem" \
                        and cs[0].args[0].args[0].key() == elt.key():
                    return ("NOT_SUBSET", elt.origin[1].key(), cs[0].args[0].args[1].key())
    return None


LOSSY = {"builtins.round": "round()", "builtins.int": "int()", "math.floor": "floor()", "math.ceil": "ceil()",
         "math.trunc": "trunc()", "builtins.abs": "abs()"}


def lossy_image(v: Any, payload_key: str) -> Optional[str]:
    """Is `v` a non-identity numeric function of the payload (round/int/floor/ceil/abs applied to it)?"""
    if isinstance(v, Term) and v.op == "call" and isinstance(v.args[0], str) and v.args[0] in LOSSY:
        if any(isinstance(a, V) and payload_key in a.key() for a in v.args[1:]):
            return LOSSY[v.args[0]]
    if isinstance(v, Term) and v.op in ("bin", "call", "max", "min"):
        for a in v.args:
            r = lossy_image(a, payload_key) if isinstance(a, V) else None
            if r:
                return r
    return None


def comparison_operands(term: V) -> Optional[Tuple[str, str]]:
    if isinstance(term, Term) and term.op in ("lt", "eq") and len(term.args) == 2:
        return _split_offset(term.args[0])[0], _split_offset(term.args[1])[0]
    return None


def extract(prog: Program, model: Model, visitor: str, hook: str, cfg: Config, unroll: int = 1) -> Tuple[List[Row], List[Path]]:
    errs = {c.name for c in prog.subclasses(prog.cls("validation.errors.ValidationError"))}
    paths = run_visit(prog, model, visitor, hook, cfg, validator_ctx, unroll=unroll)
    rows: List[Row] = []
    for p in paths:
        if p.outcome != "return":
            continue
        cons = [e for e in p.events if e.kind == "construct" and e.data.get("cls") is not None and e.data["cls"].name in errs]
        for i, e in enumerate(cons):
            facts = p.facts[:e.nfacts]
            term, pol = (facts[-1][1], facts[-1][2]) if facts else (None, None)
            # short-circuit: no further fact after this construction on the path
            returns = len(p.facts) == e.nfacts and i == len(cons) - 1
            rows.append(Row(visitor, hook, cfg.setprops, e.data["cls"].name, term, pol, returns, e.loc(prog),
                            e.data["args"], list(facts)))
    return rows, paths


def surplus_reported(rows: List[Row], n: int) -> Tuple[bool, str]:
    """Exact element list of n members: are the positions n .. len(value)-1 (and only those) reported as extra?
    Accepted: an ExtraElementValidationError whose index ranges over range(n, len(value)) - with or without an explicit
    `len(value) > n` guard (the loop is empty otherwise) - or one raised under a guard whose relation is exactly GT."""
    ex = [r for r in rows if r.error == "ExtraElementValidationError"]
    if not ex:
        return False, "surplus elements of an exact list are never reported"
    for r in ex:
        idx = r.args[2] if len(r.args) > 2 else None
        if isinstance(idx, Sym) and idx.origin and idx.origin[0] == "range" and isinstance(idx.origin[1], Term):
            rng = idx.origin[1]
            start = rng.args[0] if len(rng.args) >= 2 else Const(0)
            stop = rng.args[1] if len(rng.args) >= 2 else rng.args[0]
            if isinstance(start, Const) and start.value == n and isinstance(stop, V) and stop.key() == "len(value)":
                # an additional guard on the way must not cut into len(value) > n
                for _, t, b in r.all_facts:
                    rr = relation(t, b, "len(value)", str(n)) if isinstance(t, Term) else None
                    if rr is not None and "GT" not in rr:
                        return False, f"surplus positions are only reported under {('' if b else 'not ') + t.key()[:50]}, which excludes part of len(value) > {n}"
                return True, ""
            if isinstance(start, V) and isinstance(stop, V) and stop.key() == "len(value)":
                return False, f"surplus positions are reported from {start.key()[:40]} on, not from {n} (the number of declared elements)"
        guards = [(t, b) for _, t, b in r.all_facts if isinstance(t, Term)]
        if any(relation(t, b, "len(value)", str(n)) == frozenset({"GT"}) for t, b in guards):
            return True, ""
    return False, "surplus elements are not reported exactly when len(value) > number of declared elements"


def dedupe(rows: List[Row]) -> List[Row]:
    seen: Dict[Tuple[str, str, str], Row] = {}
    for r in rows:
        seen.setdefault((r.hook, r.error, r.pred_key), r)
    return list(seen.values())
