"""CLI:  python -m sa check <ID> [--tier quick|thorough] [--repo /repo]"""
from __future__ import annotations

import argparse
import importlib
import os
import sys
import traceback


def main() -> int:
    ap = argparse.ArgumentParser("sa")
    sub = ap.add_subparsers(dest="cmd", required=True)
    c = sub.add_parser("check")
    c.add_argument("prop")
    c.add_argument("--tier", default=os.environ.get("VERIF_TIER", "quick"), choices=("quick", "thorough"))
    c.add_argument("--repo", default=os.environ.get("SA_REPO", "/repo"))
    c.add_argument("--no-calibration", action="store_true")
    a = sub.add_parser("all")
    a.add_argument("--tier", default="quick", choices=("quick", "thorough"))
    a.add_argument("--repo", default=os.environ.get("SA_REPO", "/repo"))
    args = ap.parse_args()
    if args.cmd == "all":
        rc = 0
        for i in range(1, 20):
            rc = max(rc, run_one(f"C{i:02d}", args.tier, args.repo, False))
        return rc
    return run_one(args.prop, args.tier, args.repo, args.no_calibration)


def run_one(prop: str, tier: str, repo: str, no_calibration: bool) -> int:
    from .loader import AnalysisError, Program
    from .model import Model
    from .report import Run, finish
    try:
        seed = int(os.environ.get("VERIF_SEED", "0") or 0)
    except ValueError:
        seed = 0
    try:
        mod = importlib.import_module(f"sa.rules.{prop.lower()}")
        run = Run(prop, tier)
        prog = Program(repo)
        model = Model(prog)
        run.analysed.update(prog.stats())
        mod.check(run, prog, model, tier)
        if tier == "thorough" and not no_calibration and hasattr(mod, "MUTANTS"):
            from .calibrate import calibrate
            calibrate(run, mod, repo)
        return finish(run, seed)
    except AnalysisError as e:
        print(f"ANALYSIS-ERROR property={prop}: {e}")
        return 2
    except Exception:
        print(f"ANALYSIS-ERROR property={prop}: checker crashed")
        traceback.print_exc()
        return 2


if __name__ == "__main__":
    sys.exit(main())
