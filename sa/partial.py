"""Judging `partial` events of interpreter paths: which exceptions may escape (DESIGN appendix A)."""
from __future__ import annotations

import re as _re
from typing import Any, Dict, List, Optional, Set, Tuple

from .interp import Event, Path
from .loader import ClassInfo
from .values import (Const, DictV, ListV, SetV, StrV, Sym, Term, TupleV, V, is_ell, is_nil, kind_is)

NUM = {"int", "float", "bool"}
SIZED = {"str", "list", "dict", "tuple", "set", "bytes", "sequence", "frozenset", "PathHolder"}
ITERABLE = SIZED | {"generator", "iterator"}
# kinds whose str()/repr() never converts an int of unbounded size to decimal digits
RENDER_SAFE = {"str", "float", "bool", "bytes", "NoneType", "date", "datetime", "UUID", "type", "PathHolder", "index"}


def _caught(interp_like: Any, exc: Any, handlers: Tuple[Any, ...]) -> bool:
    for hs in handlers:
        for h in hs:
            if isinstance(h, type) and isinstance(exc, type) and issubclass(exc, h):
                return True
    return False


def kind_on_path(v: V, p: Path, nfacts: int) -> Optional[str]:
    """Kind of a value, refined by isinstance facts that hold at that point of the path."""
    k = getattr(v, "kind", None)
    key = v.key()
    for fk, t, b in p.facts[:nfacts]:
        if isinstance(t, Term) and t.op == "isinstance" and b and t.args[0].key() == key and "|" not in str(t.args[1]):
            k = str(t.args[1])
    return k


def escapes(p: Path, e: Event, *, value_kinds: Optional[Dict[str, str]] = None) -> List[Tuple[Any, str]]:
    """Exceptions that may escape at partial event `e` on path `p` (after handlers and guards)."""
    d = e.data
    op = d.get("op")
    excs = list(d.get("excs", ()))
    if d.get("raised") is not None and not d.get("definite"):
        return []        # this path took the raising branch and it was caught by construction
    out: List[Tuple[Any, str]] = []
    operands = d.get("operands", ())

    def kind(v: V) -> Optional[str]:
        k = kind_on_path(v, p, e.nfacts)
        if k is None and value_kinds:
            k = value_kinds.get(v.key())
        return k

    for x in excs:
        if _caught(None, x, e.handlers):
            continue
        why = None
        if op == "arity":
            why = "arity"
        elif op == "getitem":
            recv, idx = operands
            rk = kind(recv)
            if x is IndexError and rk in ("list", "str", "tuple", "bytes", "sequence", None):
                if _index_in_range(recv, idx, p, e):
                    continue
                if rk is None and x is IndexError and _guarded_key(recv, idx, p, e):
                    continue
                why = f"{recv.key()[:40]}[{idx.key()[:30]}] may be out of range"
            elif x is KeyError and rk in ("dict", None):
                if _guarded_key(recv, idx, p, e):
                    continue
                why = f"{recv.key()[:40]}[{idx.key()[:30]}] without a dominating membership test"
            elif x is TypeError:
                if rk in SIZED or rk == "dict":
                    continue
                if _guarded_key(recv, idx, p, e):
                    continue
                why = f"subscript on a value of unknown kind {recv.key()[:40]}"
            else:
                continue
        elif op in ("re.compile", "re.search", "re.match", "re.fullmatch", "re._parser.parse", "sre_parse.parse"):
            pat = operands[0] if operands else None
            if isinstance(pat, Const):
                continue
            # pattern already compiled successfully earlier on this path / declared pattern prop
            if pat is not None and _compiled_before(p, e, pat):
                continue
            if isinstance(pat, Sym) and pat.origin and pat.origin[0] == "prop":
                continue   # a declared pattern was compiled at declaration time (C10 checks that)
            why = f"{op}({pat.key()[:30] if pat is not None else ''}) with an unchecked pattern"
        elif op in ("builtins.round", "builtins.int", "math.floor", "math.ceil", "math.trunc"):
            if op == "builtins.round" and len(operands) >= 2:
                continue        # round(x, ndigits) returns a float and is total (inf/nan pass through)
            a = operands[0] if operands else None
            ak = kind(a) if a is not None else None
            if ak in ("int", "bool"):
                continue
            if a is not None and _finite_guard(p, e, a):
                continue
            if isinstance(a, Const):
                continue
            if x is TypeError:
                if ak in ("float", "str", "bytes") or a is None:
                    continue
                why = f"{op}({a.key()[:50]}) on a value that may be None / not a number"
            else:
                why = f"{op}({a.key()[:50] if a is not None else ''}) on a possibly non-finite float"
        elif op == "builtins.float":
            continue
        elif op in ("builtins.hex", "builtins.oct", "builtins.bin"):
            a = operands[0] if operands else None
            if a is not None and kind(a) in ("int", "bool", "index"):
                continue
            why = f"{op[9:]}() of {a.key()[:40] if a is not None else '?'} (kind {kind(a) if a is not None else None}): only ints have it"
        elif op == "order":
            a, b = operands
            ka, kb = kind(a), kind(b)
            if ka and kb and ((ka in NUM and kb in NUM) or ka == kb or kind_is(ka, kb) or kind_is(kb, ka)):
                continue
            why = f"ordering comparison between kinds {ka} and {kb}"
        elif op == "len":
            a = operands[0]
            if kind(a) in SIZED:
                continue
            why = f"len() of a value of kind {kind(a)}"
        elif op == "iter":
            a = operands[0]
            if kind(a) in ITERABLE:
                continue
            why = f"iteration over a value of kind {kind(a)}"
        elif op == "contains":
            a, b = operands
            if kind(b) in SIZED or kind(b) == "dict":
                continue
            why = f"`in` on a value of kind {kind(b)}"
        elif op == "getattr":
            recv = operands[0]
            rk = kind(recv)
            if rk is not None and not d.get("definite"):
                continue
            if _hasattr_guard(p, e, recv, operands[1]):
                continue
            why = f"attribute {operands[1].key()} of {recv.key()[:40]} (kind {rk})"
        elif op in ("random.randint", "random.randrange", "random.choice", "builtins.chr", "builtins.next"):
            why = None      # judged by DRAW-ORDER rules, not an escape of these properties
            continue
        elif op == "div":
            b = operands[1]
            if isinstance(b, Term) and b.op == "bin" and b.args[0] == "**":
                continue
            if isinstance(b, Const) and b.value:
                continue
            why = "division by a possibly zero value"
        elif op == "format-template":
            why = (f"str.format on a template that embeds a runtime value ({operands[0].key()[:50]}): a `{{` or `}}` in that "
                   "value is parsed as a replacement field")
        elif op == "hash":
            why = f"{d.get('what', 'hashing')} with a key that may be unhashable ({operands[0].key()[:50]}): TypeError"
        elif op == "sorted":
            why = f"sorted() over elements of unknown kinds ({operands[0].key()[:50]}): unorderable members raise TypeError"
        elif op in ("min", "max"):
            if operands and _known_nonempty(operands[0], p, e):
                continue
            why = f"{op}() of a possibly empty iterable"
        elif op == "format-spec":
            from .interp_expr import _spec_fits
            a = operands[0]
            if _spec_fits(kind(a), d.get("spec")):
                continue
            why = f"format spec {d.get('spec')!r} applied to {a.key()[:40]} of kind {kind(a)}"
        elif op == "render":
            a = operands[0]
            ak = kind(a)
            if ak in RENDER_SAFE:
                continue
            if isinstance(a, Term) and a.op == "len":
                continue        # a length is bounded by memory
            why = (f"str()/repr() of {a.key()[:40]} (kind {ak}): an int beyond sys.get_int_max_str_digits(), alone or "
                   "inside a container, raises ValueError")
        elif op == "accept":
            why = "`...`/Nil marker used as a schema"
        else:
            why = f"{op}"
        if why is not None:
            out.append((x, why))
    return out


def _index_in_range(recv: V, idx: V, p: Path, e: Event) -> bool:
    # enumerate/range(len(recv)) indices
    if isinstance(idx, Sym) and idx.origin and idx.origin[0] == "index" and idx.origin[1].key() == recv.key():
        return True
    if isinstance(idx, Sym) and idx.origin and idx.origin[0] == "range":
        rng = idx.origin[1]
        if isinstance(rng, Term) and rng.args:
            upper = rng.args[-1] if len(rng.args) <= 2 else rng.args[1]
            if _at_most_len(upper, recv):
                return True
    # explicit guard:  not lt(idx, len(recv)) is False  i.e. idx < len(recv) holds, or `real_index >= len(value)` False
    ik, rk = idx.key(), recv.key()
    for fk, t, b in p.facts[:e.nfacts]:
        if isinstance(t, Term) and t.op == "lt":
            a0, a1 = t.args[0].key(), t.args[1].key()
            if a0 == ik and a1 == f"len({rk})" and b:
                return True
    # literal index under a length test
    if isinstance(idx, Const) and isinstance(idx.value, int):
        for fk, t, b in p.facts[:e.nfacts]:
            if isinstance(t, Term) and t.op in ("lt", "eq") and f"len({rk})" in fk:
                return True
        # first / last element of a sequence built one-for-one from a source that is known to be non-empty
        if idx.value in (0, -1) and _known_nonempty(recv, p, e):
            return True
    return False


def _known_nonempty(v: V, p: Path, e: Event) -> bool:
    """v is built one-for-one from a source whose size the path condition has established to be positive."""
    vk = v.key()
    for fk, t, b in p.facts[:e.nfacts]:
        if b and fk == vk and getattr(v, "kind", None) in ("list", "tuple", "set", "dict", "str"):
            return True                         # `if v:` on a sized container
        if isinstance(t, Term) and t.op == "eq" and not b and {t.args[0].key(), t.args[1].key()} == {"0", f"len({vk})"}:
            return True
        if isinstance(t, Term) and t.op == "lt" and b and t.args[0].key() == "0" and t.args[1].key() == f"len({vk})":
            return True
    src = _one_for_one_source(v)
    if src is None:
        src = v
    if isinstance(src, Term) and src.op == "range" and len(src.args) == 1 and isinstance(src.args[0], V):
        sk = src.args[0].key()                 # range(N) has N members
    else:
        sk = f"len({src.key()})"
    for fk, t, b in p.facts[:e.nfacts]:
        if isinstance(t, Term) and t.op == "eq" and not b and {t.args[0].key(), t.args[1].key()} == {"0", sk}:
            return True
        if isinstance(t, Term) and t.op == "lt" and b and t.args[0].key() == "0" and t.args[1].key() == sk:
            return True
    return False


def _one_for_one_source(v: V) -> "V | None":
    """S when len(v) == len(S) by construction: sorted(X) / list(X) / reversed(X), an unconditional comprehension
    over S, enumerate(S)."""
    changed = False
    while isinstance(v, Term):
        if v.op in ("sorted", "list", "reversed", "enumerate", "src") and v.args and isinstance(v.args[0], V):
            v = v.args[0]
        elif v.op == "listcomp" and len(v.args) == 2 and isinstance(v.args[1], Term):     # no `if` clause recorded
            v = v.args[1]
        else:
            break
        changed = True
    return v if changed else None


def _at_most_len(upper: V, recv: V) -> bool:
    """upper <= len(recv) by structure: len(recv), an index of recv, max(0, len(recv) - c), 0."""
    rk = recv.key()
    if isinstance(upper, Term) and upper.op == "len" and upper.args[0].key() == rk:
        return True
    if isinstance(upper, Const) and upper.value == 0:
        return True
    if isinstance(upper, Sym) and upper.origin and upper.origin[0] == "index" and upper.origin[1].key() == rk:
        return True
    if isinstance(upper, Sym) and upper.origin and upper.origin[0] == "range" and isinstance(upper.origin[1], Term) \
            and upper.origin[1].args:
        r = upper.origin[1]
        stop = r.args[-1] if len(r.args) <= 2 else r.args[1]      # a value drawn from range(.., stop) is < stop
        if isinstance(stop, V) and _at_most_len(stop, recv):
            return True
    if isinstance(upper, Term) and upper.op == "bin" and upper.args[0] == "-" and isinstance(upper.args[1], Term) \
            and upper.args[1].op == "len" and upper.args[1].args[0].key() == rk:
        sub = upper.args[2]
        if (isinstance(sub, Const) and isinstance(sub.value, int) and sub.value >= 0) or (isinstance(sub, Term) and sub.op == "len"):
            return True             # len(recv) - (something non-negative)
    if isinstance(upper, Term) and upper.op == "max" and len(upper.args) == 2:
        a, b = upper.args
        for x, y in ((a, b), (b, a)):
            if isinstance(x, Const) and x.value == 0 and isinstance(y, Term) and y.op == "bin" and y.args[0] == "-" \
                    and isinstance(y.args[1], Term) and y.args[1].op == "len" and y.args[1].args[0].key() == rk:
                return True
    return False


def _guarded_key(recv: V, idx: V, p: Path, e: Event) -> bool:
    rk, ik = recv.key(), idx.key()
    for fk, t, b in p.facts[:e.nfacts]:
        if isinstance(t, Term) and t.op == "in" and b and t.args[0].key() == ik and t.args[1].key() == rk:
            return True
    # key iterates the same mapping
    if isinstance(idx, Sym) and idx.origin and idx.origin[0] in ("key", "elem") and len(idx.origin) > 1 \
            and isinstance(idx.origin[1], V) and idx.origin[1].key() == rk:
        return True
    return False


def _compiled_before(p: Path, e: Event, pat: V) -> bool:
    for ev in p.events:
        if ev is e:
            break
        if ev.kind == "partial" and ev.data.get("op") == "re.compile" and ev.data.get("raised") is None \
                and ev.data.get("operands") and ev.data["operands"][0].key() == pat.key():
            return True
    return False


def _finite_guard(p: Path, e: Event, a: V) -> bool:
    ak = a.key()
    for fk, t, b in p.facts[:e.nfacts]:
        if b and fk == f"call(math.isfinite, {ak})":
            return True
    return False


def _hasattr_guard(p: Path, e: Event, recv: V, attr: V) -> bool:
    return False


def draw_nonempty(v: V, p: Path, e: Event) -> Optional[bool]:
    """Is the sequence a `random.choice` draws from provably non-empty at that point of the path?
    True / False (provably empty) / None (nothing on the path establishes it)."""
    if isinstance(v, Const):
        try:
            return len(v.value) > 0
        except TypeError:
            return None
    if isinstance(v, (ListV, TupleV, SetV)) and v.concrete():
        return len(v.items) > 0
    if isinstance(v, StrV):
        if any(isinstance(x, str) and x for x in v.pieces):
            return True
    if isinstance(v, Term) and v.op == "call" and v.args and v.args[0] == "builtins.chr":
        return True                 # chr() is a one-character string
    if isinstance(v, Term) and v.op == "call" and v.args and v.args[0] == "builtins.next" and "builtins.chr" in v.key():
        # next(<characters>, None) on a path that established the result is not the default: one of the characters
        vk0 = v.key()
        for fk, t, b in p.facts[:e.nfacts]:
            if isinstance(t, Term) and t.op == "is" and not b and any(isinstance(a, V) and a.key() == vk0 for a in t.args) \
                    and any(isinstance(a, Const) and a.value is None for a in t.args):
                return True
    if isinstance(v, Sym) and v.origin and v.origin[0] == "elem" and len(v.origin) > 1 and isinstance(v.origin[1], V):
        # a member of map(chr, ...) - possibly filtered - is a one-character string
        src = v.origin[1]
        while isinstance(src, Term) and src.op in ("gencomp", "listcomp", "src") and src.args and isinstance(src.args[-1 if src.op == "src" else 1], V):
            src = src.args[0] if src.op == "src" else src.args[1]
        if isinstance(src, Term) and src.op == "map" and src.args and src.args[0].key() == "<builtins.chr>":
            return True
    if _known_nonempty(v, p, e):
        return True
    vk = v.key()
    for fk, t, b in p.facts[:e.nfacts]:
        # `if not v: <replace / raise>` leaves `v` truthy on the fall-through path, whatever its kind
        if (fk == vk or fk == f"len({vk})") and b:
            return True
        if isinstance(t, Term) and t.op == "eq" and {a.key() for a in t.args if isinstance(a, V)} == {f"len({vk})", "0"}:
            return not b
    return None
