"""Behaviour-preserving refactorings of d42.  Every one of them must leave EVERY check silent
(exit 0): `tools/neutral.py` applies each to a scratch copy of the current tree and runs all 19 quick checks.
They are also used by the thorough tier of the property whose code they touch (see NEUTRAL_FOR)."""

V = "d42/validation/_validator.py"
SU = "d42/substitution/_substitutor.py"
R = "d42/generation/_random.py"
G = "d42/generation/_generator.py"
REP = "d42/representation/_representor.py"
P = "d42/declaration/_props.py"
FN = "d42/utils/_from_native.py"
F = "d42/validation/_formatter.py"
M = "d42/migration/migrate_v1_to_v2.py"
D = "d42/declaration/types/_dict_schema.py"
S = "d42/declaration/types/_str_schema.py"

NEUTRAL = [
    {"name": "N01 alias chains unwrapped iteratively, context still forwarded",
     "edits": [(V, "        return schema.props.type.__accept__(self, value=value, path=path, **kwargs)",
                "        target = schema.props.type\n        while isinstance(target, GenericTypeAliasSchema):\n            target = target.props.type\n        return target.__accept__(self, value=value, path=path, **kwargs)")]},
    {"name": "N02 _substitute_elements built from slices and comprehensions",
     "edits": [(SU, "        for i in range(start + len(substituted), len(value)):\n            substituted.insert(i, self._from_native(value[i]))\n\n        for i in range(start):\n            substituted.insert(i, self._from_native(value[i]))\n\n        return substituted",
                "        head = [self._from_native(val) for val in value[:start]]\n        tail = [self._from_native(val) for val in value[start + len(substituted):]]\n\n        return head + substituted + tail")]},
    {"name": "N03 dict substitution walks the value over a copied key table",
     "edits": [(SU, "            for key, (val, is_optional) in schema.props.keys.items():\n                if key in value:\n                    if is_ellipsis(value[key]):\n                        keys[key] = (val, False)\n                    else:\n                        keys[key] = (val.__accept__(self, value=value[key], **kwargs), False)\n                else:\n                    keys[key] = (val, is_optional)\n            for key, val in value.items():\n                if key not in schema.props.keys:\n                    raise SubstitutionError(f\"Unknown key {key!r}\")\n",
                "            declared = schema.props.keys\n            keys = dict(declared)\n            for key, val in value.items():\n                if key not in declared:\n                    raise SubstitutionError(f\"Unknown key {key!r}\")\n                member = declared[key][0]\n                if not is_ellipsis(val):\n                    member = member.__accept__(self, value=val, **kwargs)\n                keys[key] = (member, False)\n")]},
    {"name": "N04 Random draws from one private generator that set_seed seeds",
     "edits": [(R, "class Random:\n    def set_seed(self, seed: SeedType) -> None:\n        random.seed(seed)\n\n    def random_int(self, start: int, end: int) -> int:\n        return random.randint(start, end)",
                "_rng = random.Random()\n\n\nclass Random:\n    def set_seed(self, seed: SeedType) -> None:\n        _rng.seed(seed)\n\n    def random_int(self, start: int, end: int) -> int:\n        return _rng.randint(start, end)"),
               (R, "            return random.uniform(start, end)\n\n        scale_factor", "            return _rng.uniform(start, end)\n\n        scale_factor"),
               (R, "        if left_number > right_number:\n            return random.uniform(start, end)", "        if left_number > right_number:\n            return _rng.uniform(start, end)"),
               (R, "        return \"\".join(random.choice(alphabet) for _ in range(length))", "        return \"\".join(_rng.choice(alphabet) for _ in range(length))"),
               (R, "        return random.choice(sequence)", "        return _rng.choice(sequence)"),
               (R, "        random.shuffle(elements)", "        _rng.shuffle(elements)")]},
    {"name": "N05 length suffix of the representor extracted into a shared helper",
     "edits": [(REP, "        if schema.props.len is not Nil:\n            r += f\".len({schema.props.len!r})\"\n        elif (schema.props.min_len is not Nil) and (schema.props.max_len is not Nil):\n            r += f\".len({schema.props.min_len!r}, {schema.props.max_len!r})\"\n        elif schema.props.min_len is not Nil:\n            r += f\".len({schema.props.min_len!r}, ...)\"\n        elif schema.props.max_len is not Nil:\n            r += f\".len(..., {schema.props.max_len!r})\"\n\n        return r\n\n    def visit_list",
                "        return r + self._repr_len(schema.props)\n\n    def _repr_len(self, props: Any) -> str:\n        if props.len is not Nil:\n            return f\".len({props.len!r})\"\n        elif (props.min_len is not Nil) and (props.max_len is not Nil):\n            return f\".len({props.min_len!r}, {props.max_len!r})\"\n        elif props.min_len is not Nil:\n            return f\".len({props.min_len!r}, ...)\"\n        elif props.max_len is not Nil:\n            return f\".len(..., {props.max_len!r})\"\n        return \"\"\n\n    def visit_list")]},
    {"name": "N06 Props.__eq__ over the union of keys",
     "edits": [(P, "        for key, val in self._registry.items():\n            other_val = other.get(key)\n            if val != other_val:\n                return False\n\n        for key, other_val in other._registry.items():\n            val = self.get(key)\n            if other_val != val:\n                return False\n\n        return True",
                "        for key in list(self._registry) + [k for k in other._registry if k not in self._registry]:\n            if self.get(key) != other.get(key):\n                return False\n        return True")]},
    {"name": "N07 from_native delegates to a private worker",
     "edits": [(FN, "def from_native(value: Any) -> GenericSchema:\n    if value is None:", "def from_native(value: Any) -> GenericSchema:\n    return _convert(value)\n\n\ndef _convert(value: Any) -> GenericSchema:\n    if value is None:"),
               (FN, "        return ListSchema()([from_native(x) for x in value])", "        return ListSchema()([_convert(x) for x in value])"),
               (FN, "        return DictSchema()({key: from_native(val) for key, val in value.items()})", "        return DictSchema()({key: _convert(val) for key, val in value.items()})")]},
    {"name": "N08 formatter message assembled with str.format",
     "edits": [(F, "        return (f\"Value {actual_type}{formatted_path} \"\n                f\"must contain {error.substr!r}, but {error.actual_value!r} given\")",
                "        return \"Value {}{} must contain {!r}, but {!r} given\".format(\n            actual_type, formatted_path, error.substr, error.actual_value)")]},
    {"name": "N09 validator: length checks of str share a helper",
     "edits": [(V, "        if schema.props.len is not Nil:\n            if len(value) != schema.props.len:\n                result.add_error(LengthValidationError(path, value, schema.props.len))\n        if schema.props.min_len is not Nil:\n            if len(value) < schema.props.min_len:\n                result.add_error(MinLengthValidationError(path, value, schema.props.min_len))\n        if schema.props.max_len is not Nil:\n            if len(value) > schema.props.max_len:\n                result.add_error(MaxLengthValidationError(path, value, schema.props.max_len))\n\n        if schema.props.substr is not Nil:",
                "        for error in self._check_str_len(path, value, schema):\n            result.add_error(error)\n\n        if schema.props.substr is not Nil:"),
               (V, "    def visit_list(self, schema: ListSchema, *,\n                   value: Any = Nil, path: Nilable[PathHolder] = Nil,\n                   **kwargs: Any) -> ValidationResult:\n        result = self._validation_result_factory()",
                "    def _check_str_len(self, path: PathHolder, value: Any, schema: StrSchema) -> List[ValidationError]:\n        errors: List[ValidationError] = []\n        if schema.props.len is not Nil:\n            if len(value) != schema.props.len:\n                errors.append(LengthValidationError(path, value, schema.props.len))\n        if schema.props.min_len is not Nil:\n            if len(value) < schema.props.min_len:\n                errors.append(MinLengthValidationError(path, value, schema.props.min_len))\n        if schema.props.max_len is not Nil:\n            if len(value) > schema.props.max_len:\n                errors.append(MaxLengthValidationError(path, value, schema.props.max_len))\n        return errors\n\n    def visit_list(self, schema: ListSchema, *,\n                   value: Any = Nil, path: Nilable[PathHolder] = Nil,\n                   **kwargs: Any) -> ValidationResult:\n        result = self._validation_result_factory()")]},
    {"name": "N10 generator: str length drawn by a helper method",
     "edits": [(G, "        if schema.props.len is not Nil:\n            length = schema.props.len\n        else:\n            min_length = schema.props.min_len if (schema.props.min_len is not Nil) else STR_LEN_MIN",
                "        length = self._str_length(schema)\n\n        if schema.props.alphabet is not Nil:\n            alphabet = schema.props.alphabet\n        else:\n            alphabet = STR_ALPHABET\n        if len(alphabet) == 0:\n            # nothing can be drawn from an empty alphabet: only the empty string conforms\n            return \"\"\n\n        if schema.props.substr is not Nil:\n            substr = schema.props.substr\n            generated = self._random.random_str(length - len(substr), alphabet)\n            offset = self._random.random_int(0, len(generated))\n            return generated[0:offset] + substr + generated[offset:]\n\n        return self._random.random_str(length, alphabet)\n\n    def _str_length(self, schema: StrSchema) -> int:\n        if schema.props.len is not Nil:\n            return schema.props.len\n        else:\n            min_length = schema.props.min_len if (schema.props.min_len is not Nil) else STR_LEN_MIN"),
               (G, "            length = self._random.random_int(min_length, max_length)\n\n        if schema.props.alphabet is not Nil:\n            alphabet = schema.props.alphabet\n        else:\n            alphabet = STR_ALPHABET\n        if len(alphabet) == 0:\n            # nothing can be drawn from an empty alphabet: only the empty string conforms\n            return \"\"\n\n        if schema.props.substr is not Nil:\n            substr = schema.props.substr\n            generated = self._random.random_str(length - len(substr), alphabet)\n            offset = self._random.random_int(0, len(generated))\n            return generated[0:offset] + substr + generated[offset:]\n\n        return self._random.random_str(length, alphabet)\n\n    def visit_list",
                "            return self._random.random_int(min_length, max_length)\n\n    def visit_list")]},
    {"name": "N11 dict declaration: key normalisation in a helper",
     "edits": [(D, "            if isinstance(key, optional):\n                real_keys[key.key] = (val, True)\n            else:\n                real_keys[key] = (val, False)",
                "            name, flag = (key.key, True) if isinstance(key, optional) else (key, False)\n            real_keys[name] = (val, flag)")]},
    {"name": "N12 migration: replacement text built by a helper",
     "edits": [(M, "            replacement_lines = []\n            for new_module, names in new_imports.items():\n                names_str = ', '.join(names)\n                replacement_lines.append(f'from {new_module} import {names_str}\\n')",
                "            replacement_lines = []\n            for new_module, names in new_imports.items():\n                replacement_lines.append('from ' + new_module + ' import ' + ', '.join(names) + '\\n')")]},
    {"name": "N13 str declaration: regex guard via any() over explicit Nil tests",
     "edits": [(S, "        if (self.props.pattern is not Nil) or (self.props.alphabet is not Nil) or \\\n           (self.props.len is not Nil) or (self.props.min_len is not Nil) or \\\n           (self.props.max_len is not Nil) or (self.props.substr is not Nil):\n            raise make_already_declared_error(self)",
                "        exclusive = (self.props.pattern, self.props.alphabet, self.props.len, self.props.min_len,\n                     self.props.max_len, self.props.substr)\n        if any(prop is not Nil for prop in exclusive):\n            raise make_already_declared_error(self)")]},
    {"name": "N14 substitutor: validate-and-raise extracted into a helper",
     "edits": [(SU, "    def visit_int(self, schema: IntSchema, *, value: Any = Nil, **kwargs: Any) -> IntSchema:\n        result = schema.__accept__(self._validator, value=value)\n        if result.has_errors():\n            raise make_substitution_error(result, self._formatter)\n        return schema.__class__(schema.props.update(value=value))",
                "    def _check(self, schema: GenericSchema, value: Any) -> None:\n        result = schema.__accept__(self._validator, value=value)\n        if result.has_errors():\n            raise make_substitution_error(result, self._formatter)\n\n    def visit_int(self, schema: IntSchema, *, value: Any = Nil, **kwargs: Any) -> IntSchema:\n        self._check(schema, value)\n        return schema.__class__(schema.props.update(value=value))")]},
]
